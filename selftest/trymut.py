#!/venv/bin/python
"""Apply one textual mutation (or a patch file) to a scratch copy of /repo/src
and run a check on it.   trymut.py C09 [--tests] (file old new | --patch p.diff)"""
import os
import shutil
import subprocess
import sys
import tempfile


def main():
    args = sys.argv[1:]
    prop = args.pop(0)
    tests = False
    if args[0] == '--tests':
        tests = True
        args.pop(0)
    d = tempfile.mkdtemp(prefix='mut_', dir='/var/tmp')
    try:
        subprocess.check_call(['git', '-C', '/repo', 'worktree', 'add', '-q',
                               '--detach', os.path.join(d, 'wt')])
        wt = os.path.join(d, 'wt')
        if args[0] == '--patch':
            subprocess.check_call(['git', '-C', wt, 'apply', os.path.abspath(args[1])])
        else:
            f, old, new = args
            p = os.path.join(wt, f)
            s = open(p).read()
            assert s.count(old) >= 1, 'pattern not found'
            open(p, 'w').write(s.replace(old, new, 1))
        env = dict(os.environ, VERIF_REPO=wt)
        here = os.path.dirname(os.path.dirname(os.path.abspath(__file__)))
        r = subprocess.run([os.path.join(here, 'check'), prop], env=env,
                           cwd=here, stdout=subprocess.PIPE,
                           stderr=subprocess.STDOUT, text=True)
        lines = [l for l in r.stdout.splitlines() if 'conda' not in l]
        print('\n'.join(l[:220] for l in lines[-12:]))
        print('check exit', r.returncode)
        if tests:
            r2 = subprocess.run([os.path.join(here, 'selftest/baseline.py'), wt],
                                stdout=subprocess.PIPE, stderr=subprocess.STDOUT,
                                text=True)
            print('\n'.join(l for l in r2.stdout.splitlines()[-5:] if 'conda' not in l))
    finally:
        subprocess.call(['git', '-C', '/repo', 'worktree', 'remove', '--force',
                         os.path.join(d, 'wt')])
        shutil.rmtree(d, ignore_errors=True)


if __name__ == '__main__':
    main()
