"""./check --setup : create output directories, verify the environment and the
scheduler's own trustworthiness (DESIGN.md 1.2 'Trust in the scheduler')."""
import os
import sys

from mc import sched, explore, shims

HERE = os.path.dirname(os.path.dirname(os.path.abspath(__file__)))


def toy(racy):
    """A one-slot mailbox.  The racy consumer tests the flag outside the lock
    and then waits without re-testing: lost wake-up."""
    def run_one(ch):
        s = sched.Sched(ch)
        cond = sched.VCondition(sched.VLock())
        box = {'full': False, 'got': None}

        def consumer():
            if racy:
                sched.S.point('field', 'full')
                if not box['full']:
                    with cond:
                        cond.wait()
            else:
                with cond:
                    while not box['full']:
                        cond.wait()
            box['got'] = True

        def producer():
            with cond:
                box['full'] = True
                cond.notify_all()

        s.spawn(consumer, 'consumer')
        s.spawn(producer, 'producer')
        s.run()
        return s.verdict, s.trace
    return run_one


def toys():
    for racy, bound, expect in ((True, 0, False), (True, 1, True),
                                (False, 2, False)):
        found = []
        st = explore.explore(
            toy(racy), bound,
            lambda ch, res: res[0] == 'deadlock' and found.append(ch.choices))
        if bool(found) != expect:
            print("scheduler toy failed: racy=%s bound=%d found=%r execs=%d"
                  % (racy, bound, found, st.executions))
            return 1
        if found:
            # determinism: replay twice, identical traces
            def traced(ch):
                s = sched.Sched(ch, trace=True)
                return s
            a = explore.replay(toy(racy), found[0])[1][0]
            b = explore.replay(toy(racy), found[0])[1][0]
            if a != 'deadlock' or b != 'deadlock':
                print("scheduler toy: replay not deterministic")
                return 1
    return 0


def main():
    for d in ('evidence', 'replay'):
        os.makedirs(os.path.join(HERE, d), exist_ok=True)
    nfc = shims.import_nfc()
    import nfc.llcp.tco as tco
    import nfc.clf as clf
    if tco.threading is not shims.shim['threading'] or \
            clf.time is not shims.shim['time']:
        print("setup: nfc modules are not bound to the shim modules")
        return 1
    rc = toys()
    if rc:
        return rc
    print("setup ok: nfc from %s, python %s" % (
        os.path.dirname(nfc.__file__), sys.version.split()[0]))
    return 0
