#!/venv/bin/python
"""Run the repository's pinned test suite on a source tree and compare with
the stable_pass list of /root/.vp/BASELINE.json.

  selftest/baseline.py [repo_dir]      exit 0 iff every stable_pass test passed
"""
import json
import os
import subprocess
import sys
import tempfile
import xml.etree.ElementTree as ET


def run(repo='/repo'):
    """One full run (per-test timeout 120 s); stable tests that did not pass
    are run once more on their own - the suite has Timer-based tests that
    fail or hang when the machine is loaded."""
    base = json.load(open('/root/.vp/BASELINE.json'))
    stable = set(base['stable_pass'])
    passed, tail = run_once(repo, [])
    missing = sorted(stable - passed)
    if missing and len(missing) <= 60:
        ids = []
        for m in missing:
            cls, name = m.split('::', 1)
            parts = cls.split('.')
            ids.append('::'.join(['/'.join(parts[:2]) + '.py'] + parts[2:]
                                 + [name]))
        again, tail2 = run_once(repo, ids)
        passed |= again
        tail += '\n[re-run of %d tests] ' % len(ids) + tail2[-200:]
        # what still does not pass: each test alone, up to three times
        for m, nid in zip(missing, ids):
            for _ in range(3):
                if m in passed:
                    break
                one, _t = run_once(repo, [nid])
                passed |= one
    missing = sorted(stable - passed)
    return missing, len(passed), tail


def run_once(repo, ids):
    fd, xml = tempfile.mkstemp(suffix='.xml', prefix='junit_', dir='/var/tmp')
    os.close(fd)
    env = dict(os.environ)
    env.pop('NFCPY_VERIF', None)
    env['PYTHONPATH'] = os.path.join(repo, 'src')
    cmd = ['/venv/bin/python', '-m', 'pytest', '-q', '-p', 'no:cacheprovider',
           '--timeout=120', '--continue-on-collection-errors',
           '--junitxml=' + xml] + list(ids)
    # pytest sometimes hangs at interpreter exit on this machine (a Timer
    # thread of the llcp tests): once the junit file is complete the process
    # gets 20 s to leave, the whole run 40 minutes
    import time
    log = tempfile.TemporaryFile(mode='w+')
    proc = subprocess.Popen(cmd, cwd=repo, env=env, stdout=log,
                            stderr=subprocess.STDOUT, text=True)
    t0, done_at = time.time(), None
    while proc.poll() is None:
        time.sleep(2)
        try:
            complete = os.path.getsize(xml) > 0
        except OSError:
            complete = False
        if complete and done_at is None:
            done_at = time.time()
        if (done_at and time.time() - done_at > 20) or \
                time.time() - t0 > 2400:
            proc.kill()
            proc.wait()
            break
    log.seek(0)

    class P(object):
        stdout = log.read()
    p = P()
    passed = set()
    try:
        for tc in ET.parse(xml).getroot().iter('testcase'):
            if not any(c.tag in ('failure', 'error', 'skipped') for c in tc):
                passed.add('%s::%s' % (tc.get('classname'), tc.get('name')))
    finally:
        os.unlink(xml)
    return passed, p.stdout[-400:]


if __name__ == '__main__':
    repo = sys.argv[1] if len(sys.argv) > 1 else '/repo'
    missing, n, tail = run(repo)
    print("passed=%d stable_missing=%d" % (n, len(missing)))
    for m in missing[:40]:
        print("  MISSING", m)
    sys.exit(1 if missing else 0)
