#!/usr/bin/env python
# Standalone repro (no verification framework): Type2Tag.sector_select keeps
# the cached sector number when SECTOR SELECT packet 2 ends with an error
# although the tag executed it.
#
# Type 2 Tag with two 1K sectors.  Packet 2 of the first SECTOR SELECT of an
# NDEF write reaches the tag (the tag switches to sector 1 and stays silent =
# passive ACK) but the reader picks up noise in the 1 ms listening window and
# reports a transmission error.  sector_select() raises, _current_sector is
# still 0, the tag is in sector 1.  The application repeats
# tag.ndef.octets = message on the same object: sector_select(0) is a no-op,
# the WRITE commands for pages 4.. of sector 0 are executed in sector 1.
from __future__ import print_function
import sys
import nfc, nfc.clf, nfc.tag, nfc.tag.tt2

D = int(sys.argv[1]) if len(sys.argv) > 1 else 2040     # data area size
AREA_STOP = 16 + D
NLOCK = ((D - 48 + 7) // 8 + 7) // 8
MEM_SIZE = AREA_STOP + ((NLOCK + 3) // 4) * 4 + 12


class FakeType2Tag(object):
    def __init__(self):
        mem = bytearray(MEM_SIZE)
        mem[0:16] = bytearray.fromhex("05112233 44556677 88480000 E1100000")
        mem[14] = D // 8
        # lock control TLV (dynamic lock bytes behind the data area), NDEF TLV
        mem[16:21] = nfc_lock_tlv(AREA_STOP, (D - 48 + 7) // 8)
        mem[21:24] = bytearray.fromhex("0300FE")
        for i in range(AREA_STOP + NLOCK, MEM_SIZE):
            mem[i] = 0xC0 | (i & 0x0F)      # configuration pages
        self.mem = mem
        self.sector = 0
        self.pending = False
        self.noise_on_next_packet_2 = False
        self.refused = []

    def sense(self, *targets, **kwargs):
        return targets[0] if targets else None

    def exchange(self, data, timeout):
        data = bytearray(data)
        if self.pending:
            self.pending = False
            if len(data) == 4:
                if data[0] * 1024 < MEM_SIZE:
                    self.sector = data[0]       # the tag switches ...
                    if self.noise_on_next_packet_2:
                        self.noise_on_next_packet_2 = False
                        raise nfc.clf.TransmissionError("noise")  # reader side
                    raise nfc.clf.TimeoutError("passive ack")
                return bytearray([0x00])
        if data[0] == 0x30 and len(data) == 2:
            addr = (self.sector * 256 + data[1]) * 4
            if addr >= MEM_SIZE:
                return bytearray([0x00])
            rsp = self.mem[addr:addr+16]
            return rsp + bytearray(16 - len(rsp))
        if data[0] == 0xA2 and len(data) == 6:
            addr = (self.sector * 256 + data[1]) * 4
            if addr >= MEM_SIZE:
                self.refused.append((self.sector, data[1]))
                return bytearray([0x00])
            self.mem[addr:addr+4] = data[2:6]
            return bytearray([0x0A])
        if data == bytearray(b"\xC2\xFF"):
            self.pending = True
            return bytearray([0x0A])
        return bytearray([0x00])


def nfc_lock_tlv(addr, nbits):
    for k in range(16):
        page = addr >> k
        offs = addr - (page << k)
        if page <= 15 and offs <= 15:
            return bytearray([0x01, 0x03, page << 4 | offs, nbits & 255, 0x30 | k])


def new_tag(clf):
    target = nfc.clf.RemoteTarget("106A")
    target.sens_res = bytearray.fromhex("4400")
    target.sel_res = bytearray.fromhex("00")
    target.sdd_res = bytearray.fromhex("05112233445566")
    return nfc.tag.tt2.Type2Tag(clf, target)


def main():
    clf = FakeType2Tag()
    tag = new_tag(clf)
    before = bytearray(clf.mem)
    ndef = tag.ndef
    assert ndef is not None and ndef.is_writeable, "setup"
    message = bytearray((7 * i + 3) & 0xFF or 1 for i in range(ndef.capacity))
    clf.noise_on_next_packet_2 = True
    try:
        ndef.octets = message
    except nfc.tag.TagCommandError as e:
        print("attempt 1:", repr(e), "| tag sector", clf.sector,
              "| library thinks", tag._current_sector)
    else:
        print("FAIL: fault not injected"); return 2
    try:
        tag.ndef.octets = message           # retry on the same object
        print("retry: returned normally")
    except nfc.tag.TagCommandError as e:
        print("retry:", repr(e))
    problems = []
    changed = [i for i in list(range(16)) + list(range(AREA_STOP, MEM_SIZE))
               if clf.mem[i] != before[i]]
    if changed:
        problems.append("bytes outside the NDEF area changed: %s" % changed[:8])
    if clf.refused:
        problems.append("WRITE to non existing pages (sector, page): %s"
                        % clf.refused[:4])
    clf.sector, clf.pending = 0, False      # fresh activation
    fresh = new_tag(clf).ndef
    got = None if fresh is None else bytearray(fresh.octets)
    if got != message:
        problems.append("fresh reader sees %s" % (
            "no ndef" if got is None else "%d octets, %d of them wrong" % (
                len(got), sum(1 for a, b in zip(got, message) if a != b))))
    if problems:
        print("FAIL: " + "; ".join(problems)); return 1
    print("PASS"); return 0


if __name__ == "__main__":
    sys.exit(main())
