# standalone: PYTHONPATH=/repo/src python c08repro.py
import logging, traceback
logging.disable(logging.CRITICAL)
import nfc.clf, nfc.tag

class Clf:                       # minimal frontend: script = fn(cmd) -> bytes | None (mute)
    max_send_data_size = max_recv_data_size = 256
    def __init__(self, fn): self.fn, self.n = fn, 0
    def exchange(self, data, timeout):
        self.n += 1
        if self.n > 2000: raise SystemExit('UNBOUNDED: more than 2000 commands')
        r = self.fn(bytes(data))
        if r is None: raise nfc.clf.TimeoutError
        return bytearray(r)
    def sense(self, *a, **k): return None

def show(name, clf, target):
    try:
        tag = nfc.tag.activate(clf, target)
        nd = tag.ndef if tag else None
        print(name, '->', type(tag).__name__, None if nd is None else ('length', nd.length, 'capacity', nd.capacity))
    except BaseException as e:
        print(name, '-> RAISED', type(e).__name__, e)

# ---- Type 1 (Topaz-512, 512 bytes)
def t1(mem, static=False):
    uid = bytes(mem[0:4]); hr = b'\x11\x48' if static else b'\x12\x4c'
    def fn(c):
        if c[0] == 0x00: return hr + bytes(mem[0:120])
        if static: return None
        if c[0] == 0x02: return c[1:2] + (bytes(mem[c[1]*8:c[1]*8+8]) + bytes(8))[:8]
        if c[0] == 0x10: s = c[1] >> 4; return c[1:2] + (bytes(mem[s*128:s*128+128]) + bytes(128))[:128]
    return Clf(fn), nfc.clf.RemoteTarget('106A', sens_res=bytearray(b'\x00\x0c'), rid_res=bytearray(hr + uid))
m = bytearray(512); m[0:8] = bytes.fromhex('a1b2c3d4e5f60700'); m[8:12] = bytes.fromhex('e1103f00')
m[12:22] = bytes.fromhex('0103f230330203f00203'); m[22:27] = bytes.fromhex('0303d00000')
x = bytearray(m); x[13] = 0x02
show('D3  T1 lock control TLV with L=2            ', *t1(x))
x = bytearray(m); x[22:26] = bytes.fromhex('03ffffff')
show('D2  T1 NDEF TLV length FFFFh                ', *t1(x))
x = bytearray(m[:120]); x[10] = 0x0e; x[12:14] = bytes.fromhex('037f')
show('D1  T1 static tag, NDEF L=7Fh (needs block F)', *t1(x, static=True))
x = bytearray(m); x[10] = 0x0f; x[22:26] = bytes.fromhex('03ff012c')
show('D5  T1 CC size 128 bytes, NDEF L=300        ', *t1(x))

# ---- Type 2 (64 pages = 256 bytes physical, CC announces 48 bytes)
def t2(mem):
    n = len(mem) // 4
    def fn(c):
        if c[0] == 0x30 and c[1] < n: return b''.join(bytes(mem[((c[1]+i) % n)*4:((c[1]+i) % n)*4+4]) for i in range(4))
        if c[0] == 0x30: return b'\x00'
    return Clf(fn), nfc.clf.RemoteTarget('106A', sens_res=bytearray(b'\x44\x00'), sel_res=bytearray(b'\x00'), sdd_res=bytearray(b'\x05' + bytes(mem[1:3]) + bytes(mem[4:8])))
m2 = bytearray(range(256)); m2[0:16] = bytes.fromhex('05112233445566774448 0000 e1100600'); m2[16:18] = bytes.fromhex('0364')
show('D6  T2 CC 48 bytes, NDEF L=100              ', *t2(m2))
m3 = bytearray(16 + 504 + 20); m3[0:16] = bytes.fromhex('05112233445566774448 0000 e1103f00')
m3[16:20] = bytes([0xfd, 0xff, 0, 504 - 257 - 4]); o = 16 + 504 - 257; m3[o:o+2] = b'\x03\xfe'
show('D7  T2 valid tag, 257 bytes left, 254 octets', *t2(m3))

# ---- Type 3
def t3(attr, nblocks=4):
    idm = bytes.fromhex('02fe010203040506'); mem = bytearray(16 * nblocks)
    a = bytearray(attr); a[14:16] = sum(a[0:14]).to_bytes(2, 'big'); mem[0:16] = a
    def fn(c):
        if c[1] == 0x06:
            nb = c[13]; el = c[14:]; blocks = [el[2*i+1] for i in range(nb)]
            if any(b >= nblocks for b in blocks): r = idm + b'\x01\xa8'
            else: r = idm + b'\x00\x00' + bytes([nb]) + b''.join(bytes(mem[16*b:16*b+16]) for b in blocks)
            return bytes([len(r) + 2, 0x07]) + r
    return Clf(fn), nfc.clf.RemoteTarget('212F', sensf_res=bytearray(b'\x01' + idm + bytes.fromhex('00ff4b024f4993ff12fc')))
show('D8  T3 Nbr=0                                ', *t3(bytes.fromhex('10000100010000000000010000070000')))
show('D9  T3 Nbr=127, Ln=3584                     ', *t3(bytes.fromhex('107f0100ff00000000000100 0e00 0000')))
show('D10 T3 Nmaxb=1, Ln=40 (3 blocks exist)      ', *t3(bytes.fromhex('10010100010000000000010000280000')))
def t3short():
    clf, tg = t3(bytes.fromhex('10010100010000000000010000070000'))
    clf.fn = lambda c: bytes.fromhex('0a07 02fe010203040506')
    return clf, tg
show('D11 T3 read response LEN=10 (no status flags)', *t3short())

# ---- Type 4
AID = bytes.fromhex('d2760000850101')
def t4(cc, f, ats=bytes.fromhex('0578807002'), evil=None):
    st = dict(cur=None)
    def apdu(a):
        if a[1] == 0xA4 and a[2] == 4: return b'\x90\x00' if a[5:12] == AID else b'\x6a\x82'
        if a[1] == 0xA4: st['cur'] = {b'\xe1\x03': cc, b'\xe1\x04': f}.get(a[5:7]); return b'\x90\x00' if st['cur'] is not None else b'\x6a\x82'
        if a[1] == 0xB0:
            off, le = a[2] << 8 | a[3], a[4] or 256
            if evil == 'empty' and st['cur'] is f and off >= 2: return b'\x90\x00'
            return bytes(st['cur'][off:off+le]) + b'\x90\x00' if off + le <= len(st['cur']) else b'\x67\x00'
    def fn(c):
        if c[0] == 0xE0: return ats
        if evil == 'rack': return bytes([0xA2 | (c[0] & 1) ^ 1])
        if evil == 'wtx': return b'\xf2\x01'
        if evil == 'chain': return bytes([0x12 | c[0] & 1, 0xaa])
        return bytes([0x02 | c[0] & 1]) + apdu(c[1:])
    return Clf(fn), nfc.clf.RemoteTarget('106A', sens_res=bytearray(b'\x04\x00'), sel_res=bytearray(b'\x20'), sdd_res=bytearray(b'\x08\xa1\xb2\xc3'))
cc = bytes.fromhex('000f20003b00340406e10400400000'); f = bytearray(64); f[0:2] = b'\x00\x07'; f[2:9] = b'1234567'
show('D12 T4A ATS 05 78 80 (no TB/TC, no hist)    ', *t4(cc, f, ats=bytes.fromhex('031180')))
for ev in ('empty', 'rack', 'wtx', 'chain'):
    try: show('D13-16 T4 card answers for ever: %-10s' % ev, *t4(cc, f, evil=ev))
    except SystemExit as e: print('D13-16 T4', ev, '->', e)
cc2 = bytes.fromhex('000f20003b00340406e10400100000'); f2 = bytearray(f); f2[0:2] = b'\x00\x28'
show('D17 T4 CC max file size 16, NLEN 40          ', *t4(cc2, f2))
cc3 = bytes.fromhex('000f20003b00340406e10400010000')
show('D18 T4 CC max file size 1                    ', *t4(cc3, f))
