"""Type 4 Tag: NDEF tag application (CC file + NDEF file) behind a simple
ISO/IEC 14443-4 PICC block layer.

Block layer (sufficient for fault-free operation and plain retransmission; the
fault-tolerant PICC for C12 lives elsewhere):
  RATS (Type A) / ATTRIB (Type B) activate the protocol and fix FSD,
  I-block received   -> block number toggles, INF collected; with chaining bit
                        answered by R(ACK); the complete APDU is executed once
                        and answered by I-blocks with at most FSD-3 INF bytes,
  R(ACK) other number while response chaining -> toggle, next I-block,
  R(ACK)/R(NAK) equal number -> last block again,
  R(NAK) other number -> R(ACK)   (presence check),
  S(DESELECT) -> S(DESELECT), a frame longer than FSC or anything else -> mute.

APDUs (short form only, as nfcpy sends them):
  SELECT by name (NDEF application D2760000850101, optionally ...00),
  SELECT by file id, READ BINARY, UPDATE BINARY with the checks of the T4T
  specification: Le <= MLe, Lc <= MLc, offset + length inside the file
  (6700 / 6B00 otherwise), UPDATE BINARY on the CC file refused (6982).

sim.files = {fid: bytearray}; write records carry area=fid hex and offsets
into that file; sim.apdus logs (apdu, response) for every executed APDU.
"""
from .tagsim import TagSim

AID_V2 = bytes.fromhex('D2760000850101')
AID_V1 = bytes.fromhex('D2760000850100')
FSC_TABLE = (16, 24, 32, 40, 48, 64, 96, 128, 256)
CC_FID = b'\xE1\x03'


def cc_file(mapping=0x20, mle=255, mlc=255, fid=b'\xE1\x04', mfs=256,
            rf=0, wf=0, extended=None):
    """Capability container.  extended=True -> Extended NDEF File Control
    TLV (06/08, 4-byte size and NLEN)."""
    if extended is None:
        extended = (mapping >> 4) >= 3
    if extended:
        tlv = b'\x06\x08' + bytes(fid) + mfs.to_bytes(4, 'big') + bytes([rf, wf])
    else:
        tlv = b'\x04\x06' + bytes(fid) + mfs.to_bytes(2, 'big') + bytes([rf, wf])
    body = bytes([mapping]) + mle.to_bytes(2, 'big') + mlc.to_bytes(2, 'big') + tlv
    return (len(body) + 2).to_bytes(2, 'big') + body


class Type4TagSim(TagSim):
    KIND = 'T4T'

    def __init__(self, cc, ndef_file, fid=b'\xE1\x04', tech='A', fsci=8, fwi=8,
                 mle=None, mlc=None, aids=(AID_V2,), extra_files=None):
        TagSim.__init__(self)
        self.tech = tech
        self.fsci = fsci
        self.fsc = FSC_TABLE[min(fsci, 8)]
        self.fwi = fwi
        self.fid = bytes(fid)
        self.files = {CC_FID: bytearray(cc), self.fid: bytearray(ndef_file)}
        for k, v in (extra_files or {}).items():
            self.files[bytes(k)] = bytearray(v)
        self.readonly = {CC_FID}
        # limits the tag enforces (default: what its CC announces)
        self.mle = mle if mle is not None else int.from_bytes(cc[3:5], 'big')
        self.mlc = mlc if mlc is not None else int.from_bytes(cc[5:7], 'big')
        self.aids = tuple(bytes(a) for a in aids)
        self.uid = bytes.fromhex('08A1B2C3')       # random-UID style, 4 bytes
        self.pupi = bytes.fromhex('C4D5E6F7')
        self.apdus = []
        self.apdu_hook = None     # fn(sim, apdu) -> None | response bytes
        self.power_cycle()

    @property
    def mem(self):
        return self.files[self.fid]

    @mem.setter
    def mem(self, v):
        pass

    def image(self):
        return {k.hex(): bytes(v) for k, v in self.files.items()}

    # -- activation ------------------------------------------------------------
    def power_cycle(self):
        self.active = False
        self.fsd = 256
        self.bn = 1                 # PICC block number (rule C)
        self.rx = bytearray()       # command chain being received
        self.tx = []                # pending response INF chunks
        self.last = None            # last block sent
        self.app = False
        self.cur = None             # selected file id

    def target(self):
        import nfc.clf
        if self.tech == 'A':
            return nfc.clf.RemoteTarget(
                '106A', sens_res=bytearray(b'\x04\x00'),
                sel_res=bytearray(b'\x20'), sdd_res=bytearray(self.uid))
        sensb = (b'\x50' + self.pupi + b'\x00\x00\x00\x00'
                 + bytes([0x00, self.fsci << 4 | 0x01, self.fwi << 4]))
        return nfc.clf.RemoteTarget('106B', sensb_res=bytearray(sensb))

    def name_of(self, cmd):
        if not cmd:
            return 'EMPTY'
        if not self.active:
            return {0xE0: 'RATS', 0x1D: 'ATTRIB'}.get(cmd[0], 'UNKNOWN')
        pcb = cmd[0]
        if pcb & 0xE2 == 0x02:
            return 'I(chain)' if pcb & 0x10 else 'I'
        if pcb & 0xE6 == 0xA2:
            return 'R(NAK)' if pcb & 0x10 else 'R(ACK)'
        if pcb & 0xC7 == 0xC2:
            return 'S(WTX)' if pcb & 0x30 == 0x30 else 'S(DESELECT)'
        return 'UNKNOWN'

    # -- block layer -----------------------------------------------------------
    def execute(self, cmd, ctx):
        ctx.name = self.name_of(cmd)
        if not cmd:
            return None
        if not self.active:
            if self.tech == 'A' and cmd[0] == 0xE0 and len(cmd) == 2:
                self.active = True
                self.fsd = FSC_TABLE[min(cmd[1] >> 4, 8)]
                return bytes([5, 0x70 | self.fsci, 0x00, self.fwi << 4, 0x00])
            if self.tech == 'B' and cmd[0] == 0x1D and len(cmd) >= 9 \
                    and cmd[1:5] == self.pupi:
                self.active = True
                self.fsd = FSC_TABLE[min(cmd[6] & 0x0F, 8)]
                return b'\x00'
            return None
        if len(cmd) + 2 > self.fsc:
            self.damage.append('frame of %d bytes exceeds FSC %d'
                               % (len(cmd) + 2, self.fsc))
            return None
        pcb = cmd[0]
        if pcb & 0xE2 == 0x02:                      # I-block
            if pcb & 0x0C:
                return None                         # CID/NAD not supported
            self.bn ^= 1
            self.rx += cmd[1:]
            if pcb & 0x10:
                return self._send(bytes([0xA2 | self.bn]))
            apdu, self.rx = bytes(self.rx), bytearray()
            rsp = self._apdu(apdu, ctx)
            n = self.fsd - 3
            self.tx = [rsp[i:i + n] for i in range(0, len(rsp), n)] or [b'']
            return self._send_inf()
        if pcb & 0xE6 == 0xA2:                      # R-block
            if pcb & 0x08:
                return None
            if (pcb & 1) == self.bn:
                return self.last                    # retransmit
            if pcb & 0x10:                          # R(NAK), other number
                return self._send(bytes([0xA2 | self.bn]))
            if self.tx:                             # R(ACK) continues chaining
                self.bn ^= 1
                return self._send_inf()
            return None
        if pcb == 0xC2:                             # S(DESELECT)
            self.power_cycle()
            return b'\xC2'
        return None

    def _send(self, block):
        self.last = block
        return block

    def _send_inf(self):
        inf = self.tx.pop(0)
        pcb = 0x02 | self.bn | (0x10 if self.tx else 0)
        return self._send(bytes([pcb]) + inf)

    # -- application layer -----------------------------------------------------
    def _apdu(self, apdu, ctx):
        if self.apdu_hook is not None:
            r = self.apdu_hook(self, apdu)
            if r is not None:
                self.apdus.append((apdu, bytes(r)))
                return bytes(r)
        rsp = self._apdu_exec(apdu, ctx)
        self.apdus.append((apdu, rsp))
        ctx.info['apdu'] = apdu
        return rsp

    def _apdu_exec(self, apdu, ctx):
        if len(apdu) < 4:
            return b'\x67\x00'
        cla, ins, p1, p2 = apdu[0:4]
        data, le = b'', None
        if len(apdu) == 5:
            le = apdu[4] or 256
        elif len(apdu) > 5:
            lc = apdu[4]
            if lc == 0:
                return b'\x67\x00'              # extended length: not supported
            data = apdu[5:5 + lc]
            rest = apdu[5 + lc:]
            if len(data) != lc or len(rest) > 1:
                return b'\x67\x00'
            if rest:
                le = rest[0] or 256
        if cla != 0x00:
            return b'\x6E\x00'
        if ins == 0xA4:
            if p1 == 0x04:
                self.cur = None
                if data in self.aids:
                    self.app = True
                    return b'\x90\x00'
                self.app = False
                return b'\x6A\x82'
            if p1 == 0x00 and p2 in (0x0C, 0x00):
                if self.app and len(data) == 2 and data in self.files:
                    self.cur = data
                    return b'\x90\x00'
                return b'\x6A\x82'
            return b'\x6A\x86'
        if ins == 0xB0:
            if self.cur is None:
                return b'\x69\x86'
            if p1 & 0x80:
                return b'\x6A\x86'
            if le is None or data:
                return b'\x67\x00'
            f = self.files[self.cur]
            off = p1 << 8 | p2
            if off > len(f):
                return b'\x6B\x00'
            if le > max(self.mle, 15) or off + le > len(f):
                return b'\x67\x00'
            return bytes(f[off:off + le]) + b'\x90\x00'
        if ins == 0xD6:
            if self.cur is None:
                return b'\x69\x86'
            if p1 & 0x80:
                return b'\x6A\x86'
            if not data or le is not None:
                return b'\x67\x00'
            off = p1 << 8 | p2
            f = self.files[self.cur]
            if self.cur in self.readonly:
                self.damage.append('UPDATE BINARY on read-only file %s'
                                   % self.cur.hex())
                return b'\x69\x82'
            if len(data) > self.mlc:
                self.damage.append('UPDATE BINARY Lc %d > MLc %d'
                                   % (len(data), self.mlc))
                return b'\x67\x00'
            if off > len(f):
                self.damage.append('UPDATE BINARY offset %d beyond file' % off)
                return b'\x6B\x00'
            if off + len(data) > len(f):
                self.damage.append('UPDATE BINARY %d+%d beyond file size %d'
                                   % (off, len(data), len(f)))
                return b'\x67\x00'
            old = bytes(f[off:off + len(data)])
            f[off:off + len(data)] = data
            self.record_write(ctx, off, old, data, data, area=self.cur.hex())
            ctx.changed = True
            return b'\x90\x00'
        return b'\x6D\x00'
