"""Type 2 Tag (NFC Forum T2T / MIFARE Ultralight / NTAG command set).

Memory is one linear byte array addressed like nfcpy addresses it:
byte address = sector * 1024 + page * 4.  All sectors but the last have 256
pages.  Commands (frames without CRC, as handed to clf.exchange):

  READ   30 pp          16 bytes starting at page pp of the selected sector,
                        rolling over to page 0 of that sector after its last
                        page; NAK if pp is beyond the sector's last page
  WRITE  A2 pp d0..d3   ACK; NAK beyond memory, for pages 0/1 and for pages
                        locked by the static lock bits
  SECTOR SELECT  C2 FF / ss 00 00 00   ACK / passive ACK (no response); NAK if
                        the tag has a single sector or the sector does not exist
  GET_VERSION 60, AUTHENTICATE 1A 00, PWD_AUTH 1B, READ_SIG 3C: only if the
                        product is configured with them
  any other / unsupported command: the tag goes mute (unsupported='mute') or
                        answers NAK (unsupported='nak', NTAG203 style)

After a NAK or an unsupported command the tag is mute until the reader senses
it again (clf.sense), as real tags return to IDLE.

Write semantics: page 2 bytes 0,1 (BCC1, internal) never change, page 2 bytes
2,3 (static lock), page 3 (OTP/CC) and every address in `oneway` (dynamic lock
bytes) are one-way - bits can only be set, every change is recorded in
sim.damage.
"""
from .tagsim import TagSim

ACK = b'\x0A'
NAK = b'\x00'


class Type2TagSim(TagSim):
    KIND = 'T2T'

    def __init__(self, mem, oneway=(), version=None, unsupported='mute',
                 ulc=False, pwd=None, pack=b'\0\0', signature=None):
        TagSim.__init__(self)
        self.mem = bytearray(mem)
        assert len(self.mem) % 4 == 0 and len(self.mem) >= 64
        self.total_pages = len(self.mem) // 4
        self.nsectors = (self.total_pages + 255) // 256
        self.oneway = set(oneway)
        self.version = version
        self.unsupported = unsupported
        self.ulc = ulc
        self.pwd = pwd
        self.pack = bytes(pack)
        self.signature = signature
        self.power_cycle()

    def power_cycle(self):
        self.sector = 0
        self.mute = False
        self.sector_pending = False
        self.auth_pending = False

    def target(self):
        import nfc.clf
        return nfc.clf.RemoteTarget(
            '106A', sens_res=bytearray(b'\x44\x00'),
            sel_res=bytearray(b'\x00'),
            sdd_res=bytearray(self.mem[0:3] + self.mem[4:8]))

    def pages_in_sector(self, s):
        return max(0, min(256, self.total_pages - 256 * s))

    def name_of(self, cmd):
        if not cmd:
            return 'EMPTY'
        if self.sector_pending and len(cmd) == 4:
            return 'SECTOR_SELECT_2'
        return {0x30: 'READ', 0xA2: 'WRITE', 0xC2: 'SECTOR_SELECT_1',
                0x60: 'GET_VERSION', 0x1A: 'AUTHENTICATE', 0x1B: 'PWD_AUTH',
                0x3C: 'READ_SIG', 0xAF: 'AUTHENTICATE_2',
                0x50: 'HLTA'}.get(cmd[0], 'UNKNOWN')

    def _nak(self):
        self.mute = True
        return NAK

    def _unsupported(self):
        self.mute = True
        return NAK if self.unsupported == 'nak' else None

    def execute(self, cmd, ctx):
        ctx.name = self.name_of(cmd)
        if self.mute or not cmd:
            return None
        if self.sector_pending:
            self.sector_pending = False
            if len(cmd) == 4:
                if cmd[0] < self.nsectors:
                    self.sector = cmd[0]
                    return None          # passive ACK: no response for 1 ms
                return self._nak()
        code = cmd[0]
        if code == 0x30 and len(cmd) == 2:
            return self._read(cmd[1])
        if code == 0xA2 and len(cmd) == 6:
            return self._write(ctx, cmd[1], cmd[2:6])
        if code == 0xC2 and cmd == b'\xC2\xFF':
            if self.nsectors > 1:
                self.sector_pending = True
                return ACK
            return self._nak()
        if code == 0x60 and len(cmd) == 1 and self.version is not None:
            return bytes(self.version)
        if code == 0x1A and cmd == b'\x1A\x00' and self.ulc:
            self.auth_pending = True
            return b'\xAF' + bytes(range(0x11, 0x19))
        if code == 0x1B and len(cmd) == 5 and self.pwd is not None:
            if cmd[1:5] == bytes(self.pwd):
                return self.pack
            return self._nak()
        if code == 0x3C and cmd == b'\x3C\x00' and self.signature is not None:
            return bytes(self.signature)
        if code == 0x50:
            self.mute = True
            return None
        return self._unsupported()

    def _read(self, page):
        n = self.pages_in_sector(self.sector)
        if page >= n:
            return self._nak()
        base = self.sector * 1024
        out = bytearray()
        for i in range(4):
            p = (page + i) % n if page + i >= n else page + i
            out += self.mem[base + p * 4:base + p * 4 + 4]
        return bytes(out)

    def _page_locked(self, sector, page):
        if sector == 0 and 3 <= page <= 15:
            bits = self.mem[10] | self.mem[11] << 8
            return bool(bits >> page & 1)
        return False

    def _write(self, ctx, page, data):
        n = self.pages_in_sector(self.sector)
        if page >= n:
            self.damage.append('write beyond memory: sector %d page %d'
                               % (self.sector, page))
            return self._nak()
        addr = self.sector * 1024 + page * 4
        if self.sector == 0 and page < 2:
            self.damage.append('write to UID page %d' % page)
            return self._nak()
        if self._page_locked(self.sector, page):
            self.damage.append('write to locked page %d' % page)
            return self._nak()
        old = bytes(self.mem[addr:addr + 4])
        new = bytearray(data)
        for i in range(4):
            a = addr + i
            if a in (8, 9):
                new[i] = old[i]
            elif 10 <= a < 16 or a in self.oneway:
                new[i] = old[i] | data[i]
                if new[i] != old[i]:
                    self.damage.append('one-way byte %d changed %02x->%02x'
                                       % (a, old[i], new[i]))
        self.mem[addr:addr + 4] = new
        self.record_write(ctx, addr, old, new, data)
        ctx.changed = True
        return ACK
