"""In-memory datagram sockets + select for the unmodified nfc.clf.udp driver.

One `Net` is the air: ports -> sockets, a log of every datagram, and an
optional `fate(net, src_port, dst_port, data) -> data | None` callback with
which a harness can drop or modify datagrams (environment choices).
Receiving is a scheduling point with the virtual clock.
"""
import collections
import errno
import socket as _rsock

from mc import sched

NET = None


class Net(object):
    def __init__(self, fate=None):
        self.bound = {}
        self.log = []
        self.eph = 50000
        self.fate = fate


def new_net(fate=None):
    global NET
    NET = Net(fate)
    return NET


class VSocket(object):
    def __init__(self, *a, **kw):
        self.q = collections.deque()
        self.addr = None
        self.closed = False
        self.net = NET

    def _net(self):
        if self.net is None:
            self.net = NET
        if self.net is None:
            raise sched.HarnessError("no virtual air (sim.air.new_net())")
        return self.net

    def bind(self, addr):
        net = self._net()
        port = addr[1]
        if port in net.bound and net.bound[port] is not self:
            raise _rsock.error(errno.EADDRINUSE, 'Address already in use')
        if self.addr is not None:
            raise _rsock.error(errno.EINVAL, 'Invalid argument')
        net.bound[port] = self
        self.addr = ('127.0.0.1', port)

    def _auto(self):
        if self.addr is None:
            net = self._net()
            net.eph += 1
            self.addr = ('127.0.0.1', net.eph)
            net.bound[net.eph] = self

    def getsockname(self):
        return self.addr if self.addr else ('0.0.0.0', 0)

    def sendto(self, data, addr):
        net = self._net()
        self._auto()
        data = bytes(data)
        n = len(data)
        net.log.append((self.addr[1], addr[1], data))
        if net.fate is not None:
            data = net.fate(net, self.addr[1], addr[1], data)
            if data is None:
                return n
        dst = net.bound.get(addr[1])
        if dst is not None and not dst.closed:
            dst.q.append((data, self.addr))
        return n

    def recvfrom(self, n):
        if not self.q:
            raise _rsock.error(errno.EAGAIN, 'would block')
        return self.q.popleft()

    def close(self):
        self.closed = True
        if self.addr and self.net is not None:
            if self.net.bound.get(self.addr[1]) is self:
                del self.net.bound[self.addr[1]]

    def fileno(self):
        return -1

    def setsockopt(self, *a):
        pass

    def settimeout(self, t):
        pass


def vselect(r, w, x, timeout=None):
    s = r[0]
    if not s.q:
        me = sched.cur()
        if me is None:
            if timeout is None:
                raise sched.HarnessError("sequential select without timeout")
            sched.vsleep(timeout)
        else:
            S = sched.S
            S.block(lambda: bool(s.q),
                    None if timeout is None else S.now + max(timeout, 0),
                    'select', '')
    return ([s] if s.q else [], [], [])


def gethostbyname(h):
    return '127.0.0.1'


def getnameinfo(a, f):
    return (a[0], str(a[1]))
