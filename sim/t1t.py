"""Type 1 Tag (Topaz/Jewel command set) with a byte-array memory.

Frames are what nfcpy hands to clf.exchange (no CRC).  Static memory model
(HR0 = 0x11): 120 bytes, commands RID, RALL, READ, WRITE-E, WRITE-NE.
Dynamic memory model (HR0 = 0x12): n*8 bytes, additionally RSEG, READ8,
WRITE-E8, WRITE-NE8.

Memory rules (T1T specification / Topaz data sheet):
  block 0 (UID) and block 0xD are read-only,
  block 0xE (LOCK0/1, OTP0-5) and, for dynamic tags, block 0xF are one-way:
  bits can only be set (every change is recorded in sim.damage),
  a block whose static / dynamic lock bit is set refuses writes,
  a write beyond the physical memory stores nothing (recorded as damage);
  reads beyond the physical memory return zeros.
"""
from .tagsim import TagSim

RID, RALL, READ, WRITE_E, WRITE_NE = 0x78, 0x00, 0x01, 0x53, 0x1A
RSEG, READ8, WRITE_E8, WRITE_NE8 = 0x10, 0x02, 0x54, 0x1B

NAMES = {RID: 'RID', RALL: 'RALL', READ: 'READ', WRITE_E: 'WRITE-E',
         WRITE_NE: 'WRITE-NE', RSEG: 'RSEG', READ8: 'READ8',
         WRITE_E8: 'WRITE-E8', WRITE_NE8: 'WRITE-NE8'}


class Type1TagSim(TagSim):
    KIND = 'T1T'

    def __init__(self, mem, hr=(0x11, 0x48)):
        TagSim.__init__(self)
        self.mem = bytearray(mem)
        self.hr = bytes(hr)
        self.dynamic = (self.hr[0] & 0x0F) != 1
        assert len(self.mem) % 8 == 0
        assert len(self.mem) == 120 or (self.dynamic and len(self.mem) >= 128)
        self.oob_reads = 0

    # -- identification ------------------------------------------------------
    @property
    def uid4(self):
        return bytes(self.mem[0:4])

    def target(self):
        import nfc.clf
        return nfc.clf.RemoteTarget(
            '106A', sens_res=bytearray(b'\x00\x0C'),
            rid_res=bytearray(self.hr + self.uid4))

    def name_of(self, cmd):
        return NAMES.get(cmd[0], 'UNKNOWN') if cmd else 'EMPTY'

    # -- write rules ---------------------------------------------------------
    def _block_locked(self, block):
        if block in (0, 0x0D):
            return True
        if block < 0x0E:
            bits = self.mem[112] | self.mem[113] << 8
            return bool(bits >> block & 1)
        if block >= 0x10 and self.dynamic:
            i = block - 0x10
            byte = 122 + (i >> 3)
            if byte < 128:
                return bool(self.mem[byte] >> (i & 7) & 1)
        return False

    def _oneway(self, addr):
        return 112 <= addr < (128 if self.dynamic else 120)

    def _write(self, ctx, addr, data, erase):
        """Store `data` at addr (one command); returns the resulting bytes."""
        n = len(data)
        if addr + n > len(self.mem):
            self.damage.append('write beyond physical memory at %d' % addr)
            self.record_write(ctx, addr, b'', b'', data)
            ctx.changed = True          # the command was accepted by "a" tag
            return bytes(n)
        old = bytes(self.mem[addr:addr + n])
        block = addr >> 3
        if self._block_locked(block):
            self.damage.append('write to locked/read-only block %d' % block)
            new = old
        else:
            new = bytearray(old)
            for i in range(n):
                a = addr + i
                if self._oneway(a) or not erase:
                    new[i] = old[i] | data[i]
                else:
                    new[i] = data[i]
                if self._oneway(a) and new[i] != old[i]:
                    self.damage.append(
                        'one-way byte %d changed %02x->%02x' % (a, old[i], new[i]))
            self.mem[addr:addr + n] = new
        self.record_write(ctx, addr, old, new, data)
        ctx.changed = True
        return bytes(new)

    # -- commands ------------------------------------------------------------
    def execute(self, cmd, ctx):
        ctx.name = self.name_of(cmd)
        if not cmd:
            return None
        code = cmd[0]
        if code == RID:
            if len(cmd) != 7:
                return None
            return self.hr + self.uid4
        if code in (RALL, READ, WRITE_E, WRITE_NE):
            if len(cmd) != 7 or cmd[3:7] != self.uid4:
                return None
            if code == RALL:
                return self.hr + bytes(self.mem[0:120])
            addr = cmd[1]
            if addr > 0x7F:
                return None
            if addr >= len(self.mem) or (not self.dynamic and addr >= 120):
                if code == READ:
                    self.oob_reads += 1
                    return bytes([addr, 0])
                self.damage.append('byte write beyond static memory at %d' % addr)
                return bytes([addr, 0])
            if code == READ:
                return bytes([addr, self.mem[addr]])
            new = self._write(ctx, addr, cmd[2:3], erase=(code == WRITE_E))
            return bytes([addr]) + new
        if code in (RSEG, READ8, WRITE_E8, WRITE_NE8):
            if not self.dynamic:
                return None             # static tags do not know these
            if len(cmd) != 14 or cmd[10:14] != self.uid4:
                return None
            if code == RSEG:
                seg = cmd[1] >> 4
                data = bytes(self.mem[seg * 128:(seg + 1) * 128])
                if len(data) < 128:
                    self.oob_reads += 1
                    data += bytes(128 - len(data))
                return cmd[1:2] + data
            block = cmd[1]
            if code == READ8:
                data = bytes(self.mem[block * 8:block * 8 + 8])
                if len(data) < 8:
                    self.oob_reads += 1
                    data += bytes(8 - len(data))
                return cmd[1:2] + data
            new = self._write(ctx, block * 8, cmd[2:10],
                              erase=(code == WRITE_E8))
            return cmd[1:2] + new
        return None
