"""A small contactless frontend for the C20 tag models (sim/felica_lite.py,
sim/ntag21x.py): `exchange`, `sense` and a scripted man-in-the-middle on the
responses.

Modifications ("mods") are JSON-able lists addressed by the index of the
response since the last `arm()`:

    [i, 'xor', offset, mask]     flip bits of one octet
    [i, 'set', offset, value]    substitute one octet
    [i, 'replace', hex]          substitute the whole response
    [i, 'timeout']               drop the response (TimeoutError)
    [i, 'trunc', n]              keep the first n octets
    [i, 'append', hex]           add octets

Several mods may address the same response (pairs of flips).  A mod whose
offset lies beyond the response is recorded in `unapplied`.
"""


class AuthClf(object):
    def __init__(self, model, kind):
        assert kind in ('felica', 'ntag')
        self.model = model
        self.kind = kind
        self.mods = []
        self.count = 0
        self.trace = []          # (index, command, tag response, delivered)
        self.unapplied = []
        self.senses = 0

    # -- harness side --------------------------------------------------------
    def arm(self, mods=()):
        """Start a new conversation: response counter to 0, install mods."""
        self.mods = [list(m) for m in mods]
        self.count = 0
        self.trace = []
        self.unapplied = []

    def target(self, system_code=None):
        """A fresh RemoteTarget as `sense` would have produced it (the tag is
        power-cycled / re-selected)."""
        import nfc.clf
        if self.kind == 'felica':
            self.model.power_on()
            return nfc.clf.RemoteTarget(
                '212F', sensf_res=bytearray(self.model.sensf_res(system_code)))
        self.model.activate()
        return nfc.clf.RemoteTarget(
            '106A', sens_res=bytearray(b'\x44\x00'),
            sel_res=bytearray(b'\x00'),
            sdd_res=bytearray(self.model.sdd_res()))

    # -- what nfc.tag uses ---------------------------------------------------
    def sense(self, *targets, **options):
        self.senses += 1
        if not targets:
            return None
        t = targets[0]
        if self.kind == 'ntag':
            want = getattr(t, 'sel_req', None)
            if want is not None and bytes(want) != self.model.sdd_res():
                return None
            self.model.activate()
        return t

    def exchange(self, data, timeout):
        import nfc.clf
        i = self.count
        self.count += 1
        rsp = self.model.command(bytes(data))
        out = None if rsp is None else bytearray(rsp)
        for m in self.mods:
            if m[0] != i:
                continue
            op = m[1]
            if op == 'timeout':
                out = None
            elif out is None:
                self.unapplied.append(m)
            elif op == 'xor':
                if m[2] < len(out):
                    out[m[2]] ^= m[3]
                else:
                    self.unapplied.append(m)
            elif op == 'set':
                if m[2] < len(out):
                    out[m[2]] = m[3]
                else:
                    self.unapplied.append(m)
            elif op == 'replace':
                out = bytearray.fromhex(m[2])
            elif op == 'trunc':
                out = out[:m[2]]
            elif op == 'append':
                out = out + bytearray.fromhex(m[2])
            else:
                raise ValueError('unknown mod %r' % (m,))
        self.trace.append((i, bytes(data), rsp,
                           None if out is None else bytes(out)))
        if out is None:
            raise nfc.clf.TimeoutError('no response')
        return out
