"""Two fake `clf`-shaped endpoints joined by a half-duplex NFC-DEP channel.

    chan = Channel(chooser, brty='106A')          # chooser: mc.sched.Chooser
    ini = nfc.dep.Initiator(chan.initiator)        # .sense() .exchange()
    tgt = nfc.dep.Target(chan.target)              # .listen() .exchange()

Both endpoints must be driven from virtual threads of one mc.sched.Sched (a
receive is a scheduling point with the virtual clock).  Every frame that is
put on the channel is recorded in `chan.log` (Frame objects) and gets an
environment fate through `chooser.env(n, label)`:

    0 deliver   the peer's pending/next receive returns the bytes
    1 lose      nothing arrives; whoever waits for it gets nfc.clf.TimeoutError
                once the virtual clock has advanced by the timeout it passed
    2 corrupt   the receiver gets nfc.clf.TransmissionError (what a chipset
                reports for a CRC/parity error); the sender, if it waits for
                an answer, times out because the receiver stays mute

`fate_n(frame) -> 1|2|3` limits the alternatives per frame (1 = this frame is
always delivered and no choice point is logged; `fate_n=lambda f: 1` gives a
perfect channel).  The label of a choice point is "<idx>:<src>><dst>:<pdu>",
e.g. "5:T>I:DEP_RES.ACK".

Observation points: `chan.log` (every Frame: idx, src, dst, data, fate, t =
virtual send time, brty, listen = sent while listen() was running, p = Parsed),
`chan.faults()`, `chan.last['I'|'T']` (what that side's receiver experienced
last: ('rx', Frame) | ('crc', Frame) | ('timeout', None)), `chan.stale_dropped`
(frames that arrived while the initiator was not receiving).  Frames take no
virtual time; only waiting does.

What the endpoints do on behalf of a driver (and nothing more):

* `sense()` finds the peer only while the target endpoint is inside
  `listen()` (it waits for that at most iterations*interval of virtual time);
  passive 106A / 212F / 424F discovery returns the SENS/SDD/SEL or SENSF
  responses the listener was given, an `atr_req` target (active mode) makes
  the endpoint run the ATR exchange itself when the channel was created with
  acm=True and raises UnsupportedTargetError otherwise.
* `listen()` consumes ATR_REQ, answers ATR_RES (DID echoed), answers an
  optional PSL_REQ (and switches the bit rate), answers DSL/RLS, and returns
  a LocalTarget carrying the first DEP_REQ.  Any fault on a frame it consumes
  or waits for makes it return None, as the real drivers do.
* `exchange(data, timeout)`: initiator side sends and waits; target side sends
  `data` if not None and waits for the next command; timeout 0 on the target
  side means send only and return None (nfc.clf.udp semantics).

The frame parser below is written from the NFC-DEP frame format (ISO 18092 /
NFC Forum Digital Protocol), not from nfc.dep: SB (F0h, 106 kbps only), LEN,
CMD0 (D4h request / D5h response), CMD1, then for DEP_REQ/RES the PFB
[DID] [NAD] and the payload.
"""
import collections

from mc import sched

DELIVER, LOSE, CORRUPT = 0, 1, 2
FATES = ('deliver', 'lose', 'corrupt')

CMD1 = {0x00: 'ATR_REQ', 0x01: 'ATR_RES', 0x04: 'PSL_REQ', 0x05: 'PSL_RES',
        0x06: 'DEP_REQ', 0x07: 'DEP_RES', 0x08: 'DSL_REQ', 0x09: 'DSL_RES',
        0x0A: 'RLS_REQ', 0x0B: 'RLS_RES'}
PFB_TYPE = {0x0: 'INF', 0x1: 'INF+', 0x4: 'ACK', 0x5: 'NAK', 0x8: 'ATN',
            0x9: 'RTOX'}


class Parsed(object):
    """kind: 'ATR_REQ' ... or '?' ; for DEP: pdu ('INF','INF+','ACK','NAK',
    'ATN','RTOX' or '?'), pni, did, nad, payload.  td = transport data (CMD0
    onwards), tdlen = LEN - 1 as announced by the length byte."""
    __slots__ = ('kind', 'pdu', 'pni', 'did', 'nad', 'payload', 'td',
                 'tdlen', 'wellformed')

    def __init__(self):
        self.kind, self.pdu, self.pni = '?', None, None
        self.did = self.nad = None
        self.payload, self.td, self.tdlen = b'', b'', None
        self.wellformed = False

    @property
    def name(self):
        return self.kind if self.pdu is None else '%s.%s' % (self.kind,
                                                              self.pdu)


def parse_frame(data, brty):
    p = Parsed()
    data = bytes(data)
    if brty == '106A':
        if data[:1] != b'\xF0':
            return p
        data = data[1:]
    if len(data) < 3:
        return p
    p.tdlen = data[0] - 1
    p.td = data[1:]
    p.wellformed = (data[0] == len(data))
    cmd0, cmd1 = p.td[0], p.td[1]
    kind = CMD1.get(cmd1)
    if kind is None or cmd0 != (0xD4, 0xD5)[cmd1 & 1]:
        p.wellformed = False
        return p
    p.kind = kind
    if kind in ('DEP_REQ', 'DEP_RES'):
        if len(p.td) < 3:
            p.wellformed = False
            return p
        pfb = p.td[2]
        p.pdu = PFB_TYPE.get(pfb >> 4, '?')
        p.pni = pfb & 3
        i = 3
        if pfb & 0x04:
            p.did = p.td[i] if len(p.td) > i else -1
            i += 1
        if pfb & 0x08:
            p.nad = p.td[i] if len(p.td) > i else -1
            i += 1
        p.payload = p.td[i:]
    return p


def make_frame(td, brty):
    td = bytes(td)
    f = bytes([len(td) + 1]) + td
    return (b'\xF0' + f) if brty == '106A' else f


class Frame(object):
    """One frame put on the channel."""
    __slots__ = ('idx', 'src', 'data', 'fate', 't', 'brty', 'listen', 'p',
                 'stale')

    def __init__(self, idx, src, data, t, brty, listen):
        self.idx, self.src, self.data = idx, src, bytes(data)
        self.t, self.brty, self.listen = t, brty, listen
        self.fate = DELIVER
        self.stale = False
        self.p = parse_frame(self.data, brty)

    @property
    def dst(self):
        return 'T' if self.src == 'I' else 'I'

    @property
    def label(self):
        return '%d:%s>%s:%s' % (self.idx, self.src, self.dst, self.p.name)

    def dump(self):
        return dict(idx=self.idx, dir='%s>%s' % (self.src, self.dst),
                    name=self.p.name, pni=self.p.pni, fate=FATES[self.fate],
                    t=round(self.t, 6), hex=self.data.hex(),
                    listen=self.listen)


class Channel(object):
    def __init__(self, chooser, brty='106A', acm=False, fate_n=None):
        assert brty in ('106A', '212F', '424F')
        self.chooser = chooser
        self.brty0 = brty          # technology at which the target is found
        self.brty = brty           # current bit rate / framing
        self.acm = acm
        self.fate_n = fate_n
        self.inbox = {'I': collections.deque(), 'T': collections.deque()}
        self.log = []
        self.listening = None      # LocalTarget while TargetEnd.listen() runs
        self.stale_dropped = 0
        # what each side's receiver experienced last:
        # ('rx', Frame) | ('crc', Frame) | ('timeout', None)
        self.last = {'I': None, 'T': None}
        self.initiator = InitiatorEnd(self)
        self.target = TargetEnd(self)

    # -- the air -------------------------------------------------------------
    def send(self, src, data):
        fr = Frame(len(self.log), src, data, sched.now(), self.brty,
                   self.listening is not None)
        self.log.append(fr)
        n = 3 if self.fate_n is None else self.fate_n(fr)
        fr.fate = self.chooser.env(n, fr.label)
        if fr.fate != LOSE:
            self.inbox[fr.dst].append(fr)
        return fr

    def flush(self, me):
        """The receiver was not listening: what is in the inbox is gone."""
        q = self.inbox[me]
        while q:
            q.popleft().stale = True
            self.stale_dropped += 1

    def recv(self, me, timeout):
        import nfc.clf
        q = self.inbox[me]
        if not q:
            if timeout is not None and timeout <= 0:
                self.last[me] = ('timeout', None)
                raise nfc.clf.TimeoutError("no data (timeout %r)" % timeout)
            s = sched.S
            if s is None or sched.cur() is None:
                raise sched.HarnessError(
                    "depchan receive outside a virtual thread")
            s.block(lambda: bool(q),
                    None if timeout is None else s.now + timeout,
                    'recv', me)
        if not q:
            self.last[me] = ('timeout', None)
            raise nfc.clf.TimeoutError("no data within %r s" % timeout)
        fr = q.popleft()
        if fr.fate == CORRUPT:
            self.last[me] = ('crc', fr)
            raise nfc.clf.TransmissionError("CRC error (frame %d)" % fr.idx)
        self.last[me] = ('rx', fr)
        return bytearray(fr.data)

    def faults(self):
        return [f for f in self.log if f.fate != DELIVER]

    def dump(self):
        return [f.dump() for f in self.log]


class _End(object):
    def __init__(self, chan):
        self.chan = chan

    @property
    def max_send_data_size(self):
        return 290

    @property
    def max_recv_data_size(self):
        return 290

    def close(self):
        pass


class InitiatorEnd(_End):
    me = 'I'

    def sense(self, *targets, **options):
        import nfc.clf
        ch = self.chan
        iterations = max(1, options.get('iterations', 1))
        budget = iterations * options.get('interval', 0.1)
        for target in targets:
            if not isinstance(target, nfc.clf.RemoteTarget):
                raise ValueError("invalid target argument type: %r" % target)
        for target in targets:
            if target.atr_req is not None:
                if not ch.acm:
                    if len(targets) == 1:
                        raise nfc.clf.UnsupportedTargetError(
                            "active communication mode not supported")
                    continue
                if target.brty != ch.brty0 or not self._wait_listener(budget):
                    continue
                try:
                    ch.flush('I')
                    ch.send('I', make_frame(target.atr_req, ch.brty))
                    rsp = ch.recv('I', 0.5)
                except nfc.clf.CommunicationError:
                    continue
                p = parse_frame(rsp, ch.brty)
                if p.kind != 'ATR_RES' or not p.wellformed:
                    continue
                return nfc.clf.RemoteTarget(
                    ch.brty, atr_req=bytearray(target.atr_req),
                    atr_res=bytearray(p.td))
            elif ch.acm:
                continue
            elif target.brty == ch.brty0:
                if not self._wait_listener(budget):
                    continue
                lt = ch.listening
                if target.brty == '106A':
                    return nfc.clf.RemoteTarget(
                        '106A', sens_res=bytearray(lt.sens_res),
                        sdd_res=bytearray(lt.sdd_res),
                        sel_res=bytearray(lt.sel_res))
                return nfc.clf.RemoteTarget(
                    target.brty, sensf_res=bytearray(lt.sensf_res))
        return None

    def _wait_listener(self, budget):
        ch = self.chan
        if ch.listening is None and sched.cur() is not None:
            s = sched.S
            s.block(lambda: ch.listening is not None, s.now + budget,
                    'sense', 'I')
        return ch.listening is not None

    def exchange(self, send_data, timeout):
        ch = self.chan
        ch.flush('I')
        if send_data is not None:
            ch.send('I', send_data)
        if timeout is not None and timeout <= 0:
            return None
        return ch.recv('I', timeout)


class TargetEnd(_End):
    me = 'T'

    def listen(self, target, timeout):
        import nfc.clf
        ch = self.chan
        if not isinstance(target, nfc.clf.LocalTarget):
            raise ValueError("invalid target argument type: %r" % target)
        if target.atr_res is None:
            raise nfc.clf.UnsupportedTargetError("only DEP listen is modelled")
        deadline = sched.now() + timeout
        ch.brty = ch.brty0
        ch.listening = target
        try:
            return self._listen_dep(target, deadline)
        except nfc.clf.CommunicationError:
            return None
        finally:
            ch.listening = None

    def _listen_dep(self, target, deadline):
        import nfc.clf
        ch = self.chan

        def wait():
            return ch.recv('T', max(deadline - sched.now(), 0))

        p = parse_frame(wait(), ch.brty)
        if p.kind != 'ATR_REQ' or not p.wellformed or not 16 <= len(p.td) <= 64:
            return None
        atr_req = bytearray(p.td)
        atr_res = bytearray(target.atr_res)
        atr_res[12] = atr_req[12]
        ch.send('T', make_frame(atr_res, ch.brty))
        psl_req = psl_res = None
        while True:
            p = parse_frame(wait(), ch.brty)
            if not p.wellformed:
                return None
            if p.kind == 'PSL_REQ' and psl_req is None and len(p.td) == 5:
                psl_req = bytearray(p.td)
                psl_res = bytearray(b'\xD5\x05') + psl_req[2:3]
                ch.send('T', make_frame(psl_res, ch.brty))
                dsi = psl_req[3] >> 3 & 7
                if dsi > 2:
                    return None
                ch.brty = ('106A', '212F', '424F')[dsi]
                continue
            if p.kind in ('DSL_REQ', 'RLS_REQ'):
                res = bytes([0xD5, p.td[1] + 1]) + p.td[2:3]
                ch.send('T', make_frame(res, ch.brty))
                return None
            if p.kind != 'DEP_REQ':
                return None
            lt = nfc.clf.LocalTarget(ch.brty, atr_req=atr_req,
                                     atr_res=atr_res,
                                     dep_req=bytearray(p.td))
            if psl_req is not None:
                lt.psl_req, lt.psl_res = psl_req, psl_res
            if not ch.acm:
                if ch.brty0 == '106A':
                    lt.sens_res = bytearray(target.sens_res)
                    lt.sdd_res = bytearray(target.sdd_res)
                    lt.sel_res = bytearray(target.sel_res)
                else:
                    lt.sensf_res = bytearray(target.sensf_res)
            return lt

    def exchange(self, send_data, timeout):
        ch = self.chan
        if send_data is not None:
            ch.send('T', send_data)
        if timeout is not None and timeout <= 0:
            return None
        return ch.recv('T', timeout)
