"""Two MAC stand-ins joined by a rendezvous channel: an Initiator/Target pair
(subclasses of the real nfc.dep classes, so llc.activate accepts them) whose
exchange() hands frames over without NFC-DEP.  Used where NFC-DEP is not the
subject (C05 threaded part).  `tap(direction, frame)` sees every frame."""
import collections

from mc import sched


class Pair(object):
    def __init__(self, tap=None, io_time=0.001):
        self.i2t = collections.deque()
        self.t2i = collections.deque()
        self.tap = tap
        self.io_time = io_time
        self.gb = {}
        self.broken = False


def make(pair):
    import nfc.dep
    import nfc.clf

    class Base(object):
        def __init__(self):
            self.rwt = 0.01
            self.miu = 251
            self.did = self.nad = None
            self._acm = False
            self.gbt = self.gbi = None
            self.deactivated = None

        def deactivate(self, *a, **kw):
            self.deactivated = (a, kw)
            pair.broken = True

        def _wait(self, q, timeout):
            if not q:
                s = sched.S
                # the peer always answers eventually: a receive timeout is a
                # link failure, which is C09's subject, not C05's
                s.block(lambda: bool(q) or pair.broken, None,
                        'io', type(self).__name__)
            if not q:
                raise nfc.clf.TimeoutError("no frame from the peer")
            return q.popleft()

    class Ini(Base, nfc.dep.Initiator):
        def activate(self, target=None, **options):
            pair.gb['i'] = options.get('gbi')
            return pair.gb.get('t')

        def exchange(self, send_data, timeout):
            data = bytes(send_data)
            if pair.tap:
                pair.tap('i2t', data)
            pair.i2t.append(data)
            return self._wait(pair.t2i, timeout)

    class Tgt(Base, nfc.dep.Target):
        def activate(self, timeout=None, **options):
            pair.gb['t'] = options.get('gbt')
            return pair.gb.get('i')

        def exchange(self, send_data, timeout):
            if send_data is not None:
                data = bytes(send_data)
                if pair.tap:
                    pair.tap('t2i', data)
                pair.t2i.append(data)
            return self._wait(pair.i2t, timeout)

    return Ini(), Tgt()
