"""Common base of the stateful tag simulators (sim/t1t.py ... sim/t4t.py).

A simulator is a byte-array tag memory plus the command set nfcpy uses for
that tag type.  It is driven through `FakeClf`, an object that offers the part
of `nfc.clf.ContactlessFrontend` the tag classes use (`exchange`, `sense`,
`max_send_data_size`, `max_recv_data_size`), so real tag objects are created
with `nfc.tag.activate(clf, sim.target())`.

Every simulator
  * logs every command            -> sim.log     [(index, name, cmd, rsp)]
  * logs every memory write       -> sim.writes  [WriteRec(cmd, start, end, old, new, data)]
                                     (start/end are byte addresses in sim.mem,
                                     for Type 4 offsets in the file `rec.area`)
  * records irreversible or illegal accesses -> sim.damage [str]
    (one-way lock/OTP bits set, write to read-only or non existing memory)
  * supports "tag leaves the field after the k-th state-changing command":
    sim.arm_cut(k) - counted from the moment of arming; once k further
    state-changing commands were executed every later command times out
  * supports per-command fault injection: sim.hook(sim, phase, ctx) is
    consulted before ('before') and after ('after') each command and may
    return
        None                       no interference
        TIMEOUT / TRANSMISSION / PROTOCOL
                                   exchange() raises the nfc.clf exception;
                                   in phase 'before' the command is not
                                   executed, in phase 'after' it was executed
                                   and the response is lost / garbled
        bytes / bytearray          this is the answer the reader gets (hostile
                                   or malformed answer); in phase 'before' the
                                   command is not executed
    ctx: index (1..), cmd (bytes), name (decoded command name), changed
    (memory was written), rsp (the genuine response, phase 'after'; None = the
    tag stays mute), info (simulator specific dict, e.g. the APDU for T4).

nfc modules are imported lazily, after mc.shims.import_nfc().
"""
import collections

from mc import sched

TIMEOUT = 'timeout'
TRANSMISSION = 'transmission'
PROTOCOL = 'protocol'
FAULTS = (TIMEOUT, TRANSMISSION, PROTOCOL)

WriteRec = collections.namedtuple('WriteRec', 'cmd start end old new data area')


class SimFault(Exception):
    def __init__(self, kind):
        Exception.__init__(self, kind)
        self.kind = kind


class Ctx(object):
    __slots__ = ('index', 'cmd', 'name', 'changed', 'rsp', 'info')

    def __init__(self, index, cmd):
        self.index = index
        self.cmd = cmd
        self.name = '?'
        self.changed = False
        self.rsp = None
        self.info = {}

    def __repr__(self):
        return 'Ctx(%d %s %s)' % (self.index, self.name, self.cmd.hex())


class TagSim(object):
    """Base class: bookkeeping, cut, hooks.  Subclasses implement
    `execute(cmd, ctx) -> response bytes or None (mute)`, `target()`,
    `power_cycle()` and `snapshot()/restore()` come from here."""
    KIND = '?'

    def __init__(self):
        self.mem = bytearray()
        self.log = []
        self.writes = []
        self.damage = []
        self.n_cmds = 0
        self.n_state = 0          # state-changing commands executed so far
        self.cut_at = None
        self.gone = False
        self.hook = None
        self.keep_log = True

    # -- field presence ----------------------------------------------------
    def arm_cut(self, k):
        """The tag leaves the field after k more state-changing commands."""
        self.cut_at = self.n_state + k

    def leave_field(self):
        self.gone = True

    def enter_field(self):
        """Tag is brought back into a field: volatile state is reset."""
        self.gone = False
        self.cut_at = None
        self.power_cycle()

    def power_cycle(self):
        pass

    # -- to be provided by subclasses -------------------------------------------
    def execute(self, cmd, ctx):
        raise NotImplementedError

    def target(self):
        raise NotImplementedError

    def sense(self, targets):
        """Re-activation by the reader (clf.sense)."""
        if self.cut_at is not None and self.n_state >= self.cut_at:
            self.gone = True
        if self.gone:
            return None
        self.power_cycle()
        return self.target()

    # -- command entry (called by FakeClf.exchange) --------------------------
    def command(self, cmd):
        cmd = bytes(cmd)
        self.n_cmds += 1
        ctx = Ctx(self.n_cmds, cmd)
        if self.cut_at is not None and self.n_state >= self.cut_at:
            self.gone = True
        if self.gone:
            self._log(ctx, 'gone')
            raise SimFault(TIMEOUT)
        hook = self.hook
        if hook is not None:
            ctx.name = self.name_of(cmd)
            act = hook(self, 'before', ctx)
            if act is not None:
                return self._act(act, ctx)
        rsp = self.execute(cmd, ctx)
        if ctx.changed:
            self.n_state += 1
        ctx.rsp = rsp
        if hook is not None:
            act = hook(self, 'after', ctx)
            if act is not None:
                return self._act(act, ctx)
        self._log(ctx, rsp)
        if rsp is None:
            raise SimFault(TIMEOUT)
        return rsp

    def name_of(self, cmd):
        return '?'

    def _act(self, act, ctx):
        if act in FAULTS:
            self._log(ctx, 'fault:' + act)
            raise SimFault(act)
        act = bytes(act)
        self._log(ctx, act)
        return act

    def _log(self, ctx, rsp):
        if self.keep_log:
            self.log.append((ctx.index, ctx.name, ctx.cmd, rsp))

    # -- memory helpers -------------------------------------------------------
    def record_write(self, ctx, start, old, new, data, area='mem'):
        self.writes.append(WriteRec(ctx.index, start, start + len(data),
                                    bytes(old), bytes(new), bytes(data), area))

    def image(self):
        """Persistent state as bytes-like objects (for before/after diffs)."""
        return {'mem': bytes(self.mem)}

    def commands_since(self, mark):
        return self.n_cmds - mark


class FakeClf(object):
    """The part of ContactlessFrontend that nfc.tag.* uses."""

    def __init__(self, sim, max_send=256, max_recv=256):
        self.sim = sim
        self.max_send = max_send
        self.max_recv = max_recv
        self.exchanges = 0
        self.senses = 0

    def exchange(self, send_data, timeout):
        import nfc.clf
        self.exchanges += 1
        try:
            rsp = self.sim.command(send_data)
        except SimFault as f:
            if f.kind == TIMEOUT:
                sched.vsleep(timeout or 0)
                raise nfc.clf.TimeoutError("simulated: no response")
            if f.kind == TRANSMISSION:
                raise nfc.clf.TransmissionError("simulated: crc/parity")
            raise nfc.clf.ProtocolError("simulated: protocol")
        return bytearray(rsp)

    def sense(self, *targets, **options):
        self.senses += 1
        return self.sim.sense(targets)

    @property
    def max_send_data_size(self):
        return self.max_send

    @property
    def max_recv_data_size(self):
        return self.max_recv

    def __str__(self):
        return "FakeClf(%s)" % self.sim.KIND


def activate(sim, **clf_args):
    """A fresh activation: volatile tag state reset, new fake clf, new tag
    object from nfc.tag.activate().  Returns (clf, tag); tag is None if the
    library could not activate the tag."""
    import nfc.tag
    sim.power_cycle()
    clf = FakeClf(sim, **clf_args)
    target = None if sim.gone else sim.target()
    if target is None:
        return clf, None
    return clf, nfc.tag.activate(clf, target)
