"""Reference ISO/IEC 14443-4 PICC (the card side of ISO-DEP) and a fake `clf`.

This is the trusted counterpart of `nfc.tag.tt4.IsoDepInitiator`.  It is
written from the protocol rules of ISO/IEC 14443-4 (section 7.5, "Protocol
operation"), not from the library.  Rules as implemented (numbers as in the
standard):

  C   the PICC block number is 1 after activation
  D   an I-block is received (whatever its block number) -> toggle the PICC
      block number before sending a block
  E   R(ACK) with a block number != the PICC's -> toggle before sending
      (only reached while the PICC is chaining, rule 13); R(NAK) never toggles
  2   I-block with chaining            -> answer R(ACK)
  3   S-blocks come in pairs: after an S(WTX) request only the S(WTX) response
      (or the PCD's error recovery, rule 11) is acceptable
  9   S(WTX) request instead of an I-block or an R(ACK)   (environment choice)
  10  I-block without chaining         -> execute the APDU, answer I-block(s)
  11  R(ACK)/R(NAK) with block number == PICC's -> retransmit the last block
      (the last block may be an I-block, an R(ACK) or an S(WTX) request)
  12  R(NAK) with block number != PICC's        -> R(ACK)
  13  R(ACK) with block number != PICC's while the PICC is chaining
                                                   -> next I-block of the chain
  7.5.6.2  the PICC attempts no error recovery: on anything it cannot accept
      (bad PCB coding, CID/NAD although not supported, R-block with INF,
      R(ACK) with other number while not chaining, unexpected S-block) it stays
      mute and keeps its state; it never sends R(NAK).

Modelling decisions that the standard leaves open (kept lenient towards the
PCD, so that the PCD is never blamed for the model's strictness):

  * An I-block is always accepted as (the continuation of) a command, also
    when the PICC was in the middle of sending a chained response or waiting
    for an S(WTX) response: the unfinished response is dropped.  Common card
    operating systems behave like this.
  * Bytes of an unfinished command chain are kept until the chain ends (a card
    has no way to know that the PCD gave up).
  * A frame longer than FSC is still processed, but flagged (`oversize`), so
    that the driver reports the frame size and not a follow-up symptom.
  * No CID, no NAD (ATS TC(1)=00, SENSB_RES FO=00), power level indication 00.

The PICC answers synchronously: `Picc.command(frame) -> frame | None` (None:
mute).  Frames are PCB + INF, without the two EDC bytes (the `clf.exchange`
contract of nfcpy: CRC is added and checked by the contactless chip).

`Clf` is a stand-in for `nfc.clf.ContactlessFrontend` with exactly the three
members the Type 4 Tag code uses (`exchange`, `max_send_data_size`,
`max_recv_data_size`).  For every block that crosses the air after activation
it asks an `mc.sched.Chooser` for the fate {0 deliver, 1 lose, 2 corrupt}.

Typical use (see props/c12.py):

    app  = CounterApp(rsp_len=40, sw=b'\\x90\\x00')
    card = Picc(app, kind='A', fsci=2, fwi=4, chooser=ch, wtx=True)
    clf  = Clf(card, ch)
    tag  = nfc.tag.activate(clf, card.remote_target())   # real RATS / ATTRIB
    tag.send_apdu(...)
"""
from mc import sched

FRAME_SIZE = (16, 24, 32, 40, 48, 64, 96, 128, 256)

DELIVER, LOSE, CORRUPT = 0, 1, 2
FATES = ('deliver', 'lose', 'corrupt')


def frame_size(code):
    """FSCI/FSDI -> frame size in bytes (values 9..15 are RFU -> 256)."""
    return FRAME_SIZE[code] if code < len(FRAME_SIZE) else 256


def block_name(frame):
    """Short human readable name of an ISO-DEP block (for labels/traces)."""
    if len(frame) == 0:
        return 'empty'
    pcb = frame[0]
    if pcb & 0xE2 == 0x02:
        return 'I(%d)%s[%d]' % (pcb & 1, '+' if pcb & 0x10 else '',
                                len(frame) - 1)
    if pcb & 0xE6 == 0xA2:
        return 'R(%s)%d' % ('NAK' if pcb & 0x10 else 'ACK', pcb & 1)
    if pcb & 0xC7 == 0xC2:
        kind = pcb & 0x30
        if kind == 0x30:
            return 'S(WTX)[%s]' % bytes(frame[1:]).hex()
        if kind == 0x00:
            return 'S(DESELECT)'
    return 'X(%s)' % bytes(frame[:4]).hex()


def block_kind(frame):
    """'I', 'R', 'S' or '?'."""
    return block_name(frame)[0] if len(frame) else '?'


# -----------------------------------------------------------------------------
class CounterApp(object):
    """APDU executor: a non-idempotent command "increment the counter, return
    it together with an echo of the command".  Every execution is logged, so a
    driver can tell how often (and with which bytes) the card executed.

    rsp_len  total response length (int, or callable(cmd, count) -> int)
    sw       status word appended as the last two bytes (None: raw response
             of rsp_len bytes; with sw the body has rsp_len - 2 bytes)
    """

    def __init__(self, rsp_len=8, sw=b'\x90\x00'):
        self.rsp_len = rsp_len
        self.sw = bytes(sw) if sw else b''
        self.count = 0
        self.log = []            # [(command bytes, response bytes)]

    def response_for(self, cmd, count):
        n = self.rsp_len(cmd, count) if callable(self.rsp_len) \
            else self.rsp_len
        n = max(n - len(self.sw), 0)
        h = (sum(cmd) + 31 * len(cmd)) & 0xFF        # echo: digest of cmd
        body = bytearray(n)
        for i in range(n):
            body[i] = (h + 11 * count + 7 * i) & 0xFF
        if n > 0:
            body[0] = count & 0xFF
        if n > 1:
            body[1] = h
        if n > 2:
            body[-1] = (0xA5 ^ count) & 0xFF             # marks the real end
        return bytes(body) + self.sw

    def __call__(self, cmd):
        cmd = bytes(cmd)
        self.count += 1
        rsp = self.response_for(cmd, self.count)
        self.log.append((cmd, rsp))
        return rsp


# -----------------------------------------------------------------------------
class Picc(object):
    """ISO/IEC 14443-4 PICC, Type A (RATS/ATS) or Type B (ATTRIB).

    app      callable(command bytes) -> response bytes  (e.g. CounterApp)
    kind     'A' | 'B'
    fsci     0..8   frame size the card accepts (announced in ATS / SENSB_RES)
    fwi      0..14  frame waiting time integer (announced likewise)
    tx_inf   INF bytes per I-block the card sends (default FSC-3; always
             clipped to FSD-3 of the PCD)
    chooser  mc.sched.Chooser; with wtx=True the card asks
             chooser.env(2, 'wtx:..') each time it is about to send a *new*
             I-block or R(ACK) (not a retransmission) whether to send an
             S(WTX) request first (rule 9); choice 0 = no.
    wtx_inf  INF of the S(WTX) request (default one byte WTXM=wtxm; a driver
             may set b'' to model a card that violates the format)
    """

    def __init__(self, app, kind='A', fsci=8, fwi=4, tx_inf=None,
                 chooser=None, wtx=False, wtxm=1, uid=None, sfgi=0):
        assert kind in ('A', 'B') and 0 <= fsci <= 8 and 0 <= fwi <= 14
        self.app = app
        self.kind = kind
        self.fsci, self.fwi, self.sfgi = fsci, fwi, sfgi
        self.fsc = frame_size(fsci)
        self.tx_inf_cfg = tx_inf if tx_inf is not None else self.fsc - 3
        self.chooser = chooser
        self.wtx = wtx
        self.wtx_inf = bytes([wtxm & 0x3F])
        self.uid = bytes(uid) if uid else (
            b'\x04\x5a\x61\x68\x6f\x76\x7d' if kind == 'A'
            else b'\x5a\x61\x68\x6f')
        self.reset()

    # -- life cycle -------------------------------------------------------------
    def reset(self):
        """Field reset: back to the state before RATS / ATTRIB."""
        self.active = False
        self.deselected = False
        self.fsd = None
        self.tx_inf = None
        self.bn = 1              # rule C
        self.last = None         # last block sent (rule 11)
        self.rx = bytearray()    # INF of the command chain received so far
        self.txq = []            # INF chunks of the response not yet sent
        self.pending = None      # block held back behind an S(WTX) request
        self.n_wtx = 0           # S(WTX) requests issued (not retransmissions)
        self.wtx_at = []         # where: 'rsp0' 'rspchain' 'cmdchain'
        self.n_retransmit = 0    # rule 11 applied
        self.n_rule12 = 0        # rule 12 applied
        self.oversize = []       # frames longer than FSC: (len+2, fsc)
        self.protocol_errors = []  # frames the card ignored (names)

    # -- what a reader learns before the block protocol starts -------------------
    def target_args(self):
        """(brty, kwargs) for nfc.clf.RemoteTarget as `sense` would return."""
        if self.kind == 'A':
            return '106A', dict(sens_res=bytearray(b'\x44\x03'),
                                sel_res=bytearray(b'\x20'),
                                sdd_res=bytearray(self.uid))
        sensb = bytearray(b'\x50') + self.uid[:4] + b'\x00\x00\x00\x00' + \
            bytes([0x00, (self.fsci << 4) | 0x01, (self.fwi << 4) | 0x00])
        return '106B', dict(sensb_res=sensb)

    def remote_target(self):
        import nfc.clf
        brty, kw = self.target_args()
        return nfc.clf.RemoteTarget(brty, **kw)

    # -- frame entry point ---------------------------------------------------------
    def command(self, frame):
        """One error-free frame from the PCD (PCB+INF, no EDC).  Returns the
        answer frame, or None if the card stays mute."""
        frame = bytes(frame)
        if self.deselected:
            return None
        if not self.active:
            return self._activation(frame)
        if len(frame) + 2 > self.fsc:
            self.oversize.append((len(frame) + 2, self.fsc))
        rsp = self._block(frame)
        if rsp is None:
            self.protocol_errors.append(block_name(frame))
        return rsp

    # -- activation ------------------------------------------------------------------
    def _activation(self, frame):
        if self.kind == 'A':
            if len(frame) != 2 or frame[0] != 0xE0:
                return None                       # not RATS
            fsdi = frame[1] >> 4
            self._activated(frame_size(fsdi))
            # TL, T0 (TA,TB,TC follow | FSCI), TA (106 only), TB (FWI|SFGI),
            # TC (no NAD, no CID)
            # `ats_form` selects which interface bytes are present (every
            # subset is standard conformant); without TB(1) the default FWI
            # 4 applies, so such a card must be built with fwi=4
            form = getattr(self, 'ats_form', 'abc')
            t0 = self.fsci | (0x10 if 'a' in form else 0) \
                | (0x20 if 'b' in form else 0) | (0x40 if 'c' in form else 0)
            body = bytes([t0])
            if 'a' in form:
                body += bytes([getattr(self, 'ats_ta', 0x00)])
            if 'b' in form:
                body += bytes([(self.fwi << 4) | self.sfgi])
            else:
                assert self.fwi == 4, "no TB(1): FWI is the default 4"
            if 'c' in form:
                body += b'\x00'
            body += getattr(self, 'ats_hist', b'')
            return bytes([len(body) + 1]) + body
        if len(frame) < 9 or frame[0] != 0x1D or frame[1:5] != self.uid[:4]:
            return None                           # not ATTRIB for this card
        if frame[7] & 0x0F != 0x01:               # protocol type 14443-4
            return None
        self._activated(frame_size(frame[6] & 0x0F))
        return bytes([0x00])                      # MBLI 0, CID 0

    def _activated(self, fsd):
        self.active = True
        self.fsd = fsd
        self.tx_inf = max(1, min(self.tx_inf_cfg, fsd - 3))
        self.bn = 1

    # -- block protocol ---------------------------------------------------------------
    def _block(self, f):
        if len(f) == 0:
            return None
        pcb = f[0]
        if pcb & 0xE2 == 0x02:                       # I-block
            if pcb & 0x0C:                           # CID / NAD not supported
                return None
            return self._i_block(bool(pcb & 0x10), f[1:])
        if pcb & 0xE6 == 0xA2:                       # R-block
            if pcb & 0x08 or len(f) != 1:
                return None
            return self._r_block(bool(pcb & 0x10), pcb & 1)
        if pcb & 0xC7 == 0xC2 and not pcb & 0x08:    # S-block without CID
            if pcb & 0x30 == 0x30:
                return self._wtx_response(f[1:])
            if pcb & 0x30 == 0x00 and len(f) == 1:
                self.deselected = True
                self.active = False
                return bytes([0xC2])
        return None

    def _i_block(self, chaining, inf):
        self.bn ^= 1                                 # rule D
        self.txq = []                                # see module docstring
        self.pending = None
        self.rx += inf
        if chaining:                                 # rule 2
            return self._send(bytes([0xA2 | self.bn]), 'cmdchain')
        cmd = bytes(self.rx)
        self.rx = bytearray()
        rsp = bytes(self.app(cmd))                   # rule 10: executed here
        n = self.tx_inf
        self.txq = [rsp[i:i + n] for i in range(0, len(rsp), n)] or [b'']
        return self._send(self._next_i(), 'rsp0')

    def _r_block(self, nak, bn):
        if bn == self.bn:                            # rule 11
            if self.last is None:
                return None
            self.n_retransmit += 1
            return self.last
        if self.pending is not None:                 # rule 3
            return None
        if nak:                                      # rule 12
            self.n_rule12 += 1
            self.last = bytes([0xA2 | self.bn])
            return self.last
        if self.txq:                                 # rule 13
            self.bn ^= 1                             # rule E
            return self._send(self._next_i(), 'rspchain')
        return None

    def _wtx_response(self, inf):
        # b8-b7 of the response INF must be 00, WTXM must be the requested one
        if self.pending is None or bytes(inf) != self.wtx_inf[:1] or \
                len(self.wtx_inf) != 1:
            return None
        block, self.pending = self.pending, None
        self.last = block
        return block

    def _next_i(self):
        inf = self.txq.pop(0)
        return bytes([0x02 | (0x10 if self.txq else 0) | self.bn]) + inf

    def _send(self, block, where):
        """Send a new block, or (environment choice, rule 9) an S(WTX) request
        first."""
        if self.wtx and self.chooser is not None and \
                self.chooser.env(2, 'wtx:' + where) == 1:
            self.pending = block
            self.n_wtx += 1
            self.wtx_at.append(where)
            block = bytes([0xF2]) + self.wtx_inf
        self.last = block
        return block


# -----------------------------------------------------------------------------
class Clf(object):
    """The part of nfc.clf.ContactlessFrontend a Type 4 Tag uses, in front of
    a `Picc`.  After activation every block gets an environment fate:

      PCD->PICC  lose / corrupt : the card never sees it (a corrupted frame
                                  fails the card's EDC check: it stays mute)
                                  -> nfc.clf.TimeoutError after `timeout`
      PICC->PCD  lose           : nfc.clf.TimeoutError after `timeout`
                 corrupt        : nfc.clf.TransmissionError (what a chipset
                                  reports for a CRC / framing error)
      card mute                 : nfc.clf.TimeoutError

    Activation frames (RATS, ATTRIB) are always delivered.  Time is the
    virtual clock of mc.sched (a timeout advances it by `timeout`).
    `fates=False` switches the choice points off (fault-free air).
    """

    def __init__(self, picc, chooser=None, max_send=290, max_recv=290,
                 fates=True):
        self.picc = picc
        self.chooser = chooser
        self.max_send_data_size = max_send
        self.max_recv_data_size = max_recv
        self.fates = fates and chooser is not None
        self.log = []            # (direction, frame bytes, fate, timeout)
        self.n_faults = 0
        self.fault_kinds = []    # block kind ('I','R','S') hit by each fault
        self.n_exchange = 0
        self.max_pcd_frame = 0   # longest PCD->PICC block incl. 2 EDC bytes
        self.last_sent = None

    def _fate(self, direction, frame):
        if not self.fates:
            return DELIVER
        f = self.chooser.env(3, direction + block_name(frame))
        if f:
            self.n_faults += 1
            self.fault_kinds.append(block_kind(frame))
        return f

    def _timeout(self, timeout):
        import nfc.clf
        if timeout:
            sched.vsleep(timeout)
        raise nfc.clf.TimeoutError("no response")

    def exchange(self, data, timeout):
        import nfc.clf
        data = bytes(data)
        picc = self.picc
        if not picc.active:                        # RATS / ATTRIB: no faults
            rsp = picc.command(data)
            self.log.append(('>', data, 'activation', timeout))
            if rsp is None:
                self._timeout(timeout)
            self.log.append(('<', rsp, 'activation', None))
            return bytearray(rsp)
        self.n_exchange += 1
        self.last_sent = data
        self.max_pcd_frame = max(self.max_pcd_frame, len(data) + 2)
        fate = self._fate('pcd>', data)
        self.log.append(('>', data, FATES[fate], timeout))
        if fate != DELIVER:
            self._timeout(timeout)
        rsp = picc.command(data)
        if rsp is None:
            self.log.append(('<', b'', 'mute', None))
            self._timeout(timeout)
        fate = self._fate('picc>', rsp)
        self.log.append(('<', rsp, FATES[fate], None))
        if fate == LOSE:
            self._timeout(timeout)
        if fate == CORRUPT:
            raise nfc.clf.TransmissionError("crc error")
        return bytearray(rsp)

    def trace(self):
        """The air log as printable lines."""
        out = []
        for d, f, fate, tmo in self.log:
            out.append('%s %-14s %-10s %s' % (
                d, block_name(f) if fate != 'activation' else 'activation',
                fate, bytes(f[:12]).hex() + ('..' if len(f) > 12 else '')))
        return out
