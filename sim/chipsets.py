"""Host-protocol responders for the contactless chipsets nfcpy drives, behind
fake transports, so that the *real* drivers (their real `init()` /
`Device(Chipset(transport))` constructors, their real sense_*/listen_* and
exchange code) run against something that has state.

    sim = Sim('pn533', chooser=ch, tag=Tag('T2'))     # or initiator=Initiator('tt2')
    clf = sim.clf()                 # ContactlessFrontend with the real driver
    clf.sense(RemoteTarget('106A')) # real driver code, benign chip answers
    sim.arm()                       # from now on every host command is an
    clf.exchange(b'\\x30\\x04', .1)   # env choice point: 0 normal, k-th deviation
    sim.chip.devlog                 # [(index, command name, deviation), ...]

Drivers: pn531 pn533 rcs956 rcs380 acr122 (fake USB transport), pn532 (real
nfc.clf.transport.TTY read/write over a fake serial.Serial), arygonA/arygonB
(same, "2" prefix and the ASCII start-up dialogue).

Every host command the driver writes is parsed with the independent
validators of ref/hostframe.py (an ill-formed command frame is recorded in
`chip.bad_frames` and not answered), answered with ACK + a benign response,
and - while the simulator is armed - is one `chooser.env(n, label)` choice
point (mc.sched.Chooser): choice 0 is the normal answer, choice k applies
`alternatives[k-1]`, the deviations of DESIGN C13:

  ('status', s)       status byte s instead of 00 (commands that have one)
  ('statusonly', s)   commands without flag bits: status octet 40/80/C0 alone
  ('nostatus',)       syntactically valid response without any payload
  ('errframe',)       PN53x application error frame / RC-S380 error frame
  ('comm', v)         RC-S380 32-bit communication status v (In/TgCommRF)
  ('werr', E)         transport.write raises IOError(E)
  ('rerr_ack', E)     the read that should return the ACK raises IOError(E)
  ('rerr_rsp', E)     the read that should return the response raises
  ('noack',)          response without preceding ACK
  ('trunc', k)        response frame cut to its first k bytes (1 <= k < len)
  ('wrongcode',)      valid frame with another response code
  ('wrongtfi',)       valid frame with another frame identifier
  ('garble', part)    one byte of sof / lcs / dcs / postamble / payload wrong
  ('short', n)        RC-S380: valid frame whose payload has only n bytes
  ('sw', v) ('ccidtype',) ('ccidlen',)     ACR122 envelope faults

`alphabet=REDUCED` keeps a few representatives of every class (used for the
two-deviation pass).  `transport.io_hook(op, transport)`, if set, is called at
the start of every transport read/write (scheduling point / overlap detector
for the thread checks).  `chip.cmdlog` lists every host command (name, code,
payload), `chip.written` every raw frame, `tag.rf_log` / `initiator.received`
what went over the simulated air.

Time is virtual: a read with nothing queued advances the clock by its
timeout and raises IOError(ETIMEDOUT) like the real transports do; a read
without timeout and nothing queued raises `WouldBlockForever`.

Nothing here imports `nfc` at module level (mc.shims.import_nfc() first).
"""
import collections
import errno
import os
import struct

from mc import sched
from ref import crc as refcrc
from ref import hostframe as hf

ACK = hf.ACK
NACK = hf.NACK
ERRNOS = ('ETIMEDOUT', 'EIO', 'ENODEV')
DRIVERS = ('pn531', 'pn532', 'pn533', 'rcs956', 'rcs380', 'acr122',
           'arygonA', 'arygonB')


class WouldBlockForever(BaseException):
    """The driver called read() without timeout and the chip has nothing to
    say: on real hardware this never returns."""


def ioerror(name):
    code = getattr(errno, name)
    return IOError(code, os.strerror(code))


def hx(s):
    return bytes.fromhex(s)


# ----------------------------------------------------------------------------
# What is in the RF field
# ----------------------------------------------------------------------------
class Tag(object):
    """A remote target for the initiator-mode paths.  kind: T1 T2 T4A T4B T3
    DEPA (active mode NFC-DEP target) DEP106 (passive, SEL_RES 40).
    `answer(cmd)` returns the RF response without CRC (None: stays mute)."""

    def __init__(self, kind, response=None, answer=None):
        self.kind = kind
        self.sens_res = {'T1': hx('000C')}.get(kind, hx('4400'))
        self.sel_res = {'T2': hx('00'), 'T4A': hx('20'),
                        'DEP106': hx('40')}.get(kind)
        self.uid = hx('04A1B2C3') if kind != 'T1' else hx('B2565400')
        self.rid_res = hx('1148B2565400')
        self.sensb_res = hx('50E8253EEC00000011008185')
        self.idm, self.pmm, self.sc = hx('0102030405060708'), \
            hx('F1F2F3F4F5F6F7F8'), hx('12FC')
        self.atr_res = hx('D50166F6E98D1C13DFE56DE4000000070246666D010112')
        self.response = response
        self._answer = answer
        self.with_crc = False      # True: answers already end with their CRC
        self.air_log = []          # complete frames seen on the air (CIU path)
        self.rf_log = []

    def default_response(self):
        k = self.kind
        if k == 'T1':
            return hx('04') + bytes(range(1, 9))            # READ8-ish / READ
        if k == 'T2':
            return bytes(range(0x10, 0x20))                  # READ: 16 bytes
        if k == 'T3':
            return hx('1D07') + self.idm + hx('0000 01') + bytes(16)
        if k in ('DEPA', 'DEP106'):
            return hx('06D5070001 02')
        return hx('02 9000')                                 # I-block

    def answer(self, cmd):
        cmd = bytes(cmd)
        self.rf_log.append(cmd)
        if self.kind == 'T1' and cmd[:1] == b'\x78':
            return self.rid_res
        if self._answer is not None:
            return self._answer(cmd)
        if self.response is not None:
            return self.response
        return self.default_response()


class Initiator(object):
    """The remote initiator for the listen-mode paths.  kind: tt2 tt4 dep106
    dep212 dep424 tt3.  `frames` is what it sends, in order; when exhausted
    the last one is repeated (it keeps polling)."""

    def __init__(self, kind, frames=None, brty=None):
        self.kind = kind
        self.idm = hx('02FE010203040506')
        self.pmm = hx('FFFFFFFFFFFFFFFF')
        self.sc = hx('12FC')
        self.atr_req = hx('D400 30313233343536373839 00000002 AABB')
        self.brty = brty or {'tt3': '212F', 'dep212': '212F',
                             'dep424': '424F'}.get(kind, '106A')
        if frames is None:
            frames = self.default_frames()
        self.frames = [bytes(f) for f in frames]
        self.i = 0
        self.polled = False                # SENSF_REQ already sent (rcs380)
        self.received = []                 # what the local target sent

    def default_frames(self):
        k = self.kind
        if k == 'tt2':
            return [hx('3000'), hx('3004'), hx('3008')]
        if k == 'tt4':
            return [hx('E080'), hx('0200A4040007D276000085010100'),
                    hx('0300B0000002')]
        if k == 'tt3':
            return [hx('0A04') + self.idm,
                    hx('1006') + self.idm + hx('010B00018000'),
                    hx('1006') + self.idm + hx('010B00018001')]
        if k.startswith('dep'):
            atr = bytes([len(self.atr_req) + 1]) + self.atr_req
            dep = hx('06D406000000')
            dep2 = hx('06D406010000')
            if k == 'dep106':          # on-air format: SB F0 at 106 kbps
                return [b'\xF0' + atr, b'\xF0' + dep, b'\xF0' + dep2]
            return [atr, dep, dep2]
        raise ValueError(k)

    def next(self):
        f = self.frames[min(self.i, len(self.frames) - 1)]
        self.i += 1
        return f


# ----------------------------------------------------------------------------
# Plans: what one host command is answered with
# ----------------------------------------------------------------------------
class Plan(object):
    __slots__ = ('write_exc', 'items')

    def __init__(self, items=(), write_exc=None):
        self.items = list(items)      # bytes | Exception (raised by read)
        self.write_exc = write_exc


FULL, REDUCED = 'full', 'reduced'
REDUCED_STATUS = (0x01, 0x02, 0x0A, 0x13, 0x29, 0x31, 0x40, 0x41, 0x7F, 0x80,
                  0xC0, 0xFF)


class ChipBase(object):
    """Choice bookkeeping shared by the responders."""
    name = '?'

    def __init__(self, chooser=None, alphabet=FULL):
        self.chooser = chooser
        self.alphabet = alphabet
        self.armed = False
        self.cmdlog = []        # (name, code, payload) of every host command
        self.devlog = []        # (index in armed sequence, name, deviation)
        self.armed_cmds = []    # names of the commands seen while armed
        self.bad_frames = []    # ill-formed command frames (C14's business)
        self.written = []       # every raw frame the driver wrote

    def choose(self, cmdname, alts):
        """alts: list of deviations.  Returns None (normal) or one of them."""
        if not self.armed:
            return None
        idx = len(self.armed_cmds)
        self.armed_cmds.append(cmdname)
        if self.chooser is None or not alts:
            return None
        c = self.chooser.env(1 + len(alts), '%s:%s' % (self.name, cmdname))
        if c == 0:
            return None
        dev = alts[c - 1]
        self.devlog.append((idx, cmdname, dev))
        return dev


def _host_faults(alphabet, ack=True):
    out = []
    if alphabet == FULL:
        for e in ERRNOS:
            out.append(('werr', e))
        if ack:
            for e in ERRNOS:
                out.append(('rerr_ack', e))
        for e in ERRNOS:
            out.append(('rerr_rsp', e))
    else:
        out += [('werr', e) for e in ERRNOS]
        out += [('rerr_rsp', e) for e in ERRNOS]
        if ack:
            out += [('rerr_ack', 'ETIMEDOUT'), ('rerr_ack', 'EIO')]
    return out


def _trunc_points(n, alphabet):
    if alphabet == FULL:
        return list(range(1, n))
    return sorted(set(k for k in (1, 3, 5, 6, n - 1) if 1 <= k < n))


# ----------------------------------------------------------------------------
# PN531 / PN532 / PN533 / RC-S956 command interpreter
# ----------------------------------------------------------------------------
R = dict(Command=0x6331, CommIEn=0x6332, CommIRq=0x6334, DivIRq=0x6335,
         Status1=0x6337, Status2=0x6338, FIFOData=0x6339, FIFOLevel=0x633A,
         Control=0x633C, BitFraming=0x633D, Mode=0x6301, TxMode=0x6302,
         RxMode=0x6303, TxControl=0x6304, TxAuto=0x6305, ManualRCV=0x630D)

PN53X_NAMES = {
    0x00: 'Diagnose', 0x02: 'GetFirmwareVersion', 0x04: 'GetGeneralStatus',
    0x06: 'ReadRegister', 0x08: 'WriteRegister', 0x0C: 'ReadGPIO',
    0x0E: 'WriteGPIO', 0x10: 'SetSerialBaudrate', 0x12: 'SetParameters',
    0x14: 'SAMConfiguration', 0x16: 'PowerDown', 0x18: 'ResetMode',
    0x32: 'RFConfiguration', 0x56: 'InJumpForDEP', 0x46: 'InJumpForPSL',
    0x4A: 'InListPassiveTarget', 0x50: 'InATR', 0x4E: 'InPSL',
    0x40: 'InDataExchange', 0x42: 'InCommunicateThru', 0x44: 'InDeselect',
    0x52: 'InRelease', 0x54: 'InSelect', 0x8C: 'TgInitAsTarget',
    0x92: 'TgSetGeneralBytes', 0x86: 'TgGetData', 0x8E: 'TgSetData',
    0x94: 'TgSetMetaData', 0x88: 'TgGetInitiatorCommand',
    0x90: 'TgResponseToInitiator', 0x8A: 'TgGetTargetStatus',
}
# commands whose response starts with a status byte, for every variant
PN53X_STATUS = {0x40, 0x42, 0x46, 0x56, 0x50, 0x4E, 0x44, 0x52, 0x54, 0x86,
                0x8E, 0x88, 0x90, 0x92, 0x94, 0x16}
PN53X_RF = {0x40, 0x42, 0x86, 0x8E, 0x88, 0x90}


class PN53xCore(object):
    """The firmware: (code, payload) -> response payload (bytes after the
    response code).  variant: pn531 pn532 pn533 rcs956."""

    def __init__(self, variant, tag=None, initiator=None):
        self.variant = variant
        self.tag = tag
        self.initiator = initiator
        self.regs = {R['RxMode']: 0x80, R['TxMode']: 0x80, R['TxAuto']: 0x00,
                     R['TxControl']: 0x80, R['Mode']: 0x3F}
        self.fifo = bytearray()
        self.ciu_tx = bytearray()
        self.commirq = 0
        self.divirq = 0
        self.listed = None        # brty of the target listed last
        self.rf_sent = []         # what went out on RF in target mode

    # -- registers -------------------------------------------------------
    def reg_read(self, addr):
        if addr == R['FIFOLevel']:
            self._ciu_receive()
            return len(self.fifo) & 0x7F
        if addr == R['FIFOData']:
            return self.fifo.pop(0) if self.fifo else 0x00
        if addr == R['CommIRq']:
            return self.commirq
        if addr == R['DivIRq']:
            return self.divirq
        return self.regs.get(addr, 0x00)

    def reg_write(self, addr, val, ctx):
        if addr == R['FIFOLevel']:
            if val & 0x80:
                self.fifo = bytearray()
                self.ciu_tx = bytearray()
                ctx['flushed'] = True
        elif addr == R['FIFOData']:
            self.fifo.append(val)
            self.ciu_tx.append(val)
        elif addr == R['CommIRq']:
            if val & 0x80:
                self.commirq |= val & 0x7F
            else:
                self.commirq &= ~val & 0x7F
        elif addr == R['DivIRq']:
            if val & 0x80:
                self.divirq |= val & 0x7F
            else:
                self.divirq &= ~val & 0x7F
        elif addr == R['Command']:
            c = val & 0x0F
            if c == 0x01:                      # Configure: consumes the FIFO
                self.fifo = bytearray()
                self.ciu_tx = bytearray()
            elif c == 0x0D:                    # AutoColl
                ctx['autocoll'] = True
            elif c == 0x04:                    # Transmit
                self.fifo = bytearray()
            self.regs[addr] = val
        elif addr == R['BitFraming']:
            if val & 0x80:                     # StartSend
                ctx['sent'] = bytes(self.fifo)
                self.fifo = bytearray()
            self.regs[addr] = val
        else:
            self.regs[addr] = val

    def _ciu_receive(self):
        """Type 1 Tag commands sent byte-wise through the CIU (pn532/pn533):
        the answer sits in the FIFO with a parity bit after every 8 bits."""
        if not self.ciu_tx or self.tag is None or self.tag.kind != 'T1':
            return
        tx, self.ciu_tx = bytes(self.ciu_tx), bytearray()
        self.tag.air_log.append(tx)
        if len(tx) < 3 or refcrc.append_b(tx[:-2]) != tx:
            self.fifo = bytearray()            # wrong CRC_B: the tag is silent
            return
        ans = self.tag.answer(tx[:-2])         # the driver appended CRC_B
        if ans is None:
            self.fifo = bytearray()
            return
        if not self.tag.with_crc:
            ans = refcrc.append_b(ans)
        self.fifo = bytearray(parity_stream(ans))

    def _after_write_regs(self, ctx):
        ini = self.initiator
        if ini is None or ini.kind != 'tt3':
            return
        if ctx.get('autocoll'):
            self.fifo = bytearray(ini.next())
            self.commirq |= 0x30
            self.tt3_active = True
        elif not getattr(self, 'tt3_active', False):
            return
        elif 'sent' in ctx:
            ini.received.append(ctx['sent'])
            self.fifo = bytearray(ini.next())
            self.commirq |= 0x20
        elif ctx.get('flushed'):
            self.fifo = bytearray(ini.next())
            self.commirq |= 0x20

    # -- commands ---------------------------------------------------------
    def handle(self, code, p):
        v = self.variant
        if code == 0x00:
            if p[:1] == b'\x00':
                return bytes(p[1:]) if v == 'rcs956' else bytes(p)
            return b'\x00'
        if code == 0x02:
            return {'pn531': hx('0403'), 'pn532': hx('32010607'),
                    'pn533': hx('33020707'), 'rcs956': hx('33013007')}[v]
        if code == 0x04:
            return hx('000000')
        if code == 0x06:
            vals = bytes(self.reg_read(p[i] << 8 | p[i + 1])
                         for i in range(0, len(p) - 1, 2))
            return (b'\x00' + vals) if v == 'pn533' else vals
        if code == 0x08:
            ctx = {}
            for i in range(0, len(p) - 2, 3):
                self.reg_write(p[i] << 8 | p[i + 1], p[i + 2], ctx)
            self._after_write_regs(ctx)
            return b'\x00' if v in ('pn533', 'rcs956') else b''
        if code == 0x16:
            return b'\x00'
        if code == 0x32:
            if p[:1] == b'\x01':
                on = 0x03 if p[1] & 1 else 0x00
                self.regs[R['TxControl']] = \
                    (self.regs[R['TxControl']] & 0xFC) | on
            return b''
        if code == 0x4A:
            # the firmware programs the CIU for the requested technology
            # before it polls (receive CRC check on, whatever a driver wrote
            # for an earlier target)
            self.regs[R['RxMode']] |= 0x80
            self.regs[R['TxMode']] |= 0x80
            return self._in_list_passive_target(p)
        if code == 0x40:
            ans = self.tag.answer(p[1:]) if self.tag else None
            return b'\x01' if ans is None else b'\x00' + ans
        if code == 0x42:
            return self._in_communicate_thru(p)
        if code in (0x46, 0x56):
            t = self.tag
            if t is not None and t.kind == 'DEPA':
                return b'\x00\x01' + t.atr_res[2:]
            return b'\x01'
        if code == 0x8C:
            ini = self.initiator
            if ini is None:
                return None                    # nobody there: no response
            mode = {'106A': 0x00, '212F': 0x10, '424F': 0x20}[ini.brty]
            if ini.kind.startswith('dep'):
                mode |= 0x04
            return bytes([mode]) + self._tg_frame(bool(p[0] & 0x02))
        if code in (0x90, 0x8E, 0x94, 0x92):
            if self.initiator is not None:
                self.initiator.received.append(bytes(p))
            return b'\x00'
        if code in (0x88, 0x86):
            if self.initiator is None:
                return None
            return b'\x00' + self._tg_frame(True)
        if code == 0x8A:
            return b'\x00\x00'
        return b''

    def _tg_frame(self, dep_mode):
        # the firmware removes the 106 kbps start byte of NFC-DEP frames
        ini = self.initiator
        f = ini.next()
        if dep_mode and ini.kind == 'dep106' and f[:1] == b'\xF0':
            f = f[1:]
        return f

    def _in_list_passive_target(self, p):
        brty = p[1]
        t = self.tag
        none = b'\x00'
        if t is None:
            return none
        k = t.kind
        self.listed = brty
        if brty == 0:
            if k not in ('T2', 'T4A', 'DEP106'):
                self.fifo = bytearray()        # FIFOData reads != 26h: a
                return none                    # SENS_RES was seen
            sens, uid = t.sens_res[::-1], t.uid
            if self.variant == 'pn531':
                # the PN531 reports SENS_RES in the other byte order and
                # NFCID1 with its cascade tag; the driver undoes both only
                # for cascaded identifiers, so the PN531 tag has a 7 byte one
                sens, uid = t.sens_res, b'\x88' + t.uid[:3] + hx('C3D4E5F6')
            return b'\x01\x01' + sens + t.sel_res + bytes([len(uid)]) + uid
        if brty == 4:
            if k != 'T1':
                return none
            return b'\x01\x01' + t.sens_res[::-1] + t.uid
        if brty in (3, 6, 7, 8):
            if k != 'T4B':
                return none
            return b'\x01\x01' + t.sensb_res + hx('0100')
        if brty in (1, 2):
            if k not in ('T3', 'DEP212'):
                return none
            body = b'\x01' + t.idm + t.pmm + t.sc
            return b'\x01\x01' + bytes([len(body) + 1]) + body
        return none

    def _in_communicate_thru(self, p):
        t = self.tag
        if t is None:
            return b'\x01'
        p = bytes(p)
        if t.kind == 'T4B' and p[:1] in (b'\xC2', b'\xCA'):
            return b'\x00' + p
        if t.kind == 'T4B' and p[:1] == b'\x05' and len(p) == 3:
            return b'\x00' + t.sensb_res
        ans = t.answer(p)
        if ans is None:
            return b'\x01'
        rxm = self.regs[R['RxMode']]
        if rxm & 0x03 == 0 and rxm & 0x80 == 0 and len(ans) > 1 \
                and not t.with_crc:
            ans = refcrc.append_a(ans)         # RxCRCEn off: CRC is passed up
        elif rxm & 0x03 == 0 and rxm & 0x80 and t.with_crc and len(ans) > 2:
            # RxCRCEn on: the CIU verifies and strips CRC_A itself
            if refcrc.append_a(ans[:-2]) != bytes(ans):
                return b'\x02'                 # CRC error detected by the CIU
            ans = ans[:-2]
        return b'\x00' + ans


def parity_stream(data):
    """FIFO content for `data` received with the parity check disabled: per
    byte 8 data bits LSB first plus an odd parity bit, packed LSB first."""
    bits = []
    for o in bytes(data):
        b = [(o >> i) & 1 for i in range(8)]
        bits += b + [1 - (sum(b) & 1)]
    while len(bits) % 8:
        bits.append(0)
    return bytes(sum(bits[i + j] << j for j in range(8))
                 for i in range(0, len(bits), 8))


class PN53xChip(ChipBase):
    """PN53x firmware behind the PN53x link layer (ACK + information frame).
    link: 'usb' | 'tty' | 'arygon' (the host prefixes every frame with "2")."""

    def __init__(self, variant, link='usb', name=None, **kw):
        tag, ini = kw.pop('tag', None), kw.pop('initiator', None)
        ChipBase.__init__(self, **kw)
        self.core = PN53xCore(variant, tag, ini)
        self.variant = variant
        self.link = link
        self.name = name or variant

    # -- link layer in -----------------------------------------------------
    def host_write(self, raw):
        raw = bytes(raw)
        self.written.append(raw)
        f = raw
        if self.link == 'arygon':
            if f[:1] != b'2':
                self.bad_frames.append(raw)
                return Plan()
            f = f[1:]
        if self.link in ('tty', 'arygon'):
            while len(f) > 6 and f[:3] == b'\x00\x00\x00':
                f = f[1:]                       # long preamble (wake-up)
        if f == ACK:
            return Plan()                       # abort: nothing to say
        try:
            code, payload = hf.pn53x_command(f)
        except hf.Invalid as e:
            self.bad_frames.append((raw, str(e)))
            return Plan()
        return self.respond(code, payload)

    # -- one command -----------------------------------------------------------
    def has_status(self, code):
        if code in PN53X_STATUS:
            return True
        if code == 0x06:
            return self.variant == 'pn533'
        if code == 0x08:
            return self.variant in ('pn533', 'rcs956')
        return False

    def respond(self, code, payload):
        cname = PN53X_NAMES.get(code, '%02X' % code)
        self.cmdlog.append((cname, code, bytes(payload)))
        rsp = self.core.handle(code, payload)
        if rsp is None:                          # chip waits for RF forever
            dev = self.choose(cname, self.alternatives(code, b'\x00'))
            if dev is None or dev[0] not in ('werr', 'rerr_ack', 'rerr_rsp',
                                             'errframe'):
                return Plan([ACK])
            rsp = b'\x00'
        else:
            dev = self.choose(cname, self.alternatives(code, rsp))
        return self.encode(code, rsp, dev)

    def alternatives(self, code, rsp):
        if not self.armed:
            return []
        a = self.alphabet
        alts = []
        st = self.has_status(code)
        if st:
            if a == FULL:
                alts += [('status', s) for s in range(1, 256)]
            else:
                alts += [('status', s) for s in REDUCED_STATUS]
            if code not in PN53X_RF:
                # no flag bits are defined for these commands: a status
                # octet with only bits 7:6 set, nothing behind it
                alts += [('statusonly', s) for s in (0x40, 0x80, 0xC0)]
            alts.append(('nostatus',))
        alts.append(('errframe',))
        alts += _host_faults(a)
        alts += [('noack',), ('wrongcode',)]
        n = len(hf.pn53x_build(b'\xD5' + bytes([code + 1]) + rsp))
        alts += [('trunc', k) for k in _trunc_points(n, a)]
        if a == FULL:
            alts += [('wrongtfi',), ('garble', 'sof'), ('garble', 'lcs'),
                     ('garble', 'dcs'), ('garble', 'postamble')]
            if rsp:
                alts.append(('garble', 'payload'))
        else:
            alts += [('wrongtfi',), ('garble', 'dcs')]
            if rsp:
                alts.append(('garble', 'payload'))
        return alts

    def encode(self, code, rsp, dev):
        body = b'\xD5' + bytes([(code + 1) & 0xFF]) + bytes(rsp)
        if dev is None:
            return Plan([ACK, hf.pn53x_build(body)])
        k = dev[0]
        if k == 'werr':
            return Plan(write_exc=ioerror(dev[1]))
        if k == 'rerr_ack':
            return Plan([ioerror(dev[1])])
        if k == 'rerr_rsp':
            return Plan([ACK, ioerror(dev[1])])
        if k == 'errframe':
            return Plan([ACK, hf.ERROR])
        if k == 'nack':
            return Plan([ACK, NACK])
        if k == 'status':
            s = dev[1]
            data = bytes([s]) + (bytes(rsp[1:]) if s & 0x3F == 0 else b'')
            return Plan([ACK, hf.pn53x_build(body[:2] + data)])
        if k == 'statusonly':
            return Plan([ACK, hf.pn53x_build(body[:2] + bytes([dev[1]]))])
        if k == 'nostatus':
            return Plan([ACK, hf.pn53x_build(body[:2])])
        frame = hf.pn53x_build(body)
        if k == 'noack':
            return Plan([frame])
        if k == 'trunc':
            return Plan([ACK, frame[:dev[1]]])
        if k == 'wrongcode':
            return Plan([ACK, hf.pn53x_build(
                b'\xD5' + bytes([(code + 3) & 0xFF]) + bytes(rsp))])
        if k == 'wrongtfi':
            return Plan([ACK, hf.pn53x_build(b'\xD4' + body[1:])])
        if k == 'garble':
            f = bytearray(frame)
            ext = f[3] == 0xFF and f[4] == 0xFF
            pos = {'sof': 2, 'lcs': 7 if ext else 4, 'dcs': len(f) - 2,
                   'postamble': len(f) - 1,
                   'payload': (8 if ext else 5) + 2}[dev[1]]
            f[pos] ^= 0x10
            return Plan([ACK, bytes(f)])
        raise sched.HarnessError('unknown deviation %r' % (dev,))


# ----------------------------------------------------------------------------
# ACR122U: CCID envelope + pseudo APDU around the PN532 command set
# ----------------------------------------------------------------------------
class ACR122Chip(ChipBase):
    name = 'acr122'

    def __init__(self, **kw):
        tag, ini = kw.pop('tag', None), kw.pop('initiator', None)
        ChipBase.__init__(self, **kw)
        self.core = PN53xCore('pn532', tag, ini)
        self.variant = 'pn532'
        self.seq = 0

    def _ccid(self, data):
        return hf.ccid_build(0x80, data, 0, 0, b'\x81\x00\x00')

    def host_write(self, raw):
        raw = bytes(raw)
        self.written.append(raw)
        if raw[:1] == b'\x62':                           # IccPowerOn
            return Plan([self._ccid(hx('3B00'))])
        try:
            apdu = hf.acr122_escape(raw)
        except hf.Invalid as e:
            self.bad_frames.append((raw, str(e)))
            return Plan()
        if apdu == hx('FF00480000'):
            return Plan([self._ccid(b'ACR122U203')])
        if apdu[:3] == hx('FF0051'):
            return Plan([self._ccid(hx('907F'))])
        if apdu[:3] == hx('FF0040'):
            return Plan([self._ccid(hx('9000'))])
        if apdu == ACK:
            return Plan([self._ccid(hx('9000'))])
        try:
            code, payload = hf.acr122_command(raw)
        except hf.Invalid as e:
            self.bad_frames.append((raw, str(e)))
            return Plan()
        cname = PN53X_NAMES.get(code, '%02X' % code)
        self.cmdlog.append((cname, code, bytes(payload)))
        rsp = self.core.handle(code, payload)
        if rsp is None:
            rsp = b'\x01'
        dev = self.choose(cname, self.alternatives(code, rsp))
        return self.encode(code, rsp, dev)

    def alternatives(self, code, rsp):
        if not self.armed:
            return []
        a = self.alphabet
        alts = []
        if code in PN53X_STATUS:
            if a == FULL:
                alts += [('status', s) for s in range(1, 256)]
            else:
                alts += [('status', s) for s in REDUCED_STATUS]
            if code not in PN53X_RF:
                alts += [('statusonly', s) for s in (0x40, 0x80, 0xC0)]
            alts.append(('nostatus',))
        alts += _host_faults(a, ack=False)
        alts += [('wrongcode',), ('sw', 0x6300)]
        n = 10 + 4 + len(rsp)
        alts += [('trunc', k) for k in _trunc_points(n, a)]
        if a == FULL:
            alts += [('wrongtfi',), ('ccidtype',), ('ccidlen',), ('sw', 0x9001)]
        return alts

    def encode(self, code, rsp, dev):
        body = b'\xD5' + bytes([(code + 1) & 0xFF]) + bytes(rsp)
        ok = b'\x90\x00'
        if dev is None:
            return Plan([self._ccid(body + ok)])
        k = dev[0]
        if k == 'werr':
            return Plan(write_exc=ioerror(dev[1]))
        if k == 'rerr_rsp':
            return Plan([ioerror(dev[1])])
        if k == 'status':
            s = dev[1]
            data = bytes([s]) + (bytes(rsp[1:]) if s & 0x3F == 0 else b'')
            return Plan([self._ccid(body[:2] + data + ok)])
        if k == 'statusonly':
            return Plan([self._ccid(body[:2] + bytes([dev[1]]) + ok)])
        if k == 'nostatus':
            return Plan([self._ccid(body[:2] + ok)])
        if k == 'wrongcode':
            return Plan([self._ccid(
                b'\xD5' + bytes([(code + 3) & 0xFF]) + bytes(rsp) + ok)])
        if k == 'wrongtfi':
            return Plan([self._ccid(b'\xD4' + body[1:] + ok)])
        if k == 'sw':
            return Plan([self._ccid(body + struct.pack('>H', dev[1]))])
        frame = self._ccid(body + ok)
        if k == 'trunc':
            return Plan([frame[:dev[1]]])
        if k == 'ccidtype':
            return Plan([b'\x81' + frame[1:]])
        if k == 'ccidlen':
            return Plan([frame[:1] + bytes([(frame[1] + 1) & 0xFF]) + frame[2:]])
        raise sched.HarnessError('unknown deviation %r' % (dev,))


# ----------------------------------------------------------------------------
# RC-S380 (NFC Port-100)
# ----------------------------------------------------------------------------
RCS380_NAMES = {
    0x00: 'InSetRF', 0x02: 'InSetProtocol', 0x04: 'InCommRF', 0x06: 'SwitchRF',
    0x12: 'ResetDevice', 0x20: 'GetFirmwareVersion', 0x22: 'GetPDDataVersion',
    0x28: 'GetCommandType', 0x2A: 'SetCommandType', 0x40: 'TgSetRF',
    0x42: 'TgSetProtocol', 0x44: 'TgSetAuto', 0x46: 'TgSetRFOff',
    0x48: 'TgCommRF',
}
RCS380_STATUS = {0x00, 0x02, 0x06, 0x2A, 0x40, 0x42, 0x44}
COMM_BITS = [1 << i for i in range(32)]


def comm_status_values(alphabet):
    if alphabet != FULL:
        return [0x80, 0x400, 0x04, 0x480, 0x84, 0xFFFFFFFF]
    vals = list(COMM_BITS)
    for i in range(32):
        for j in range(i + 1, 32):
            vals.append((1 << i) | (1 << j))
    vals.append(0xFFFFFFFF)
    return vals


class RCS380Chip(ChipBase):
    name = 'rcs380'

    def __init__(self, **kw):
        self.tag, self.initiator = kw.pop('tag', None), kw.pop('initiator', None)
        ChipBase.__init__(self, **kw)
        self.in_rf = None
        self.in_proto = {}
        self.tg_rf = None

    def host_write(self, raw):
        raw = bytes(raw)
        self.written.append(raw)
        if raw == ACK:
            return Plan()
        try:
            code, payload = hf.rcs380_command(raw)
        except hf.Invalid as e:
            self.bad_frames.append((raw, str(e)))
            return Plan()
        cname = RCS380_NAMES.get(code, '%02X' % code)
        self.cmdlog.append((cname, code, bytes(payload)))
        rsp = self.handle(code, payload)
        dev = self.choose(cname, self.alternatives(code, rsp))
        return self.encode(code, rsp, dev)

    # -- firmware ---------------------------------------------------------
    def handle(self, code, p):
        if code == 0x2A:
            return b'\x00'
        if code == 0x20:
            return hx('1101')
        if code == 0x22:
            return hx('0001')
        if code == 0x06:
            return b'\x00'
        if code == 0x00:
            self.in_rf = bytes(p)
            return b'\x00'
        if code == 0x02:
            for i in range(0, len(p) - 1, 2):
                self.in_proto[p[i]] = p[i + 1]
            return b'\x00'
        if code == 0x04:
            return self._in_comm_rf(bytes(p[2:]))
        if code in (0x40, 0x42, 0x44, 0x46):
            return b'\x00'
        if code == 0x48:
            return self._tg_comm_rf(bytes(p))
        return b''

    def _in_comm_rf(self, d):
        ok = hx('00000000 08')
        tmo = hx('80000000 00')
        t = self.tag
        if t is None:
            return tmo
        k = t.kind
        rf = self.in_rf[:2] if self.in_rf else b''
        tech = {1: 'F', 2: 'A', 3: 'B', 4: 'A', 5: 'A'}.get(rf[0] if rf else 0)
        if tech == 'A' and k in ('T1', 'T2', 'T4A', 'DEP106'):
            if d in (b'\x26', b'\x52'):
                return ok + t.sens_res
            if k == 'T1' and d[:1] == b'\x78':
                return ok + t.rid_res
            if d == b'\x93\x20':
                bcc = 0
                for x in t.uid:
                    bcc ^= x
                return ok + t.uid + bytes([bcc])
            if d[:2] == b'\x93\x70':
                return ok + t.sel_res
        elif tech == 'A':
            return tmo
        if tech == 'B':
            if k != 'T4B':
                return tmo
            if d[:1] == b'\x05' and len(d) == 3:
                return ok + t.sensb_res
        if tech == 'F':
            if k not in ('T3', 'DEP212'):
                return tmo
            if d[1:3] == b'\x00\xFF' or (len(d) == 6 and d[1] == 0):
                body = b'\x01' + t.idm + t.pmm + t.sc
                return ok + bytes([len(body) + 1]) + body
        ans = t.answer(d)
        if ans is None:
            return tmo
        if tech == 'A' and self.in_proto.get(2, 1) == 0 and len(ans) > 1 \
                and not t.with_crc:
            ans = refcrc.append_a(ans)        # check_crc off: CRC passed up
        elif tech == 'A' and self.in_proto.get(2, 1) == 1 and t.with_crc \
                and len(ans) > 2:
            # check_crc on: the chip verifies and strips CRC_A itself
            if refcrc.append_a(ans[:-2]) != bytes(ans):
                return hx('04000000 00')      # CRC_ERROR
            ans = ans[:-2]
        return ok + ans

    def _tg_comm_rf(self, p):
        ini = self.initiator
        recv_timeout = struct.unpack('<H', p[31:33])[0] if len(p) >= 33 else 0
        sent = p[33:]
        if ini is None:
            return hx('0B0000 80000000')
        if sent:
            ini.received.append(sent)
        code = {'106A': 0x0B, '212F': 0x0C, '424F': 0x0D}[ini.brty]
        if recv_timeout == 0:
            return bytes([code]) + hx('0003 00000000')
        flags = 0x00 if ini.kind == 'tt3' else 0x03
        if ini.kind == 'tt3' and not ini.polled:
            # the very first thing a Type F initiator sends is SENSF_REQ
            ini.polled = True
            f = hx('0600FFFF0100')
        else:
            f = ini.next()
        return bytes([code, 0x00, flags]) + hx('00000000') + f

    # -- choice ------------------------------------------------------------
    def alternatives(self, code, rsp):
        if not self.armed:
            return []
        a = self.alphabet
        alts = []
        if code in RCS380_STATUS:
            if a == FULL:
                alts += [('status', s) for s in range(1, 256)]
            else:
                alts += [('status', s) for s in (0x01, 0x03, 0x07, 0xFF)]
            alts.append(('nostatus',))
        if code in (0x04, 0x48):
            alts += [('comm', v) for v in comm_status_values(a)]
            alts += [('nostatus',), ('short', 2)]
        alts.append(('errframe',))
        alts += _host_faults(a)
        alts += [('noack',), ('wrongcode',)]
        n = len(hf.rcs380_build(b'\xD7' + bytes([code + 1]) + rsp))
        alts += [('trunc', k) for k in _trunc_points(n, a)]
        if a == FULL:
            alts += [('wrongtfi',), ('garble', 'sof'), ('garble', 'lcs'),
                     ('garble', 'dcs'), ('garble', 'postamble'),
                     ('garble', 'payload')]
        else:
            alts += [('wrongtfi',), ('garble', 'dcs'), ('garble', 'payload')]
        return alts

    def encode(self, code, rsp, dev):
        body = b'\xD7' + bytes([(code + 1) & 0xFF]) + bytes(rsp)
        if dev is None:
            return Plan([ACK, hf.rcs380_build(body)])
        k = dev[0]
        if k == 'werr':
            return Plan(write_exc=ioerror(dev[1]))
        if k == 'rerr_ack':
            return Plan([ioerror(dev[1])])
        if k == 'rerr_rsp':
            return Plan([ACK, ioerror(dev[1])])
        if k == 'errframe':
            return Plan([ACK, b'\x00\x00\xFF\xFF\xFF'])
        if k == 'status':
            return Plan([ACK, hf.rcs380_build(body[:2] + bytes([dev[1]]))])
        if k == 'nostatus':
            return Plan([ACK, hf.rcs380_build(body[:2])])
        if k == 'short':
            return Plan([ACK, hf.rcs380_build(body[:2] + b'\x80\x00'[:dev[1]])])
        if k == 'comm':
            st = struct.pack('<L', dev[1])
            if code == 0x04:
                data = st + b'\x00'
            else:
                data = bytes(rsp[:3]) + st
            return Plan([ACK, hf.rcs380_build(body[:2] + data)])
        frame = hf.rcs380_build(body)
        if k == 'noack':
            return Plan([frame])
        if k == 'trunc':
            return Plan([ACK, frame[:dev[1]]])
        if k == 'wrongcode':
            return Plan([ACK, hf.rcs380_build(
                b'\xD7' + bytes([(code + 3) & 0xFF]) + bytes(rsp))])
        if k == 'wrongtfi':
            return Plan([ACK, hf.rcs380_build(b'\xD5' + body[1:])])
        if k == 'garble':
            f = bytearray(frame)
            pos = {'sof': 2, 'lcs': 7, 'dcs': len(f) - 2,
                   'postamble': len(f) - 1,
                   'payload': min(len(f) - 3, 8 + 2 + 5)}[dev[1]]
            f[pos] ^= 0x10
            return Plan([ACK, bytes(f)])
        raise sched.HarnessError('unknown deviation %r' % (dev,))


# ----------------------------------------------------------------------------
# Transports
# ----------------------------------------------------------------------------
class FrameTransport(object):
    """Stands for nfc.clf.transport.USB: one write is one frame, one read
    returns one frame as a bytearray."""
    TYPE = 'USB'

    def __init__(self, chip, manufacturer='SimCo', product='SimReader 1.0'):
        self.chip = chip
        self.out = collections.deque()
        self.manufacturer_name = manufacturer
        self.product_name = product
        self.reads = 0
        self.closed = False
        self.io_hook = None     # io_hook(op, transport): e.g. a scheduling
                                # point / overlap detector for thread checks

    def write(self, frame, timeout=0):
        if self.io_hook is not None:
            self.io_hook('write', self)
        plan = self.chip.host_write(frame)
        if plan.write_exc is not None:
            raise plan.write_exc
        self.out.clear()
        self.out.extend(plan.items)

    def read(self, timeout=0):
        if self.io_hook is not None:
            self.io_hook('read', self)
        self.reads += 1
        if not self.out:
            if not timeout:
                raise WouldBlockForever('read() without timeout')
            sched.vsleep(timeout / 1000.0)
            raise ioerror('ETIMEDOUT')
        item = self.out.popleft()
        if isinstance(item, Exception):
            raise item
        if len(item) == 0:                   # USB.read: zero data is EIO
            raise ioerror('EIO')
        return bytearray(item)

    def close(self):
        self.closed = True


class ScriptTransport(object):
    """Recording transport with a fixed script of frames (C14)."""
    TYPE = 'USB'
    manufacturer_name = 'SimCo'
    product_name = 'SimReader 1.0'

    def __init__(self, script=()):
        self.script = collections.deque(script)
        self.written = []

    def write(self, frame, timeout=0):
        self.written.append(bytes(frame))

    def read(self, timeout=0):
        if not self.script:
            raise ioerror('ETIMEDOUT')
        item = self.script.popleft()
        if isinstance(item, Exception):
            raise item
        return bytearray(item)

    def close(self):
        pass


class FakeSerial(object):
    """The part of serial.Serial that nfc.clf.transport.TTY, pn532.init() and
    arygon.init() use.  Reading from an empty buffer costs `timeout` seconds
    of virtual time and returns what is there."""

    def __init__(self, port='/dev/ttySIM0', baudrate=115200, timeout=0.05):
        self.port = port
        self.baudrate = baudrate
        self.timeout = timeout
        self.buf = bytearray()
        self.lines = collections.deque()
        self.on_write = None
        self.is_open = True
        self.raw_writes = []

    def read(self, n=1):
        if len(self.buf) < n:
            sched.vsleep(self.timeout or 0)
        out, self.buf = bytes(self.buf[:n]), self.buf[n:]
        return out

    def readline(self):
        if self.lines:
            return self.lines.popleft()
        sched.vsleep(self.timeout or 0)
        return b''

    def write(self, data):
        data = bytes(data)
        self.raw_writes.append(data)
        if self.on_write is not None:
            self.on_write(data)
        return len(data)

    def flushInput(self):
        self.buf = bytearray()

    reset_input_buffer = flushInput

    def flushOutput(self):
        pass

    reset_output_buffer = flushOutput

    def close(self):
        self.is_open = False


_tty_class = []


def sim_tty_class():
    """A subclass of the real nfc.clf.transport.TTY: its real read() and
    write() run over a FakeSerial; open() attaches the fake instead of
    opening a device node."""
    if _tty_class:
        return _tty_class[0]
    import nfc.clf.transport as transport

    class SimTTY(transport.TTY):
        def __init__(self, chip, arygon_version=None):
            self.chip = chip
            self.pending = collections.deque()
            self.arygon_version = arygon_version
            self.opened = []
            self.tty = None
            self.io_hook = None
            self.open('/dev/ttySIM0')

        def open(self, port, baudrate=115200):
            self.opened.append((port, baudrate))
            self.tty = FakeSerial(port, baudrate)
            self.tty.on_write = self._raw_write

        def _raw_write(self, data):
            # ASCII dialogue of the Arygon MCU (written to tty directly)
            if self.arygon_version is not None and data[:1] == b'0':
                if data == b'0av':
                    ok = self.tty.baudrate == self.arygon_version[1]
                    self.tty.lines.append(
                        b'FF00000600V3.2\r\n' if ok else b'')
                elif data[:3] in (b'0at', b'0ah'):
                    self.tty.lines.append(b'FF000000\r\n')

        def write(self, frame):
            if self.io_hook is not None:
                self.io_hook('write', self)
            plan = self.chip.host_write(frame)
            if plan.write_exc is not None:
                raise plan.write_exc
            transport.TTY.write(self, frame)      # flushInput + tty.write
            self.pending.clear()
            self.pending.extend(plan.items)

        def read(self, timeout):
            if self.io_hook is not None:
                self.io_hook('read', self)
            if self.pending:
                item = self.pending.popleft()
                if isinstance(item, Exception):
                    raise item
                self.tty.buf += item
            return transport.TTY.read(self, timeout)

        def close(self):
            self.tty = None

        @property
        def port(self):
            return self.tty.port if self.tty else '/dev/ttySIM0'

    _tty_class.append(SimTTY)
    return SimTTY


# ----------------------------------------------------------------------------
# Putting it together
# ----------------------------------------------------------------------------
class Sim(object):
    """One simulated reader: chip responder + transport + (after open()) the
    real nfcpy driver instance."""

    def __init__(self, driver, chooser=None, tag=None, initiator=None,
                 alphabet=FULL):
        if driver not in DRIVERS:
            raise ValueError(driver)
        self.driver = driver
        kw = dict(chooser=chooser, tag=tag, initiator=initiator,
                  alphabet=alphabet)
        if driver in ('pn531', 'pn533', 'rcs956'):
            self.chip = PN53xChip(driver, 'usb', **kw)
            self.transport = FrameTransport(self.chip)
        elif driver == 'pn532':
            self.chip = PN53xChip('pn532', 'tty', **kw)
            self.transport = sim_tty_class()(self.chip)
        elif driver in ('arygonA', 'arygonB'):
            variant = 'pn531' if driver == 'arygonA' else 'pn532'
            self.chip = PN53xChip(variant, 'arygon', name=driver, **kw)
            rate = 9600 if driver == 'arygonA' else 115200
            self.transport = sim_tty_class()(self.chip, (driver, rate))
        elif driver == 'acr122':
            self.chip = ACR122Chip(**kw)
            self.transport = FrameTransport(self.chip, 'ACS', 'ACR122U PICC')
        elif driver == 'rcs380':
            self.chip = RCS380Chip(**kw)
            self.transport = FrameTransport(self.chip, 'SONY', 'RC-S380/P')
        self.device = None
        self._clf = None

    def open(self):
        """Run the driver's real init() against the simulated chip."""
        from mc import shims
        name = 'arygon' if self.driver.startswith('arygon') else self.driver
        mod = __import__('nfc.clf.' + name, fromlist=['init'])
        osshim = shims.shim.get('os')
        saved = None
        if osshim is not None:
            saved = osshim.__dict__.get('system')
            osshim.__dict__['system'] = lambda cmd: 1    # no stty in the sim
        try:
            self.device = mod.init(self.transport)
        finally:
            if osshim is not None:
                if saved is None:
                    osshim.__dict__.pop('system', None)
                else:
                    osshim.__dict__['system'] = saved
        self.device._path = 'sim:' + self.driver
        return self.device

    def clf(self):
        import nfc.clf
        if self.device is None:
            self.open()
        if self._clf is None:
            self._clf = nfc.clf.ContactlessFrontend()
            self._clf.device = self.device
        return self._clf

    def arm(self):
        self.chip.armed = True

    def disarm(self):
        self.chip.armed = False


# -- what each driver can do (used by the C13 enumeration) -------------------
SENSE_KINDS = {
    'pn531': ('T2', 'T4A', 'DEP106', 'T3', 'DEPA'),
    'pn532': ('T1', 'T2', 'T4A', 'DEP106', 'T4B', 'T3', 'DEPA'),
    'pn533': ('T1', 'T2', 'T4A', 'DEP106', 'T4B', 'T3', 'DEPA'),
    'rcs956': ('T1', 'T2', 'T4A', 'DEP106', 'T4B', 'T3', 'DEPA'),
    'acr122': ('T2', 'T4A', 'DEP106', 'T4B', 'T3', 'DEPA'),
    'arygonA': ('T2', 'T4A', 'DEP106', 'T3', 'DEPA'),
    'arygonB': ('T1', 'T2', 'T4A', 'DEP106', 'T4B', 'T3', 'DEPA'),
    'rcs380': ('T1', 'T2', 'T4A', 'DEP106', 'T4B', 'T3'),
}
LISTEN_KINDS = {
    'pn531': ('tt2', 'tt4', 'tt3', 'dep106', 'dep424'),
    'pn532': ('tt2', 'tt4', 'tt3', 'dep106', 'dep424'),
    'pn533': ('tt2', 'tt4', 'tt3', 'dep106', 'dep424'),
    'rcs956': ('tt2', 'dep106', 'dep424'),
    'acr122': (),
    'arygonA': ('tt2', 'tt4', 'tt3', 'dep106', 'dep424'),
    'arygonB': ('tt2', 'tt4', 'tt3', 'dep106', 'dep424'),
    'rcs380': ('tt2', 'tt4', 'tt3', 'dep106', 'dep212'),
}


def sense_target(kind, brty_f='212F'):
    """The RemoteTarget argument for clf.sense() that finds a Tag(kind)."""
    import nfc.clf
    if kind in ('T1', 'T2', 'T4A', 'DEP106'):
        return nfc.clf.RemoteTarget('106A')
    if kind == 'T4B':
        return nfc.clf.RemoteTarget('106B')
    if kind in ('T3', 'DEP212'):
        return nfc.clf.RemoteTarget(brty_f)
    if kind == 'DEPA':
        atr = bytearray(hx('D400 30313233343536373839 00000002 46666D010113'))
        return nfc.clf.RemoteTarget('106A', atr_req=atr)
    raise ValueError(kind)


def listen_target(kind, ini):
    """The LocalTarget argument for clf.listen() that Initiator(kind)
    activates."""
    import nfc.clf
    if kind in ('tt2', 'tt4'):
        t = nfc.clf.LocalTarget('106A')
        t.sens_res = bytearray(hx('4400'))
        t.sdd_res = bytearray(hx('08010203'))
        t.sel_res = bytearray(hx('00' if kind == 'tt2' else '20'))
        return t
    if kind == 'tt3':
        t = nfc.clf.LocalTarget(ini.brty)
        t.sensf_res = bytearray(b'\x01' + ini.idm + ini.pmm + ini.sc)
        return t
    if kind.startswith('dep'):
        t = nfc.clf.LocalTarget()
        t.sensf_res = bytearray(hx('0101FE010203040506') + bytes(8) + hx('FFFF'))
        t.sens_res = bytearray(hx('0101'))
        t.sdd_res = bytearray(hx('08010203'))
        t.sel_res = bytearray(hx('40'))
        t.atr_res = bytearray(hx('D501 D0D1D2D3D4D5D6D7D8D9 0000000800'))
        return t
    raise ValueError(kind)
