"""FeliCa Lite (RC-S965) and FeliCa Lite-S (RC-S966) tag models for C20.

Written from the FeliCa Lite / FeliCa Lite-S User's Manuals (block layout,
"Generation of the session key", "MAC generation", "MAC_A generation for
Read / for Write", "Mutual authentication"), NOT from nfcpy:

  * every 8-octet quantity (RC1, RC2, CK1, CK2, SK1, SK2, MAC, every half of a
    16-octet block) is a 64-bit number stored least significant octet first;
    the DES block and the DES key are that number most significant octet
    first ("byte reversal");
  * session key:  SK1 = E3(CK; RC1)            SK2 = E3(CK; RC2 xor SK1)
    where E3(K; x) = E(K1, D(K2, E(K1, x)))  (two-key triple DES);
  * MAC (block 81h):  x0 = RC1,  x_i = E3(SK1,SK2; d_i xor x_{i-1}) over the
    64-bit halves d_i of the data blocks of the same Read command; MAC = x_n;
  * MAC_A for Read (block 91h): as MAC but d_1 is the block list of the
    command: up to four 2-octet block numbers (number, 00h), unused = FFFFh;
  * MAC_A for Write: d_1 = WCNT[0..2], 00h, block number, 00h, 91h, 00h, then
    the 16 data octets; keys in the order SK2, SK1 (IV still RC1);
  * Lite-S external authentication: Write with MAC_A of EXT_AUTH = 01h to the
    STATE block (92h); the card verifies MAC_A with its own WCNT and key.

Only the single-block DES primitive is shared with nfcpy (pyDes.des, ECB, one
block); EDE, CBC chaining, reversal, key order are done here on integers.
`selfcheck()` verifies the primitive against a known answer and, if present,
against `openssl enc -des-ecb / -des-ede-cbc -provider legacy`.

The model is a memory with the command set nfcpy uses: Polling, Read Without
Encryption (<= 4 blocks), Write Without Encryption (1 block, Lite-S: 1 block +
MAC_A).  Status flags follow the manuals where nfcpy distinguishes them
(01B1h.. read needs authentication, 02B2h MAC_A verification failure); other
error flags are only "some error".
"""
import functools
import subprocess

import pyDes

M64 = (1 << 64) - 1

# block numbers
RC, MAC, ID, D_ID, SER_C, SYS_C, CKV, CK, MC = range(0x80, 0x89)
WCNT, MAC_A, STATE, CRC_CHECK = 0x90, 0x91, 0x92, 0xA0
REG = 0x0E


# ---------------------------------------------------------------- crypto ----
@functools.lru_cache(maxsize=1 << 12)
def _des(k64):
    return pyDes.des(k64.to_bytes(8, 'big'), pyDes.ECB)


@functools.lru_cache(maxsize=1 << 18)
def des_e(k64, x64):
    return int.from_bytes(_des(k64).encrypt(x64.to_bytes(8, 'big')), 'big')


@functools.lru_cache(maxsize=1 << 18)
def des_d(k64, x64):
    return int.from_bytes(_des(k64).decrypt(x64.to_bytes(8, 'big')), 'big')


def e3(k1, k2, x):
    """Two-key triple DES, encrypt-decrypt-encrypt, on 64-bit integers."""
    return des_e(k1, des_d(k2, des_e(k1, x)))


def words(octets):
    """16*n octets -> 2*n little-endian 64-bit numbers."""
    octets = bytes(octets)
    assert len(octets) % 8 == 0
    return [int.from_bytes(octets[i:i + 8], 'little')
            for i in range(0, len(octets), 8)]


def session_key(ck_block, rc_block):
    """(SK1, SK2) from the CK block and the RC block as stored on the card."""
    ck1, ck2 = words(ck_block)
    rc1, rc2 = words(rc_block)
    sk1 = e3(ck1, ck2, rc1)
    sk2 = e3(ck1, ck2, rc2 ^ sk1)
    return sk1, sk2


def chain(k1, k2, iv, ws):
    x = iv
    for w in ws:
        x = e3(k1, k2, w ^ x)
    return x


def mac_read(sk, rc_block, data):
    """MAC of block 81h over the data blocks read in the same command."""
    rc1 = words(rc_block)[0]
    return chain(sk[0], sk[1], rc1, words(data)).to_bytes(8, 'little')


def mac_a_read(sk, rc_block, block_numbers, data):
    """MAC_A of block 91h; block_numbers is the whole block list of the
    command including 91h itself (at most four)."""
    assert 1 <= len(block_numbers) <= 4
    info = bytearray(b'\xff' * 8)
    for i, bn in enumerate(block_numbers):
        info[2 * i] = bn & 0xFF
        info[2 * i + 1] = bn >> 8
    rc1 = words(rc_block)[0]
    ws = words(info) + words(data)
    return chain(sk[0], sk[1], rc1, ws).to_bytes(8, 'little')


def mac_a_write(sk, rc_block, wcnt3, block_number, data16):
    """MAC_A expected in a Write with MAC_A of one block."""
    info = bytes(wcnt3[0:3]) + bytes([0, block_number & 0xFF,
                                     block_number >> 8, MAC_A, 0])
    rc1 = words(rc_block)[0]
    ws = words(info) + words(data16)
    return chain(sk[1], sk[0], rc1, ws).to_bytes(8, 'little')


def selfcheck(use_openssl=True):
    """Known-answer test of the shared DES primitive and of e3/chain against
    openssl.  Returns a dict for the evidence; raises on disagreement."""
    out = {'des_known_answer': False, 'openssl': 'not run'}
    # classic worked example (Grabbe): K=133457799BBCDFF1 P=0123456789ABCDEF
    assert des_e(0x133457799BBCDFF1, 0x0123456789ABCDEF) == 0x85E813540F0AB405
    assert des_d(0x133457799BBCDFF1, 0x85E813540F0AB405) == 0x0123456789ABCDEF
    # NBS variable-plaintext vector, key 0101..01, P=8000000000000000
    assert des_e(0x0101010101010101, 0x8000000000000000) == 0x95F8A5E5DD31D900
    out['des_known_answer'] = True
    if not use_openssl:
        return out
    vecs = [
        (0x0001020304050607, 0x08090A0B0C0D0E0F, 0x0011223344556677,
         [0x8899AABBCCDDEEFF, 0x0123456789ABCDEF, 0xFFFFFFFFFFFFFFFF]),
        (0x3031323334353637, 0x3839616263646566, 0,
         [0x0001020304050607, 0x08090A0B0C0D0E0F]),
        (0xFEDCBA9876543210, 0x1032547698BADCFE, 0xA5A5A5A5A5A5A5A5,
         [0, 0, 0, 0x5A5A5A5A5A5A5A5A]),
    ]
    try:
        for k1, k2, iv, ws in vecs:
            x, mine = iv, b''
            for w in ws:
                x = e3(k1, k2, w ^ x)
                mine += x.to_bytes(8, 'big')
            r = subprocess.run(
                ['openssl', 'enc', '-des-ede-cbc', '-provider', 'legacy',
                 '-provider', 'default', '-nopad',
                 '-K', '%016x%016x' % (k1, k2), '-iv', '%016x' % iv],
                input=b''.join(w.to_bytes(8, 'big') for w in ws),
                capture_output=True, timeout=20)
            if r.returncode != 0:
                out['openssl'] = 'skipped: openssl failed (%s)' % (
                    r.stderr.decode(errors='replace').strip()[:80])
                return out
            if r.stdout != mine:
                raise AssertionError('pyDes/openssl disagree on 3DES-CBC '
                                     '%016x%016x' % (k1, k2))
            r = subprocess.run(
                ['openssl', 'enc', '-des-ecb', '-provider', 'legacy',
                 '-provider', 'default', '-nopad', '-K', '%016x' % k1],
                input=ws[0].to_bytes(8, 'big'), capture_output=True,
                timeout=20)
            if r.returncode != 0 or \
                    r.stdout != des_e(k1, ws[0]).to_bytes(8, 'big'):
                raise AssertionError('pyDes/openssl disagree on DES-ECB')
        out['openssl'] = 'agrees on %d 3DES-CBC and %d DES-ECB vectors' % (
            len(vecs), len(vecs))
    except (OSError, subprocess.SubprocessError) as e:
        out['openssl'] = 'skipped: %s' % type(e).__name__
    return out


# ------------------------------------------------------------- the card ----
def ndef_attribute_block(ln, nbr=4, nbw=1, nmaxb=13, writef=0, rwflag=1,
                         ver=0x10):
    a = bytearray(16)
    a[0], a[1], a[2] = ver, nbr, nbw
    a[3], a[4] = nmaxb >> 8, nmaxb & 0xFF
    a[9], a[10] = writef, rwflag
    a[11], a[12], a[13] = (ln >> 16) & 0xFF, (ln >> 8) & 0xFF, ln & 0xFF
    s = sum(a[0:14])
    a[14], a[15] = s >> 8, s & 0xFF
    return a


class FelicaLiteTag(object):
    """One card.  `lite_s=False`: FeliCa Lite (IC code F0h), else Lite-S (F1h).

    Non-volatile: `mem` (block number -> 16 octets).  Volatile (cleared by
    `power_on`): RC, session key, EXT_AUTH."""
    SYSTEM_CODE = 0x88B4

    def __init__(self, lite_s=False, idm=None, card_key=bytes(16),
                 ndef_message=None, ic_code=None):
        self.lite_s = bool(lite_s)
        self.ic_code = ic_code if ic_code is not None else (
            0xF1 if lite_s else 0xF0)
        self.idm = bytes(idm or bytes.fromhex('012E4CE1A5B6C7D8'))
        assert len(self.idm) == 8 and self.idm[0:2] != b'\x01\xFE'
        self.pmm = bytes([0x00, self.ic_code]) + (
            bytes.fromhex('000000014300') if lite_s
            else bytes.fromhex('000002060300'))
        self.mem = {}
        for bn in range(0, 0x0F):
            self.mem[bn] = bytearray(16)
        for bn in (ID, D_ID, SER_C, SYS_C, CKV, CK, MC):
            self.mem[bn] = bytearray(16)
        self.mem[ID][0:8] = self.idm
        self.mem[ID][8:16] = bytes.fromhex('00112233445566AA')  # issuer data
        self.mem[D_ID][0:8] = self.idm
        self.mem[D_ID][8:16] = self.pmm
        self.mem[SER_C][0:2] = b'\x09\x00'
        self.mem[SYS_C][0:2] = b'\x88\xB4'
        # MC: all user blocks RW, system blocks RW, NDEF supported, RF param
        self.mem[MC][0:5] = bytes([0xFF, 0xFF, 0xFF, 0x01, 0x07])
        if lite_s:
            self.mem[WCNT] = bytearray(16)
            self.mem[STATE] = bytearray(16)
        self.set_card_key(card_key)
        if ndef_message is not None:
            self.set_ndef(ndef_message)
        self.log = []            # (command octets, response octets or None)
        self.writes = []         # (block number, data) of accepted writes
        self.power_on()

    # -- issuer-side helpers (not RF commands) -------------------------------
    def set_card_key(self, key16):
        """`key16` as the 16 octets K1 || K2 in DES order (what an issuer
        types); stored number-wise, i.e. each half least significant first."""
        key16 = bytes(key16)
        assert len(key16) == 16
        k1 = int.from_bytes(key16[0:8], 'big')
        k2 = int.from_bytes(key16[8:16], 'big')
        self.mem[CK] = bytearray(k1.to_bytes(8, 'little')
                                 + k2.to_bytes(8, 'little'))

    def card_key(self):
        """K1 || K2 in DES order."""
        k1, k2 = words(self.mem[CK])
        return k1.to_bytes(8, 'big') + k2.to_bytes(8, 'big')

    def set_ndef(self, message, **attr):
        message = bytes(message)
        assert len(message) <= 13 * 16
        self.mem[0] = ndef_attribute_block(len(message), **attr)
        padded = message + bytes(-len(message) % 16)
        for i in range(0, len(padded), 16):
            self.mem[1 + i // 16] = bytearray(padded[i:i + 16])

    def user_data(self, *blocks):
        return b''.join(bytes(self._content(bn)) for bn in blocks)

    # -- volatile state ------------------------------------------------------
    def power_on(self):
        self.rc = bytearray(16)
        self._sk = None
        self.ext_auth = 0
        if self.lite_s:
            self.mem[STATE] = bytearray(16)

    def sk(self):
        if self._sk is None:
            self._sk = session_key(self.mem[CK], self.rc)
        return self._sk

    def sensf_res(self, with_system_code=None):
        r = b'\x01' + self.idm + self.pmm
        if with_system_code is not None:
            r += bytes([with_system_code >> 8, with_system_code & 0xFF])
        return r

    # -- RF interface --------------------------------------------------------
    def command(self, frame):
        frame = bytes(frame)
        rsp = self._command(frame)
        self.log.append((frame, rsp))
        return rsp

    def _command(self, f):
        if len(f) < 2 or f[0] != len(f):
            return None
        code = f[1]
        if code == 0x00:
            return self._polling(f)
        if len(f) < 10 or f[2:10] != self.idm:
            return None
        if code == 0x06:
            body = self._read(f[10:])
            return bytes([10 + len(body), 0x07]) + self.idm + body
        if code == 0x08:
            body = self._write(f[10:])
            return bytes([10 + len(body), 0x09]) + self.idm + body
        return None                      # unsupported command: no answer

    def _polling(self, f):
        if len(f) != 6:
            return None
        sc, rq = (f[2] << 8) | f[3], f[4]
        mine = [self.SYSTEM_CODE]
        if self.mem[MC][3] == 0x01:
            mine.append(0x12FC)
        for own in mine:
            hi_ok = f[2] == 0xFF or f[2] == own >> 8
            lo_ok = f[3] == 0xFF or f[3] == own & 0xFF
            if hi_ok and lo_ok:
                body = self.idm + self.pmm
                if rq == 1:
                    body += bytes([own >> 8, own & 0xFF])
                elif rq == 2:
                    body += b'\x00\x83' if self.lite_s else b'\x00\x01'
                return bytes([2 + len(body), 0x01]) + body
        del sc
        return None

    def _parse_lists(self, d, allowed_services, max_blocks):
        """-> (block numbers, rest of the command) or status flag pair."""
        if len(d) < 1 or d[0] != 1:
            return (0xFF, 0xA1)
        if len(d) < 4:
            return (0xFF, 0xA1)
        service = d[1] | d[2] << 8
        if service not in allowed_services:
            return (0x01, 0xA6)
        n = d[3]
        if not 1 <= n <= max_blocks:
            return (0xFF, 0xA2)
        pos, blocks = 4, []
        for i in range(n):
            if pos >= len(d):
                return (0xFF, 0xA2)
            b0 = d[pos]
            if b0 & 0x80:
                if pos + 2 > len(d):
                    return (0xFF, 0xA2)
                bn, pos = d[pos + 1], pos + 2
            else:
                if pos + 3 > len(d):
                    return (0xFF, 0xA2)
                bn, pos = d[pos + 1] | d[pos + 2] << 8, pos + 3
            if b0 & 0x0F:                  # service list index must be 0
                return (1 << i, 0xA3)
            if b0 & 0x70:                  # access mode must be 0
                return (1 << i, 0xA7)
            blocks.append(bn)
        return blocks, d[pos:]

    def _exists(self, bn):
        if bn in self.mem or bn in (RC, MAC):
            return True
        return self.lite_s and bn in (MAC_A, CRC_CHECK)

    def _content(self, bn):
        """Plain content of a block as a Read returns it (not MAC/MAC_A)."""
        if bn in (RC, CK, CRC_CHECK):
            return bytes(16)               # never disclosed
        if bn == WCNT:
            return bytes(self.mem[WCNT])
        if bn == STATE:
            return bytes([self.ext_auth]) + bytes(15)
        return bytes(self.mem[bn])

    def _read(self, d):
        p = self._parse_lists(d, (0x000B, 0x0009), 4)
        if not isinstance(p[0], list):
            return bytes(p)
        blocks, rest = p
        if rest:
            return bytes((0xFF, 0xA2))
        for i, bn in enumerate(blocks):
            if not self._exists(bn):
                return bytes((1 << i, 0xA8))
        macs = [bn for bn in blocks if bn in (MAC, MAC_A)]
        if len(macs) > 1 or (macs and blocks[-1] != macs[0]):
            # MAC and MAC_A exclude each other; the MAC block comes last
            return bytes((1 << blocks.index(macs[-1]), 0xA8))
        if self.lite_s:
            restr = self.mem[MC][6] | self.mem[MC][7] << 8
            for i, bn in enumerate(blocks):
                if bn <= REG and restr >> bn & 1 and not self.ext_auth:
                    return bytes((1 << i, 0xB1))
        data = b''.join(self._content(bn) for bn in blocks if bn not in macs)
        out = data
        if macs == [MAC]:
            out += mac_read(self.sk(), self.rc, data) + bytes(8)
        elif macs == [MAC_A]:
            out += mac_a_read(self.sk(), self.rc, blocks, data) + bytes(8)
        return bytes((0, 0, len(blocks))) + out

    def _write(self, d):
        p = self._parse_lists(d, (0x0009,), 2 if self.lite_s else 1)
        if not isinstance(p[0], list):
            return bytes(p)
        blocks, data = p
        if len(data) != 16 * len(blocks):
            return bytes((0xFF, 0xA9))
        with_mac_a = False
        if len(blocks) == 2:
            if blocks[1] != MAC_A or blocks[0] == MAC_A:
                return bytes((0x02, 0xA8))
            with_mac_a = True
        bn, new = blocks[0], bytearray(data[0:16])
        if bn == MAC_A or not self._exists(bn) or bn in (MAC, WCNT, CRC_CHECK,
                                                         D_ID):
            return bytes((0x01, 0xA8))
        mc = self.mem[MC]
        if with_mac_a:
            want = mac_a_write(self.sk(), self.rc, self.mem[WCNT][0:3], bn,
                               new)
            if bytes(data[16:24]) != want:
                if bn == STATE:
                    self.ext_auth = 0
                return bytes((0x02, 0xB2))
        # permission
        if bn == RC:
            pass
        elif bn == STATE:
            if mc[12] == 0x01 and not with_mac_a:
                return bytes((0x01, 0xB2))
        elif bn <= REG:
            if not (mc[0] | mc[1] << 8) >> bn & 1:
                return bytes((0x01, 0xA8))
            if self.lite_s:
                if (mc[8] | mc[9] << 8) >> bn & 1 and not self.ext_auth:
                    return bytes((0x01, 0xB1))
                if (mc[10] | mc[11] << 8) >> bn & 1 and not with_mac_a:
                    return bytes((0x01, 0xB2))
        else:                              # ID SER_C SYS_C CKV CK MC
            if mc[2] != 0xFF:
                if not (self.lite_s and bn in (CK, CKV) and mc[5] == 0x01
                        and with_mac_a and self.ext_auth):
                    return bytes((0x01, 0xA8))
        # effect
        if bn == RC:
            self.rc = new
            self._sk = None
            self.ext_auth = 0
        elif bn == STATE:
            self.ext_auth = new[0] & 1
        elif bn == MC:
            new[0] &= mc[0]                # one-way permission bits
            new[1] &= mc[1]
            self.mem[MC] = new
        else:
            self.mem[bn] = new
            if bn == CK:
                self._sk = None
        # wcnt_mode: which writes advance the write counter.  'mac': only
        # writes with MAC_A; 'nvm': also plain writes to non-volatile blocks;
        # 'all': every accepted write (RC and STATE too).  A reader must work
        # with all three (it reads WCNT before it computes MAC_A).
        mode = getattr(self, 'wcnt_mode', 'mac')
        if self.lite_s and (with_mac_a or mode == 'all' or (
                mode == 'nvm' and bn not in (RC, STATE))):
            c = int.from_bytes(self.mem[WCNT][0:3], 'little') + 1
            self.mem[WCNT][0:3] = (c & 0xFFFFFF).to_bytes(3, 'little')
        self.writes.append((bn, bytes(new)))
        return bytes((0, 0))


# Vectors found in /repo/tests/test_tag_tt3_sony.py (mock transcripts: card
# key "0123456789abcdef", challenge 00..0F, WCNT 00FEFF; and the
# generate_mac unit test).  Data only -- used to validate this model.
REPO_VECTORS = {
    'mac(ID)': ('0102030405060708' + '00' * 8, '91aec5b6d9b3b12d'),
    'mac(zero block)': ('00' * 16, 'cc97f1b97b8bbc79'),
    'mac(STATE=01)': ('01' + '00' * 15, 'bd73eb7294a00279'),
    'mac(attribute block)': ('10040100030000000000010000000019',
                             'a622c337a4e44271'),
}


def vector_check():
    """Returns the number of vectors that agree; raises on disagreement."""
    t = FelicaLiteTag(lite_s=True, idm=bytes.fromhex('0102030405060708'),
                      card_key=b'0123456789abcdef')
    c = bytes(range(16))                       # challenge RC1 || RC2, DES order
    t.command(bytes([0x20, 0x08]) + t.idm + bytes.fromhex('010900018080')
              + c[0:8][::-1] + c[8:16][::-1])
    n = 0
    for name, (data, mac) in sorted(REPO_VECTORS.items()):
        got = mac_read(t.sk(), t.rc, bytes.fromhex(data)).hex()
        if got != mac:
            raise AssertionError('%s: %s != %s' % (name, got, mac))
        n += 1
    got = mac_a_write(t.sk(), t.rc, bytes.fromhex('00feff'), STATE,
                      b'\x01' + bytes(15)).hex()
    if got != '17c19e3bbdc3e8bd':
        raise AssertionError('mac_a(write STATE): %s' % got)
    n += 1
    sk = (0x0001020304050607, 0x08090A0B0C0D0E0F)
    rcb = bytes(range(8))[::-1] + bytes(8)
    for key, want in ((sk, '0b1268d7a4ac6932'),
                      ((sk[1], sk[0]), '18cdd33c0fb25dd7')):
        got = mac_read(key, rcb, bytes(range(32))).hex()
        if got != want:
            raise AssertionError('generate_mac vector: %s != %s' % (got, want))
        n += 1
    return n
