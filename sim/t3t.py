"""Type 3 Tag (FeliCa) simulators.

Type3TagSim      byte-array memory of 16-byte blocks (block 0 = attribute
                 information block) with Polling, Read/Write Without Encryption
                 on the NDEF services (000Bh read-only, 0009h read/write), the
                 per-command block limits of the product (`nbr`, `nbw`), 2- and
                 3-byte block list elements and status flags.
LibraryT3TSim    the same role played by the library itself:
                 nfc.tag.tt3.Type3TagEmulation.process_command() with NDEF
                 service callbacks like examples/tagtool.py (emulate tt3).

Frames are `LEN CMD ...` as handed to clf.exchange.  Byte address of block b
is 16*b in sim.mem.
"""
from .tagsim import TagSim

SC_READ = 0x000B
SC_WRITE = 0x0009


def attribute_block(ver=0x10, nbr=1, nbw=1, nmaxb=1, writef=0, rwflag=1, ln=0,
                    rfu=0):
    a = bytearray(16)
    a[0], a[1], a[2] = ver, nbr, nbw
    a[3], a[4] = nmaxb >> 8, nmaxb & 255
    a[5:9] = bytes([rfu]) * 4
    a[9], a[10] = writef, rwflag
    a[11], a[12], a[13] = ln >> 16 & 255, ln >> 8 & 255, ln & 255
    s = sum(a[0:14])
    a[14], a[15] = s >> 8, s & 255
    return a


class Type3TagSim(TagSim):
    KIND = 'T3T'

    def __init__(self, mem, nbr=1, nbw=1, idm=None, pmm=None, sys=0x12FC,
                 writable=True):
        TagSim.__init__(self)
        self.mem = bytearray(mem)
        assert len(self.mem) % 16 == 0 and len(self.mem) >= 16
        self.nblocks = len(self.mem) // 16
        self.nbr = nbr
        self.nbw = nbw
        # manufacturer 02FE (not the NFC-DEP 01FE), IC code FF: generic tag
        self.idm = bytes(idm or bytes.fromhex('02FE010203040506'))
        self.pmm = bytes(pmm or bytes.fromhex('00FF4B024F4993FF'))
        self.sys = sys
        self.writable = writable

    def target(self):
        import nfc.clf
        return nfc.clf.RemoteTarget(
            '212F', sensf_res=bytearray(
                b'\x01' + self.idm + self.pmm + self.sys.to_bytes(2, 'big')))

    def name_of(self, cmd):
        if len(cmd) < 2:
            return 'SHORT'
        return {0: 'POLLING', 6: 'READ', 8: 'WRITE'}.get(cmd[1], 'UNKNOWN')

    def execute(self, cmd, ctx):
        ctx.name = self.name_of(cmd)
        if len(cmd) < 2 or cmd[0] != len(cmd):
            return None
        code = cmd[1]
        if code == 0x00:
            if len(cmd) != 6:
                return None
            own = self.sys
            if not ((cmd[2] in (0xFF, own >> 8)) and (cmd[3] in (0xFF, own & 255))):
                return None
            rsp = self.idm + self.pmm
            if cmd[4] == 1:
                rsp += own.to_bytes(2, 'big')
            elif cmd[4] == 2:
                rsp += b'\x00\x83'
            return bytes([2 + len(rsp), 0x01]) + rsp
        if code in (0x06, 0x08):
            if len(cmd) < 12 or cmd[2:10] != self.idm:
                return None
            st, data = self._rw(ctx, code, cmd[10:])
            return bytes([12 + len(data), code + 1]) + self.idm + bytes(st) + data
        return None

    def _rw(self, ctx, code, p):
        """returns ((flag1, flag2), data)"""
        try:
            nsvc = p[0]
            if not 1 <= nsvc <= 16:
                return (0xFF, 0xA1), b''
            svcs = [p[1 + 2 * i] | p[2 + 2 * i] << 8 for i in range(nsvc)]
            i = 1 + 2 * nsvc
            nblk = p[i]
            i += 1
            limit = self.nbr if code == 0x06 else self.nbw
            if not 1 <= nblk <= limit:
                return (0xFF, 0xA2), b''
            blocks = []
            for k in range(nblk):
                b0 = p[i]
                if b0 & 0x80:
                    num = p[i + 1]
                    i += 2
                else:
                    num = p[i + 1] | p[i + 2] << 8
                    i += 3
                if b0 & 0x70:
                    return (1 << (k % 8), 0xA7), b''    # illegal access mode
                if (b0 & 0x0F) >= nsvc:
                    return (1 << (k % 8), 0xA3), b''
                svc = svcs[b0 & 0x0F]
                ok = (svc == SC_READ and code == 0x06) or \
                    (svc == SC_WRITE and self.writable)
                if not ok:
                    return (1 << (k % 8), 0xA6), b''
                if num >= self.nblocks:
                    if code == 0x08:
                        self.damage.append('write to non existing block %d' % num)
                    return (1 << (k % 8), 0xA8), b''
                blocks.append(num)
        except IndexError:
            return (0xFF, 0xA1), b''        # truncated command
        if code == 0x06:
            if i != len(p):
                return (0xFF, 0xA1), b''
            out = bytearray()
            for b in blocks:
                out += self.mem[16 * b:16 * b + 16]
            return (0, 0), bytes([nblk]) + bytes(out)
        data = p[i:]
        if len(data) != 16 * nblk:
            return (0xFF, 0xA9), b''
        for k, b in enumerate(blocks):
            new = data[16 * k:16 * k + 16]
            old = bytes(self.mem[16 * b:16 * b + 16])
            self.mem[16 * b:16 * b + 16] = new
            self.record_write(ctx, 16 * b, old, new, new)
        ctx.changed = True
        ctx.info['blocks'] = blocks
        return (0, 0), b''


class LibraryT3TSim(TagSim):
    """Type 3 Tag served by nfc.tag.tt3.Type3TagEmulation with the NDEF
    service callbacks of examples/tagtool.py.  `mem` = attribute block +
    data area (tagtool's options.tt3_data)."""
    KIND = 'T3T-emulation'

    def __init__(self, mem, idm=None, pmm=None, sys=0x12FC):
        TagSim.__init__(self)
        self.mem = bytearray(mem)
        assert len(self.mem) % 16 == 0
        self.idm = bytes(idm or bytes.fromhex('03FEFFE011223344'))
        self.pmm = bytes(pmm or bytes.fromhex('00FF4B024F4993FF'))
        self.sys = sys
        self._ctx = None
        self.emu = None
        self.power_cycle()

    def sensf_res(self):
        return bytearray(b'\x01' + self.idm + self.pmm
                         + self.sys.to_bytes(2, 'big'))

    def power_cycle(self):
        import nfc.clf
        import nfc.tag.tt3
        tt3_cmd = bytearray(b'\x00') + self.sys.to_bytes(2, 'big') + b'\x00\x00'
        local = nfc.clf.LocalTarget('212F', sensf_res=self.sensf_res(),
                                    tt3_cmd=tt3_cmd)
        emu = nfc.tag.tt3.Type3TagEmulation(None, local)
        sim = self

        def ndef_read(block_number, rb, re):
            if block_number < len(sim.mem) / 16:
                first, last = block_number * 16, (block_number + 1) * 16
                return sim.mem[first:last]

        def ndef_write(block_number, block_data, wb, we):
            if block_number < len(sim.mem) / 16:
                first, last = block_number * 16, (block_number + 1) * 16
                old = bytes(sim.mem[first:last])
                sim.mem[first:last] = block_data
                sim.record_write(sim._ctx, first, old, block_data, block_data)
                sim._ctx.changed = True
                return True
            sim.damage.append('write to non existing block %d' % block_number)

        emu.add_service(0x0009, ndef_read, ndef_write)
        emu.add_service(0x000B, ndef_read, lambda: False)
        self.emu = emu

    def target(self):
        import nfc.clf
        return nfc.clf.RemoteTarget('212F', sensf_res=self.sensf_res())

    def name_of(self, cmd):
        if len(cmd) < 2:
            return 'SHORT'
        return {0: 'POLLING', 6: 'READ', 8: 'WRITE'}.get(cmd[1], 'UNKNOWN')

    def execute(self, cmd, ctx):
        ctx.name = self.name_of(cmd)
        self._ctx = ctx
        rsp = self.emu.process_command(bytearray(cmd))
        return None if rsp is None else bytes(rsp)
