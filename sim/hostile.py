"""Hostile-mode wrappers of the stateful tag simulators (used by C08).

Nothing here changes the simulators of sim/t?t.py; the classes below subclass
them and add what "a tag that lies" needs:

  BudgetClf          FakeClf with a command budget: the (budget+1)-th exchange
                     or sense raises `Unbounded`, a BaseException subclass no
                     `except Exception` / `except CommunicationError` of the
                     library can swallow.
  HostileT1          Type 1 Tag whose RID/RALL header ROM is any HR0/HR1 pair
                     whatever the memory size (the stock simulator couples
                     the two with an assertion).
  HostileT3          Type 3 Tag whose SENSF_RES is chosen independently of the
                     system the tag really answers for (with / without system
                     code, any IC code, any announced system code).
  HostileT4          Type 4 Tag with a chosen ATS (any bytes) / SENSB_RES (12
                     or 13 bytes, any protocol-info nibbles) / ATTRIB answer,
                     and a READ BINARY policy:
                       exact   what the T4T specification says (stock)
                       zero    answers `9000` without data          (empty)
                       half    answers max(1, Le // 2) bytes
                       plus    ignores Le: answers up to Le + 3 bytes of the
                               file (real file content, in order)
                       dup     answers the Le bytes asked for twice
                     (zero and dup only for reads of the NDEF file at an
                     offset > 0, i.e. for the message, so that the reader
                     gets that far)
                     `case1='9000'`: READ BINARY without Le field (what a
                     reader sends for MLe = 0) is answered `9000` as ISO/IEC
                     7816-4 defines for a case 1 command, instead of 6700.

All answers are well framed: Type 1 answers keep their fixed length, Type 2
READ answers have 16 bytes or are a 4-bit ACK/NAK, Type 3 answers carry a
correct LEN byte and response code, ISO-DEP answers are syntactically valid
blocks.  nfc modules are imported lazily.
"""
from . import tagsim, t1t, t3t, t4t


class Unbounded(BaseException):
    """Command budget exceeded."""


class BudgetClf(tagsim.FakeClf):
    def __init__(self, sim, budget, **kw):
        tagsim.FakeClf.__init__(self, sim, **kw)
        self.budget = budget
        self.used = 0

    def _spend(self):
        self.used += 1
        if self.used > self.budget:
            raise Unbounded(self.used)

    def exchange(self, send_data, timeout):
        self._spend()
        return tagsim.FakeClf.exchange(self, send_data, timeout)

    def sense(self, *targets, **options):
        self._spend()
        return tagsim.FakeClf.sense(self, *targets, **options)


def activate(sim, budget, **clf_args):
    """Like tagsim.activate() but with a budget; returns (clf, tag)."""
    import nfc.tag
    sim.power_cycle()
    clf = BudgetClf(sim, budget, **clf_args)
    return clf, nfc.tag.activate(clf, sim.target())


# ---------------------------------------------------------------------------
class HostileT1(t1t.Type1TagSim):
    def __init__(self, mem, hr):
        # construct with a header the stock assertion accepts, then lie
        t1t.Type1TagSim.__init__(
            self, mem, hr=(0x11, 0x48) if len(mem) == 120 else (0x12, 0x4C))
        self.hr = bytes(hr)
        # the command set follows the physical memory, not the header ROM
        self.dynamic = len(self.mem) > 120


# ---------------------------------------------------------------------------
class HostileT3(t3t.Type3TagSim):
    """sensf = (with_sys, announced_sys, idm, pmm): what discovery saw."""

    def __init__(self, mem, nbr, nbw, sensf=None, poll_tail=None, **kw):
        t3t.Type3TagSim.__init__(self, mem, nbr=nbr, nbw=nbw, **kw)
        self.sensf = sensf
        # poll_tail: octets appended to (negative: cut from) every Polling
        # response, whatever the request code asked for - well framed
        self.poll_tail = poll_tail

    def execute(self, cmd, ctx):
        rsp = t3t.Type3TagSim.execute(self, cmd, ctx)
        if rsp is not None and len(cmd) >= 2 and cmd[1] == 0x00 and \
                self.poll_tail is not None:
            body = rsp[1:]
            if isinstance(self.poll_tail, int):
                body = body[:self.poll_tail]
            else:
                body = body + bytes(self.poll_tail)
            rsp = bytes([1 + len(body)]) + body
        return rsp

    def target(self):
        import nfc.clf
        if self.sensf is None:
            return t3t.Type3TagSim.target(self)
        with_sys, sysc = self.sensf
        res = b'\x01' + self.idm + self.pmm
        if with_sys:
            res += sysc.to_bytes(2, 'big')
        return nfc.clf.RemoteTarget('212F', sensf_res=bytearray(res))


# ---------------------------------------------------------------------------
def ats(subset, hist, tl, fsci, fwi, ta=0x80, sfgi=0, tc=0x02):
    """ATS with interface bytes `subset` (string of 'A','B','C'), `hist`
    historical bytes, TL 'ok' | 'short' | 'long' (TL one less / one more than
    the real length)."""
    t0 = (fsci & 15) | (0x10 if 'A' in subset else 0) | \
        (0x20 if 'B' in subset else 0) | (0x40 if 'C' in subset else 0)
    body = bytearray([t0])
    if 'A' in subset:
        body.append(ta)
    if 'B' in subset:
        body.append((fwi & 15) << 4 | (sfgi & 15))
    if 'C' in subset:
        body.append(tc)
    body += bytes([0x80, 0x4E, 0x58][:hist])
    n = 1 + len(body)
    n += {'ok': 0, 'short': -1, 'long': 1}[tl]
    return bytes([n]) + bytes(body)


class HostileT4(t4t.Type4TagSim):
    def __init__(self, cc, ndef_file, ats_bytes=None, sensb=None,
                 attrib_res=b'\x00', le_policy='exact', case1='6700',
                 wide_offset=False, **kw):
        t4t.Type4TagSim.__init__(self, cc, ndef_file, **kw)
        # wide_offset: P1-P2 of READ BINARY is taken as a 16 bit offset (bit
        # 8 of P1 is not refused as a short file identifier)
        self.wide_offset = wide_offset
        self.ats_bytes = ats_bytes
        self.sensb = sensb          # (nbytes, fsci, fwi, ptype, fo)
        self.attrib_res = bytes(attrib_res)
        self.le_policy = le_policy
        self.case1 = case1
        if ats_bytes is not None and len(ats_bytes) >= 2:
            # the frame size the card really has is what a conformant reader
            # decodes from T0 (FSCI 9..15 are RFU: 256)
            self.fsc = t4t.FSC_TABLE[min(ats_bytes[1] & 15, 8)]
        if sensb is not None:
            self.fsc = t4t.FSC_TABLE[min(sensb[1], 8)]

    def target(self):
        import nfc.clf
        if self.tech == 'B' and self.sensb is not None:
            n, fsci, fwi, ptype, fo = self.sensb
            res = (b'\x50' + self.pupi + b'\x00\x00\x00\x00' +
                   bytes([0x00, (fsci & 15) << 4 | (ptype & 15),
                          (fwi & 15) << 4 | (fo & 15)]))
            if n == 13:
                res += b'\x40'                  # extended: SFGI nibble
            return nfc.clf.RemoteTarget('106B', sensb_res=bytearray(res))
        return t4t.Type4TagSim.target(self)

    def execute(self, cmd, ctx):
        was_active = self.active
        rsp = t4t.Type4TagSim.execute(self, cmd, ctx)
        if not was_active and self.active and rsp is not None:
            if self.tech == 'A' and self.ats_bytes is not None:
                return bytes(self.ats_bytes)
            if self.tech == 'B':
                return self.attrib_res
        return rsp

    def _apdu_exec(self, apdu, ctx):
        if self.wide_offset and len(apdu) == 5 and apdu[0] == 0x00 \
                and apdu[1] == 0xB0 and self.cur is not None \
                and apdu[2] & 0x80:
            f = self.files[self.cur]
            off, le = apdu[2] << 8 | apdu[3], apdu[4] or 256
            if off > len(f):
                return b'\x6B\x00'
            if le > max(self.mle, 15) or off + le > len(f):
                return b'\x67\x00'
            return bytes(f[off:off + le]) + b'\x90\x00'
        if len(apdu) >= 4 and apdu[0] == 0x00 and apdu[1] == 0xB0 \
                and self.cur is not None and not apdu[2] & 0x80:
            if len(apdu) == 4 and self.case1 == '9000':
                return b'\x90\x00'
            if len(apdu) == 5 and self.le_policy != 'exact' and (
                    self.le_policy in ('half', 'plus') or
                    (self.cur == self.fid and (apdu[2] or apdu[3]))):
                le = apdu[4] or 256
                f = self.files[self.cur]
                off = apdu[2] << 8 | apdu[3]
                if off <= len(f) and le <= max(self.mle, 15) \
                        and off + le <= len(f):
                    if self.le_policy == 'zero':
                        n = 0
                    elif self.le_policy == 'half':
                        n = max(1, le // 2)
                    elif self.le_policy == 'dup':
                        return bytes(f[off:off + le]) * 2 + b'\x90\x00'
                    else:
                        n = min(le + 3, len(f) - off)
                    return bytes(f[off:off + n]) + b'\x90\x00'
        return t4t.Type4TagSim._apdu_exec(self, apdu, ctx)
