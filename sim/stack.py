"""Two complete nfcpy stacks on one virtual air.

Each side is a real ContactlessFrontend('udp:...') -> real nfc.clf.udp driver
(on the in-memory sockets of sim/air.py) -> real NFC-DEP -> real LLC, running
connect(llcp=...) in a virtual thread under the default schedule.
"""
from mc import sched, shims
from sim import air

PORT = 54321


def parse_air(log):
    """[(src, dst, brty, frame bytes)] from the datagram log."""
    out = []
    for src, dst, data in log:
        parts = data.split()
        brty = parts[0].decode('latin')
        frame = bytes.fromhex(parts[1].decode('latin')) if len(parts) > 1 else b''
        out.append((src, dst, brty, frame))
    return out


# DID[0] = n: the initiator assigns device identifier n in ATR_REQ (connect()
# has no option for it; a foreign initiator may do so)
DID = [None]
NAD = [None]      # a (foreign) initiator may also use a node address
_patched = []


def _patch_initiator():
    import nfc.dep
    if _patched:
        return
    base = nfc.dep.Initiator

    class Initiator(base):
        def activate(self, target=None, **options):
            if DID[0] is not None:
                options.setdefault('did', DID[0])
            if NAD[0] is not None:
                options.setdefault('nad', NAD[0])
            return base.activate(self, target, **options)
    nfc.dep.Initiator = Initiator
    _patched.append(base)


def run_pair(ini_llcp, tgt_llcp, ini_app=None, tgt_app=None, horizon=30.0,
             fate=None, chooser=None, urandom=None, max_steps=200000,
             give_up=None):
    """Run connect(llcp=...) on both sides.

    ini_app / tgt_app: f(llc, ctx) called from 'on-connect' (return value is
    on-connect's return value) - may start virtual threads.  `ctx` is the
    shared result dict; ctx['stop'] = True ends both connect() loops.
    Returns (sched, ctx, net)."""
    import nfc
    import nfc.clf
    _patch_initiator()
    net = air.new_net(fate)
    shims.set_urandom(urandom)
    s = sched.Sched(chooser or sched.Chooser(), max_steps=max_steps,
                    max_time=1000.0 + horizon, timer_deviations=False)
    s.quiet = chooser is None
    ctx = dict(stop=False, result={}, error={}, llc={})

    # terminate() turns true at `give_up` (virtual seconds); what is still
    # running at `horizon` is stuck
    give_up = horizon - 1.0 if give_up is None else give_up

    def terminate():
        return ctx['stop'] or s.now > 1000.0 + give_up

    def side(name, options, app):
        def body():
            try:
                clf = nfc.ContactlessFrontend('udp:localhost:%d' % PORT)
            except sched.Abort:
                raise
            except BaseException as e:
                ctx['error'][name] = e
                return
            opts = dict(options)

            def on_connect(llc):
                ctx['llc'][name] = llc
                if app is None:
                    return False
                return app(llc, ctx)
            opts['on-connect'] = on_connect
            try:
                ctx['result'][name] = clf.connect(llcp=opts,
                                                  terminate=terminate)
                after = ctx.get('after_' + name)
                if after:
                    after(clf, ctx)
            except sched.Abort:
                raise
            except BaseException as e:       # judged by the caller
                ctx['error'][name] = e
            finally:
                try:
                    clf.close()
                except sched.Abort:
                    raise
                except Exception:
                    pass
        return body

    # (an explicit 'role' in the options wins: role None makes that side try
    # the Target role first and the Initiator role when nobody polled it)
    s.spawn(side('tgt', dict(dict(role='target'), **tgt_llcp), tgt_app), 'tgt')
    s.spawn(side('ini', dict(dict(role='initiator'), **ini_llcp), ini_app),
            'ini')
    s.ctx = ctx
    return s, ctx, net
