"""Two real LogicalLinkControllers joined without RF, and a sequential pump.

Trusted base of C10, C17 (and the sequential half of C05):

  * `make_pair(a_opts, b_opts)` constructs `LogicalLinkController(**opts)`
    twice and calls the real `activate(mac)` on both with a minimal pair MAC
    (subclasses of `nfc.dep.Initiator` / `nfc.dep.Target`, because
    `llc.activate` asserts the type) whose `activate()` returns the general
    bytes the *peer's* real `activate()` produced.  Nothing in `cfg` is set by
    the harness: send-miu, recv-lto, ... are what the real PAX parsing left.
  * `xfer(src, dst)` is one link exchange event in one direction: the real
    `src.collect()` -> `pdu.encode` -> `pdu.decode` -> `dst.dispatch()`.
    It returns a `Frame` (collected PDU, octets, decoded PDU, the leaf PDUs
    the receiver dispatched) or None when src had nothing to send (SYMM).
  * `run_blocking(op, x, y)` runs a blocking library call (`connect`,
    `resolve`, `accept`, `close` of an established connection, ...) in a
    virtual thread of mc.sched.Sched while a second virtual thread pumps the
    link x->y, y->x until the call returned and the link is quiet, or until
    the link is quiet while the call still waits (then the call is blocked
    for good: nothing but link traffic could wake it).  A blocked call is
    unwound by the scheduler (Abort at its wait()), which leaves exactly the
    library state of "caller still waiting" minus the waiter.
  * `seq_call(fn)` calls a possibly blocking library function on the
    controller thread; the virtual Condition.wait() raises HarnessError there,
    which unwinds the call at the point where a real caller would sleep - the
    non-blocking first half of resolve()/connect()/close().

nfc modules are imported inside functions only (see BUILDING.md).
"""
from mc import sched

_cls = {}


def classes():
    """The pair MAC classes and the recording controller class (built on
    first use: nfc must have been imported under the shims before)."""
    if _cls:
        return _cls
    import nfc.dep
    import nfc.llcp.llc as llc

    class PairInitiator(nfc.dep.Initiator):
        def __init__(self, peer_gb):
            nfc.dep.Initiator.__init__(self, None)
            self.peer_gb = peer_gb
            self.sent_gb = None
            self.deactivated = False

        def activate(self, target=None, **options):
            self.sent_gb = bytes(options['gbi'])
            self.gbt = self.peer_gb
            return self.peer_gb

        def exchange(self, send_data, timeout):
            raise sched.HarnessError("pair MAC: exchange() is not used, the "
                                     "link is pumped by sim.llcpump.xfer")

        def deactivate(self, release=True):
            self.deactivated = True

    class PairTarget(nfc.dep.Target):
        def __init__(self, peer_gb):
            nfc.dep.Target.__init__(self, None)
            self.peer_gb = peer_gb
            self.sent_gb = None
            self.rwt = 4096 / 13.56E6 * 2 ** 8
            self.deactivated = False

        def activate(self, timeout=None, **options):
            self.sent_gb = bytes(options['gbt'])
            self.gbi = self.peer_gb
            return self.peer_gb

        def exchange(self, send_data, timeout):
            raise sched.HarnessError("pair MAC: exchange() is not used")

        def deactivate(self, data=bytearray()):
            self.deactivated = True

    class RecordingLLC(llc.LogicalLinkController):
        """The real controller; dispatch() additionally logs every leaf PDU
        it is called with (aggregates are logged through the recursion of the
        real dispatch) - this is the 'PDU sequence dispatched at the
        receiver' of C10."""
        def __init__(self, **options):
            llc.LogicalLinkController.__init__(self, **options)
            self.dispatched = []

        def dispatch(self, rcvd_pdu):
            if rcvd_pdu is not None and rcvd_pdu.name != "AGF":
                self.dispatched.append(rcvd_pdu)
            return llc.LogicalLinkController.dispatch(self, rcvd_pdu)

    for c in (PairInitiator, PairTarget, RecordingLLC):
        c.__qualname__ = c.__name__
        globals()[c.__name__] = c
        _cls[c.__name__] = c
    return _cls


def general_bytes(options, role='initiator', setup=None):
    """The general bytes a controller built with `options` (and prepared by
    `setup`) sends."""
    import nfc.llcp.llc as llc
    k = classes()
    mac = (k['PairInitiator'] if role == 'initiator' else k['PairTarget'])(None)
    scratch = llc.LogicalLinkController(**options)
    if setup is not None:
        setup(scratch)
    scratch.activate(mac)
    return mac.sent_gb


def make_pair(a_opts, b_opts, a_cls=None, b_cls=None, a_setup=None):
    """(A, B): A activated as NFC-DEP initiator, B as target, by their real
    activate().  a_setup(A) runs before the activation (sockets bound there
    are announced in A's well-known service list)."""
    import nfc.llcp.llc as llc
    k = classes()
    a_cls = a_cls or llc.LogicalLinkController
    b_cls = b_cls or llc.LogicalLinkController
    gb_a = general_bytes(a_opts, 'initiator')
    gb_b = general_bytes(b_opts, 'target')
    a, b = a_cls(**a_opts), b_cls(**b_opts)
    if a_setup is not None:
        a_setup(a)
        gb_a = general_bytes(a_opts, 'initiator', setup=a_setup)
    ok_a = a.activate(k['PairInitiator'](gb_b))
    ok_b = b.activate(k['PairTarget'](gb_a))
    if not (ok_a and ok_b and a.link.CONNECTED and b.link.CONNECTED):
        raise sched.HarnessError("pair activation failed")
    if a.mac.sent_gb != gb_a or b.mac.sent_gb != gb_b:
        raise sched.HarnessError("general bytes are not a function of options")
    if a.cfg['send-miu'] != b.cfg['recv-miu'] or \
            b.cfg['send-miu'] != a.cfg['recv-miu']:
        raise sched.HarnessError("MIU negotiation: %r %r" % (a.cfg, b.cfg))
    # what the run loops set after the first exchange (no data protection:
    # both are built with sec=False by the callers, self.sec stays None)
    a.link.ESTABLISHED = True
    b.link.ESTABLISHED = True
    return a, b


class Frame(object):
    __slots__ = ('sent', 'octets', 'rcvd', 'dispatched', 'error')

    def __init__(self, sent, octets, rcvd, dispatched, error=None):
        self.sent = sent              # what collect() returned
        self.octets = octets          # pdu.encode(sent)
        self.rcvd = rcvd              # pdu.decode(octets)
        self.dispatched = dispatched  # leaf PDUs seen by dst.dispatch or None
        self.error = error            # EncodeError/DecodeError instance

    def leaves_sent(self):
        return flatten(self.sent)


def flatten(p):
    """Leaf PDUs of a collected PDU (what dispatch() will hand out)."""
    if p is None:
        return []
    if p.name == "AGF":
        out = []
        for q in p:
            out.extend(flatten(q))
        return out
    return [p]


def xfer(src, dst, observe=None):
    """One exchange event src -> dst with the real collect/encode/decode/
    dispatch.  A PDU that cannot be encoded or decoded is not delivered (the
    real run loop logs the pdu.Error and then ends the link); it is returned
    with `error` set so that the caller decides."""
    import nfc.llcp.pdu as pdu
    sent = src.collect()
    if sent is None:
        return None
    try:
        octets = pdu.encode(sent)
        rcvd = pdu.decode(octets)
    except pdu.Error as e:
        fr = Frame(sent, None, None, None, e)
        if observe is not None:
            observe(src, dst, fr)
        return fr
    log = getattr(dst, 'dispatched', None)
    if log is not None:
        del log[:]
    dst.dispatch(rcvd)
    fr = Frame(sent, octets, rcvd, list(log) if log is not None else None)
    if log is not None:
        del log[:]
    if observe is not None:
        observe(src, dst, fr)
    return fr


def quiesce(x, y, observe=None, after_round=None, max_rounds=64):
    """Sequential pumping x->y, y->x until both have nothing to send.
    Returns the number of rounds, or None if max_rounds was not enough."""
    for r in range(max_rounds):
        f1 = xfer(x, y, observe)
        f2 = xfer(y, x, observe)
        if after_round is not None:
            after_round()
        if f1 is None and f2 is None:
            return r
        if (f1 is not None and f1.error) or (f2 is not None and f2.error):
            return None
    return None


class Outcome(object):
    __slots__ = ('done', 'result', 'exc', 'rounds', 'capped', 'link_error')

    def __init__(self):
        self.done = False       # the call returned or raised
        self.result = None
        self.exc = None         # exception raised by the call
        self.rounds = 0
        self.capped = False     # max_rounds hit while the link was not quiet
        self.link_error = None

    @property
    def blocked(self):
        return not self.done


def run_blocking(op, x, y, observe=None, after_round=None, max_rounds=24):
    """Run op() in a virtual thread while the link x<->y is pumped."""
    out = Outcome()
    s = sched.Sched(sched.Chooser(), timer_deviations=False,
                    max_steps=200000)

    def op_thread():
        try:
            out.result = op()
        except sched.Abort:
            raise
        except Exception as e:
            out.exc = e
        out.done = True

    def pump_thread():
        quiet = 0
        for r in range(max_rounds):
            sched.vsleep(0.001)         # lets the caller run until it waits
            f1 = xfer(x, y, observe)
            f2 = xfer(y, x, observe)
            out.rounds = r + 1
            for f in (f1, f2):
                if f is not None and f.error is not None:
                    out.link_error = f.error
                    return
            if after_round is not None:
                after_round()
            if f1 is None and f2 is None:
                quiet += 1
                # two quiet rounds in a row (the caller ran in between):
                # either the call is through, or nothing but link traffic
                # could wake it and there is none - blocked for good
                if quiet >= 2:
                    return
            else:
                quiet = 0
        out.capped = True

    s.spawn(op_thread, 'op')
    s.spawn(pump_thread, 'pump')
    s.run()
    pump = s.thread('pump')
    if pump.exc is not None and not isinstance(pump.exc, sched.Abort):
        raise pump.exc
    opt = s.thread('op')
    if opt.exc is not None and not isinstance(opt.exc, sched.Abort):
        raise opt.exc
    return out


def seq_call(fn):
    """Call fn() on the controller thread.  Returns ('ok', result),
    ('exc', exception) or ('blocked', None) when the call reached a wait()
    that only another thread could end."""
    try:
        return ('ok', fn())
    except sched.HarnessError as e:
        if 'sequential wait()' in str(e):
            return ('blocked', None)
        raise
    except Exception as e:
        return ('exc', e)
