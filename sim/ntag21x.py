"""NTAG210 / NTAG213 / NTAG216 models for C20 (written from the NXP data
sheets NTAG210_212 and NTAG213_215_216: memory organisation, configuration
pages, GET_VERSION, READ, WRITE, PWD_AUTH, READ_SIG, NAK values).

Memory: pages of 4 octets.  Configuration pages (first one = `cfg`):
    cfg+0  MIRROR  RFU  MIRROR_PAGE  AUTH0
    cfg+1  ACCESS (bit7 PROT, bit6 CFGLCK, bits2..0 AUTHLIM)  RFU RFU RFU
    cfg+2  PWD0..PWD3          (reads back as 00)
    cfg+3  PACK0 PACK1 RFU RFU (PACK reads back as 00)

Password verification: PWD_AUTH (1Bh) with the 4-octet PWD; equal -> the tag
enters the AUTHENTICATED state and answers PACK (2 octets); different -> NAK
and the tag returns to IDLE (mute until it is selected again).  Pages from
AUTH0 on need the AUTHENTICATED state for WRITE, and for READ too if PROT=1.

Modelling decision (stated in the evidence): AUTH0/ACCESS/PWD/PACK are used
as latched when the tag was last activated (`activate()` = RF reset +
selection), so a configuration that is being written does not lock out the
writer half way -- nfcpy's `protect` re-activates the tag for this reason.
AUTHLIM (limit of negative attempts) is not modelled.
"""

ACK = b'\x0A'
NAK_ARG, NAK_CRC, NAK_AUTH, NAK_EE = b'\x00', b'\x01', b'\x04', b'\x05'

PRODUCTS = {
    # name: (total pages, first cfg page, GET_VERSION, CC size octet)
    '210': (20, 16, bytes.fromhex('0004040101000B03'), 0x06),
    '213': (45, 41, bytes.fromhex('0004040201000F03'), 0x12),
    '216': (231, 227, bytes.fromhex('0004040201001303'), 0x6D),
}


class Ntag21x(object):
    def __init__(self, product='213', uid=None, pwd=b'\xFF\xFF\xFF\xFF',
                 pack=b'\x00\x00', auth0=0xFF, prot=False, ndef=b''):
        self.product = product
        self.pages, self.cfg, self.version, cc2 = PRODUCTS[product]
        uid = bytes(uid or bytes.fromhex('04A1B2C3D4E5F6'))
        assert len(uid) == 7 and uid[0] == 0x04
        self.uid = uid
        m = bytearray(4 * self.pages)
        bcc0 = 0x88 ^ uid[0] ^ uid[1] ^ uid[2]
        bcc1 = uid[3] ^ uid[4] ^ uid[5] ^ uid[6]
        m[0:4] = uid[0:3] + bytes([bcc0])
        m[4:8] = uid[3:7]
        m[8:12] = bytes([bcc1, 0x48, 0x00, 0x00])
        m[12:16] = bytes([0xE1, 0x10, cc2, 0x00])
        tlv = bytes([0x03, len(ndef)]) + bytes(ndef) + b'\xFE'
        assert len(ndef) < 255 and 16 + len(tlv) <= 4 * self.user_end()
        m[16:16 + len(tlv)] = tlv
        c = 4 * self.cfg
        m[c:c + 4] = bytes([0x04, 0x00, 0x00, auth0])
        m[c + 4:c + 8] = bytes([0x80 if prot else 0x00, 0, 0, 0])
        m[c + 8:c + 12] = bytes(pwd)
        m[c + 12:c + 16] = bytes(pack) + b'\x00\x00'
        self.mem = m
        self.signature = bytes((0x3C + 5 * i) & 0xFF for i in range(32))
        self.log = []
        self.writes = []
        self.negative_attempts = 0
        self.activate()

    def user_end(self):
        """First page after the user memory."""
        return self.cfg - (0 if self.product == '210' else 1)

    # issuer-side view
    def pwd(self):
        c = 4 * self.cfg
        return bytes(self.mem[c + 8:c + 12])

    def pack(self):
        c = 4 * self.cfg
        return bytes(self.mem[c + 12:c + 14])

    def key(self):
        return self.pwd() + self.pack()

    def auth0(self):
        return self.mem[4 * self.cfg + 3]

    def prot(self):
        return bool(self.mem[4 * self.cfg + 4] & 0x80)

    # volatile
    def activate(self):
        """RF reset and selection: ACTIVE state, configuration latched."""
        self.state = 'ACTIVE'
        self.l_auth0 = self.auth0()
        self.l_prot = self.prot()
        self.l_pwd = self.pwd()
        self.l_pack = self.pack()

    def sdd_res(self):
        return self.uid

    # RF interface: octets without CRC in, octets / 4-bit NAK / None out
    def command(self, data):
        data = bytes(data)
        if self.state == 'IDLE':
            rsp = None
        else:
            rsp = self._command(data)
            if rsp is None or (len(rsp) == 1 and rsp != ACK):
                self.state = 'IDLE'      # every NAK / error ends in IDLE
        self.log.append((data, rsp))
        return rsp

    def _protected(self, page, write):
        if self.state == 'AUTHENTICATED' or page < self.l_auth0:
            return False
        return write or self.l_prot

    def _command(self, d):
        if not d:
            return None
        c = d[0]
        if c == 0x60 and len(d) == 1:
            return self.version
        if c == 0x30 and len(d) == 2:
            page = d[1]
            if page >= self.pages or self._protected(page, False):
                return NAK_ARG
            out = bytearray()
            p = page
            for _ in range(4):
                if p >= self.pages or self._protected(p, False):
                    p = 0                # roll over
                out += self._page_read(p)
                p += 1
            return bytes(out)
        if c == 0x3A and len(d) == 3:
            a, b = d[1], d[2]
            if a > b or b >= self.pages or any(
                    self._protected(p, False) for p in range(a, b + 1)):
                return NAK_ARG
            return b''.join(self._page_read(p) for p in range(a, b + 1))
        if c == 0xA2 and len(d) == 6:
            page, new = d[1], bytearray(d[2:6])
            if page < 2 or page >= self.pages or self._protected(page, True):
                return NAK_ARG
            o = 4 * page
            if page == 2:                # static lock bytes: one-way
                new[0:2] = self.mem[o:o + 2]
                new[2] |= self.mem[o + 2]
                new[3] |= self.mem[o + 3]
            elif page == 3:              # capability container: OTP
                new = bytearray(x | y for x, y in zip(new, self.mem[o:o + 4]))
            elif self.cfg <= page < self.cfg + 2 and \
                    self.mem[4 * self.cfg + 4] & 0x40:
                return NAK_ARG           # CFGLCK
            self.mem[o:o + 4] = new
            self.writes.append((page, bytes(new)))
            return ACK
        if c == 0x1B and len(d) == 5:
            if bytes(d[1:5]) == self.l_pwd:
                self.state = 'AUTHENTICATED'
                return self.l_pack
            self.negative_attempts += 1
            return NAK_ARG
        if c == 0x3C and len(d) == 2:
            return self.signature
        return None                      # unknown command: no answer, IDLE

    def _page_read(self, p):
        o = 4 * p
        if p == self.cfg + 2:
            return bytes(4)
        if p == self.cfg + 3:
            return bytes(2) + bytes(self.mem[o + 2:o + 4])
        return bytes(self.mem[o:o + 4])
