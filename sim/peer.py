"""Scripted LLCP peer + MAC stand-ins for harnesses where NFC-DEP is not the
subject (C05 threaded part, C09).

`Peer` is a plain object (no thread): `respond(frame) -> frame` implements the
small part of LLCP a conforming remote device needs so that local blocking
calls can make progress (CC for CONNECT, SDRES for SDREQ, RR for I, DM for
DISC), can stay silent on purpose (a peer may delay any answer arbitrarily),
and can originate CONNECT/I/UI PDUs from a script.

`make_mac_classes()` returns subclasses of nfc.dep.Initiator / Target whose
`exchange` talks to a Peer; an exchange takes virtual time (it is a blocking
scheduling point like real I/O).
"""
import collections

from mc import sched

SYMM = b'\x00\x00'
DISC00 = b'\x01\x40'


def hdr(dsap, ptype, ssap):
    return bytes([(dsap << 2) | (ptype >> 2), ((ptype & 3) << 6) | ssap])


class Peer(object):
    def __init__(self, miu=128, lto=100, rw=1, ack=True, answer=True,
                 script=None, io_time=0.002):
        self.miu, self.lto, self.rw = miu, lto, rw
        self.ack = ack                # acknowledge I PDUs / answer DISC
        self.answer = answer          # answer CONNECT / SDREQ for known names
        self.out = collections.deque()
        self.script = dict(script or {})   # exchange index -> list of frames
        self.n = 0
        self.io_time = io_time
        self.rcvd = []                # every non-SYMM PDU received (decoded)
        self.vr = {}                  # (dsap, ssap) -> next expected N(S)
        self.vs = {}
        self.known_names = {b'urn:nfc:sn:svc': 16}
        self.known_addrs = (16,)
        self.responses = []           # payloads sent as I PDUs, one per
        #                               I PDU received (scripted server)

    def gb(self):
        tlv = bytes([1, 1, 0x13])
        if self.miu != 128:
            tlv += bytes([2, 2]) + (self.miu - 128).to_bytes(2, 'big')
        tlv += bytes([3, 2, 0x00, 0x13])
        tlv += bytes([4, 1, (self.lto // 10) & 0xFF])
        tlv += bytes([7, 1, 0x03])
        return b'Ffm' + tlv

    # -- one link exchange --------------------------------------------------
    def respond(self, frame):
        import nfc.llcp.pdu as pdu
        if frame is not None:
            try:
                p = pdu.decode(bytes(frame))
            except pdu.Error:
                p = None
            if p is not None:
                for q in (p if p.name == 'AGF' else [p]):
                    self.handle(q)
        for f in self.script.get(self.n, ()):
            self.out.append(f)
        self.n += 1
        if self.out:
            return self.out.popleft()
        return SYMM

    def handle(self, p):
        import nfc.llcp.pdu as pdu
        if p.name == 'SYMM':
            return
        self.rcvd.append(p)
        if p.name == 'CONNECT':
            if not self.answer:
                return
            if p.dsap == 1 and p.sn is not None:
                addr = self.known_names.get(bytes(p.sn))
            else:
                addr = p.dsap if p.dsap in self.known_addrs else None
            if addr is None:
                return                      # stays silent
            self.vr[(p.ssap, addr)] = 0
            self.vs[(p.ssap, addr)] = 0
            self.out.append(pdu.ConnectionComplete(
                p.ssap, addr, miu=self.miu, rw=self.rw).encode())
        elif p.name == 'SNL':
            if not self.answer:
                return
            res = []
            for tid, name in p.sdreq:
                if bytes(name) in self.known_names:
                    res.append((tid, self.known_names[bytes(name)]))
            if res:
                self.out.append(pdu.ServiceNameLookup(1, 1, sdres=res).encode())
        elif p.name == 'I':
            key = (p.ssap, p.dsap)
            self.vr[key] = (p.ns + 1) % 16
            if self.responses:
                ns = self.vs.get(key, 0)
                self.vs[key] = (ns + 1) % 16
                self.out.append(pdu.Information(
                    p.ssap, p.dsap, ns, self.vr[key],
                    self.responses.pop(0)).encode())
            elif self.ack:
                self.out.append(pdu.ReceiveReady(
                    p.ssap, p.dsap, self.vr[key]).encode())
        elif p.name == 'DISC':
            if self.ack:
                self.out.append(pdu.DisconnectedMode(
                    p.ssap, p.dsap, 0).encode())
        elif p.name == 'CC':
            pass


class Break(object):
    """How and when the link ends, seen from the MAC."""
    # 'ioerror': one IOError from the host link (the device works again for
    # the deactivation); 'iodead': the device is gone for good - every
    # further I/O, the deactivation's included, raises IOError
    KINDS = ('disc', 'timeout', 'none', 'ioerror', 'bug', 'terminate',
             'iodead')

    def __init__(self, kind, at):
        assert kind in self.KINDS
        self.kind, self.at = kind, at
        self.happened = False
        self.term_calls = 0
        self.gate_open = False     # the break is about to happen

    def terminate(self):
        """The `terminate` callable handed to connect()/run()."""
        if self.happened:
            return True
        if self.kind == 'terminate':
            self.term_calls += 1
            if self.term_calls > self.at:
                self.happened = self.gate_open = True
                return True
        return False


class LinkBug(RuntimeError):
    """Stands for 'an error in the link loop' other than the documented ones."""


def make_mac_classes():
    import nfc.dep
    import nfc.clf

    class Mixin(object):
        peer = None
        brk = None

        def __init__(self, clf=None):
            self.clf = clf
            self.n = 0
            self.deactivated = None
            self.rwt = 0.01
            self.miu = 251
            self.did = self.nad = None
            self._acm = False
            self.gbt = self.gbi = None

        def _io(self, send_data, timeout):
            brk, peer = self.brk, self.peer
            k = self.n
            self.n += 1
            if brk is not None and k >= brk.at and brk.kind != 'terminate':
                brk.gate_open = True
            sched.vsleep(peer.io_time)
            if brk is not None and not brk.happened and k >= brk.at \
                    and brk.kind != 'terminate':
                brk.happened = True
                if brk.kind == 'disc':
                    peer.respond(send_data)
                    return DISC00
                if brk.kind == 'timeout':
                    raise nfc.clf.TimeoutError("scripted link disruption")
                if brk.kind == 'none':
                    return None
                if brk.kind in ('ioerror', 'iodead'):
                    raise IOError(5, "scripted host link failure")
                if brk.kind == 'bug':
                    raise LinkBug("scripted error in the link loop")
            if brk is not None and brk.happened and brk.kind == 'iodead':
                raise IOError(19, "scripted host link failure: device gone")
            if brk is not None and brk.happened and brk.kind != 'terminate':
                raise nfc.clf.TimeoutError("peer is gone")
            return peer.respond(send_data)

        def deactivate(self, *a, **kw):
            self.deactivated = (a, kw)
            brk = self.brk
            if brk is not None and brk.happened and brk.kind == 'iodead':
                # nfc.dep deactivation sends DSL_REQ/RLS_REQ (waits for the
                # release request) through clf.exchange and lets IOError pass
                raise IOError(19, "scripted host link failure: device gone")

    class Ini(Mixin, nfc.dep.Initiator):
        def activate(self, target=None, **options):
            if self.brk is not None and self.brk.happened:
                return None
            self.gbi = options.get('gbi')
            self.peer.activations = getattr(self.peer, 'activations', 0) + 1
            return self.peer.gb()

        def exchange(self, send_data, timeout):
            return self._io(send_data, timeout)

    class Tgt(Mixin, nfc.dep.Target):
        def activate(self, timeout=None, **options):
            if self.brk is not None and self.brk.happened:
                return None
            self.gbt = options.get('gbt')
            self.peer.activations = getattr(self.peer, 'activations', 0) + 1
            return self.peer.gb()

        def exchange(self, send_data, timeout):
            # the target receives first: the peer (initiator) speaks after
            # having seen our previous answer
            return self._io(send_data, timeout)

    return Ini, Tgt
