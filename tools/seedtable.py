#!/venv/bin/python
"""Markdown table of the confirmed seeded changes under seeded/ (for DESIGN.md)."""
import glob
import json
import os

HERE = os.path.dirname(os.path.dirname(os.path.abspath(__file__)))
rows = []
for f in sorted(glob.glob(os.path.join(HERE, 'seeded', '*', 'meta.json'))):
    m = json.load(open(f))
    sub = m.get('from_subagent', {})
    det = ', '.join('%s:%s' % (p, 'caught' if c['detected'] else 'missed')
                    for p, c in sorted(m.get('checks', {}).items()))
    sig = ''
    for p, c in m.get('checks', {}).items():
        if c['detected'] and c['violation_signatures']:
            sig = c['violation_signatures'][0].replace('signature: ', '')[:70]
            break
    rows.append('| %s-%s | %s: %s | %s | %s | `%s` |' % (
        m['property'], m['change'],
        (sub.get('file') or ','.join(sub.get('files') or ['?'])).replace(
            'src/nfc/', ''),
        ' '.join((sub.get('what') or '').split())[:110].replace('|', '/'),
        ' '.join((sub.get('needs_to_manifest') or sub.get('needs') or
                  '').split())[:100].replace('|', '/'),
        det, sig.replace('|', '\\|')))
print('| id | change | needs to manifest | checks | first signature |')
print('|---|---|---|---|---|')
print('\n'.join(rows))
