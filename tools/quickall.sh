#!/bin/bash
# tools/quickall.sh [seed]  - run every registered quick check once, print one line each
cd "$(dirname "$0")/.."
seed=${1:-0}
for p in $(/venv/bin/python -c "import json; print(' '.join(c['property_id'] for c in json.load(open('MANIFEST.json'))['checks']))" 2>/dev/null); do
  s=$(date +%s)
  VERIF_SEED=$seed ./check $p --tier quick > /var/tmp/quickall_$p.txt 2>&1; rc=$?
  e=$(date +%s)
  echo "$p rc=$rc $((e-s))s viol=$(grep -c '^VIOLATION' /var/tmp/quickall_$p.txt) $(grep -v conda /var/tmp/quickall_$p.txt | tail -1 | cut -c1-140)"
done
