#!/bin/bash
# tools/seedbatch.sh [-P n] "C01 M" "C01 N" ...   - seedcheck several changes in parallel, results in /var/tmp/seedcheck_<prop>_<L>.json
cd "$(dirname "$0")/.."
P=3
if [ "$1" = "-P" ]; then P=$2; shift 2; fi
printf '%s\n' "$@" | xargs -P $P -I{} bash -c 'set -- {}; tools/seedcheck.py $1 $2 > /var/tmp/seedcheck_$1_$2.json 2>&1; echo "$1 $2 done: $(grep -E "confirmed|\"C[0-9]+\": (true|false)" /var/tmp/seedcheck_$1_$2.json | tr -d "\n " )"'
