#!/venv/bin/python
"""Replace the seed table in DESIGN.md (7.4) by the output of tools/seedtable.py."""
import os
import subprocess
HERE = os.path.dirname(os.path.dirname(os.path.abspath(__file__)))
tab = subprocess.check_output([os.path.join(HERE, 'tools/seedtable.py')], text=True)
tab = '\n'.join(l for l in tab.splitlines() if 'conda' not in l)
lines = open(os.path.join(HERE, 'DESIGN.md')).read().split('\n')
a = next(i for i, l in enumerate(lines) if l.startswith('| id | change | needs to manifest'))
b = a
while b < len(lines) and lines[b].startswith('|'):
    b += 1
lines[a:b] = tab.split('\n')
open(os.path.join(HERE, 'DESIGN.md'), 'w').write('\n'.join(lines))
print('table rows:', len(tab.split('\n')) - 2)
