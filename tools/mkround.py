#!/venv/bin/python
"""Prepare a seeding round: one scratch worktree of /repo HEAD and one prompt
file per property (the prompt holds ONLY the property record, the working
rules and one-line summaries of the changes earlier sub-agents produced, so
that new ones differ - nothing about the checks in /verif).

  tools/mkround.py <round-no> <letter1> <letter2> [props...]

writes /tmp/seed/<prop>.prompt<round>, worktree /tmp/seedwt/<prop>, output
expected in /tmp/seed/<prop>.out<round>/{patch_<L>.diff, demo_<L>.py, meta.json}
"""
import glob
import json
import os
import shutil
import subprocess
import sys

HERE = os.path.dirname(os.path.dirname(os.path.abspath(__file__)))

TEXT = """You are given a scratch git worktree of the nfcpy repository (a pure-Python NFC
stack) at {wt} . Work ONLY there (never touch /repo or /verif, do not read /verif).
Python: /venv/bin/python ; run your programs with PYTHONPATH={wt}/src .

Here is one semantic property that the library is supposed to satisfy (JSON record):

{prop}

TASK.  Produce TWO different, realistic changes ("{l1}" and "{l2}") to the library source
under {wt}/src/nfc that BREAK this property, each of which
  * still imports/compiles and keeps the repository's existing test suite green:
    run   /venv/bin/python /tmp/seed/run_tests.py {wt}   (exit 0 = every test that passed
    before still passes; takes about a minute; some ~111 tests fail already on the unchanged
    tree and do not count),
  * looks like something a maintainer could plausibly commit (a refactoring, an
    "optimisation", a tidy-up, a well-meant fix) - not sabotage, no dead code, no
    special-casing of magic values,
  * needs something SPECIFIC to manifest: a particular interleaving of threads, a fault
    or lost frame at a particular point, a multi-step sequence of operations on one object,
    an unusual but legal input / configuration / parameter extreme, state carried over from
    an earlier call, connection or activation, or two cooperating sites that each look fine
    alone.  Ordinary single-shot use with default parameters must still work.
  * is DIFFERENT from what earlier rounds already produced for this property (one line
    each, do not repeat these ideas or touch the same statement):
{used}
    Prefer functions / modules / code paths that none of them touches, still inside the
    scope of the property (see its anchors, but any code the property's behaviour passes
    through is in scope).

For each change write a small self-contained demonstration program (no pytest needed,
plain python, exit code 0 = property observed to hold, non-zero = violated, prints what it
saw) that PASSES on the unchanged worktree and FAILS with the change applied.  The
demonstration must exercise the real library code (simulate the tag / peer / chipset
behind the documented lowest interface: clf.exchange / a driver transport / a MAC object,
etc.), and must fail because the PROPERTY is violated (judge exactly what the statement
says), not because some internal detail differs.

Make the two changes independent of each other (each relative to the unchanged tree).
Deliver into the directory /tmp/seed/{pid}.out{rnd}/ (create it):
  patch_{l1}.diff, patch_{l2}.diff   - `git diff` output relative to the worktree HEAD (apply with git apply)
  demo_{l1}.py, demo_{l2}.py         - the demonstration programs
  meta.json  - {{"changes": [{{"id": "{l1}", "files": [...], "what": "<what was changed, 2-4 sentences>",
                 "needs": "<what it needs in order to manifest>", "why_tests_pass": "<...>",
                 "ran": ["<commands you ran and their result>"]}}, {{"id": "{l2}", ...}}]}}
Before you finish: `git -C {wt} checkout -- .` so the worktree is clean again, verify once more
that each patch applies to the clean tree with `git -C {wt} apply --check`, that each demo exits
0 on the clean tree and non-zero with its patch, and that run_tests.py exits 0 with each patch.
If, while reading the code, you notice that the UNCHANGED library already violates the
property for some input, say so in your final message (input and call site) - that is
valuable - but still deliver the two changes.
Final message: 5-10 lines per change (what, needs, how the demo shows it).
"""


def main():
    rnd, l1, l2 = sys.argv[1], sys.argv[2], sys.argv[3]
    want = [a.upper() for a in sys.argv[4:]]
    props = [json.loads(l) for l in open(os.path.join(HERE, 'properties.jsonl'))]
    os.makedirs('/tmp/seed', exist_ok=True)
    os.makedirs('/tmp/seedwt', exist_ok=True)
    shutil.copy(os.path.join(HERE, 'selftest/baseline.py'),
                '/tmp/seed/run_tests.py')
    for p in props:
        pid = p['id']
        if want and pid not in want:
            continue
        wt = '/tmp/seedwt/%s' % pid
        if not os.path.isdir(wt):
            subprocess.check_call(['git', '-C', '/repo', 'worktree', 'add',
                                   '-q', '--detach', wt])
        used = []
        for d in sorted(glob.glob(os.path.join(HERE, 'seeded', pid + '-*'))):
            try:
                m = json.load(open(os.path.join(d, 'meta.json')))
            except Exception:
                continue
            fs = m.get('from_subagent', {})
            files = ','.join(os.path.basename(f) for f in fs.get('files', []))
            used.append('      - [%s] %s' % (files, ' '.join(
                fs.get('what', '').split())[:230]))
        rec = {k: p[k] for k in ('id', 'title', 'statement', 'quantifier',
                                 'why_tests_cant', 'anchors') if k in p}
        txt = TEXT.format(wt=wt, prop=json.dumps(rec, indent=1), l1=l1, l2=l2,
                          used='\n'.join(used) or '      (none)', pid=pid,
                          rnd=rnd)
        with open('/tmp/seed/%s.prompt%s' % (pid, rnd), 'w') as f:
            f.write(txt)
        print(pid, wt, len(used))


if __name__ == '__main__':
    main()
