#!/bin/bash
# tools/thoroughall.sh [seed] [props...] - run thorough checks one after another, one line each
# (evidence of the run is NOT for committing when started through `vp run`)
cd "$(dirname "$0")/.."
seed=${1:-0}; shift
props="$@"
[ -z "$props" ] && props=$(/venv/bin/python -c "import json; print(' '.join(c['property_id'] for c in json.load(open('MANIFEST.json'))['checks']))" 2>/dev/null)
for p in $props; do
  s=$(date +%s)
  VERIF_SEED=$seed ./check $p --tier thorough > /var/tmp/thoroughall_$p.txt 2>&1; rc=$?
  e=$(date +%s)
  echo "$p rc=$rc $((e-s))s viol=$(grep -c '^VIOLATION' /var/tmp/thoroughall_$p.txt) $(grep -v conda /var/tmp/thoroughall_$p.txt | tail -1 | cut -c1-160)"
done
