#!/venv/bin/python
"""Regenerate MANIFEST.json from the table below (claimed checks) and
properties.jsonl (everything else goes to not_applicable with its reason)."""
import json
import os

HERE = os.path.dirname(os.path.dirname(os.path.abspath(__file__)))

CHECKS = {
    'C11': dict(
        category='exploration', design='2/C11',
        technique="bounded exhaustive enumeration of PDU field grids and byte "
                  "strings against an independent reference decoder",
        text="Every PDU of a finite field grid (all SAP pairs, all sequence "
             "numbers, boundary products of TLV fields, aggregates of 1-3 "
             "PDUs) and every byte string of length 0..2 (thorough 0..3) plus "
             "every 2-byte header x TLV-boundary tails is run through the real "
             "encoder/decoder and compared field-wise with an independently "
             "written LLCP reader; exhaustive over the stated space."
             " Also one PDU object encoded more than once with attributes assigned in between."
             " Members of an aggregate changed after the first encode are followed by len() and encode().",
        note="Trusted: ref/llcp_codec.py (independent reading of LLCP 1.3); "
             "byte strings longer than 3 octets are an enumerated grammar, not "
             "all strings."),
    'C09': dict(
        category='model_checking', design='2/C09',
        technique="stateless schedule exploration of the real code under a "
                  "controlled scheduler, preemption/timer-deviation bounded, "
                  "with deadlock detection",
        text="Real connect(llcp=...) and LogicalLinkController.run in virtual "
             "threads against a scripted LLCP peer; for every scenario (role x "
             "cause of link end - remote DISC, time-out, one host-link IOError, "
             "device gone for good (the deactivation fails too), loop error, "
             "local terminate - x exchange index x blocking socket call, "
             "connections the peer rejected with FRMR before, calls "
             "issued while/after the link ends, SNEP/handover server threads) "
             "every schedule with <= 1 (thorough 2) deviations is executed; "
             "after the link ended every thread must finish with a value or "
             "nfc.llcp.Error and connect() must return.",
        note="Scheduling points are lock/condition/IO/sleep operations plus "
             "the traced unsynchronised fields listed in the evidence, not "
             "arbitrary bytecodes; the peer is sim/peer.py; 1-2 application "
             "threads."),
    'C15': dict(
        category='model_checking', design='2/C15',
        technique="stateless schedule exploration (preemption bounded) of the "
                  "real frontend code with a recording driver proxy",
        text="Two (thorough: also three) threads each run one public "
             "ContactlessFrontend entry point (open, close, sense, listen, "
             "exchange, size queries, connect rdwr/llcp/card, context exit) on "
             "a recording driver proxy; every schedule with <= 2 (thorough 3) "
             "preemptions is executed and every driver call must be made by "
             "the owner of clf.lock, must not overlap another driver call and "
             "must not reach a closed driver.  The evidence lists which of the "
             "syntactic self.device call sites were reached.  The same entry "
             "points also run on the real acr122, pn533 and rcs380 drivers over "
             "a simulated reader, where every host-link transfer (also of "
             "threads a driver starts itself) is checked for lock ownership "
             "and overlap."
             " Entry points include leaving the with-block through KeyboardInterrupt / an application error; device.connect() of open() counts as a driver call.",
        note="Scheduling points: lock acquisition, sleeps and a point inside "
             "every driver method; 2-3 threads; the proxy driver answers like "
             "a Type 2 tag / FeliCa reader so that connect() runs through "
             "activation, presence check and release."),
    'C19': dict(
        category='exploration', design='2/C19',
        technique="exhaustive grid enumeration of whole-stack activations on "
                  "a virtual air (real udp driver, NFC-DEP, LLC) with an air "
                  "frame log oracle",
        text="For every point of the option grid (brs x lri x lrt x rwt x miu "
             "per side x lto per side, agf/lsc covered, out-of-range values) "
             "two complete stacks are activated through connect(llcp=...) over "
             "the unmodified udp driver on in-memory sockets; the negotiated "
             "values of both sides are compared with what the peer announced "
             "and three maximal UI PDUs each way are checked on the air log "
             "against the receiver's LR and the selected bit rate."
             " Also activations in which the side that becomes Initiator was given no role."
             " Also: data responses lost while attention is answered (the Initiator gives up within the announced link timeout) and an Initiator with a node address.",
        note="Both devices are nfcpy; passive activation at 106A over the "
             "virtual air; default schedule, no faults (those are C04/C09)."),
    'C06': dict(
        category='exploration', design='2/C06',
        technique="exhaustive grid enumeration of whole-stack SNEP/handover "
                  "transfers on a virtual air against the sent octets",
        text="For every grid point (link MIU pair x server socket MIU/RW x "
             "client role x put/get/handover/two handover requests x message "
             "sizes around multiples of the negotiated connection MIU x "
             "aggregation, plus acceptable-length limits s-1,s,s+1) a real "
             "SnepServer/HandoverServer and client run over the complete "
             "stack (connect(), LLC, NFC-DEP, udp driver on in-memory "
             "sockets); octets at the server application and at the client "
             "must equal the sent ones exactly once, over-limit messages must "
             "be refused without partial delivery."
             " Also Get with a second idle connection (other receive MIU) to the same server."
             " Also one SnepClient object over temporary and explicit connections to two services, and handover select messages whose k-th fragment ends with a record.",
        note="Default schedule, no faults; both devices are nfcpy; the SNEP "
             "client's own socket parameters are fixed by the library "
             "(MIU 128, RW 1)."),
    'C04': dict(
        category='fault_enumeration', design='2/C04',
        technique="deviation-bounded exhaustive enumeration of frame fate "
                  "scripts (deliver/lose/corrupt) over real Initiator and "
                  "Target in virtual threads, against a list reference model",
        text="Real nfc.dep.Initiator and Target (real activation) exchange a "
             "6-step conversation with chaining both ways over a half-duplex "
             "channel; every script with <= 2 (thorough 3) lost or corrupted "
             "frames is executed for a grid of LR pairs, DID/NAD, 106A/212F "
             "framing and RTOX positions; delivered payloads are compared with "
             "the sent lists (exactly once, in order, complete), single faults "
             "per step must be recovered, only CommunicationError may be "
             "raised, and no frame may exceed the receiver's LR."
             " Also a fault-free sweep of every payload size (every length octet value) at both bit rates.",
        note="Faults are loss and CRC-type corruption per frame; no timer "
             "races; the channel and frame parser are sim/depchan.py; the "
             "grid is a covering selection stated in the evidence."),
    'C01': dict(
        category='exploration', design='2/C01',
        technique="exhaustive enumeration of a layout x length x content "
                  "grid on stateful tag simulators against independent "
                  "layout models",
        text="Real tag classes (Type 1/2/3/4 incl. vendor subclasses and the "
             "library's own Type 3 emulation) created by nfc.tag.activate on "
             "byte-array tag simulators; for every well-formed layout of the "
             "generator and every message length 0..capacity+1 (boundary sets "
             "for large tags) the write must succeed, a fresh activation must "
             "read the same octets, capacity must not exceed the independent "
             "layout model and capacity+1 must be rejected before any command."
             " Also Type 3 Tags above 64 KiB (Ln uses its upper octet)."
             " The quick tier includes the Ultralight whose memory ends with the data area and Type 2 reserved ranges across the sector border.",
        note="Simulators (sim/t1t..t4t.py) and layout models (ref/tlv.py, "
             "ref/t3.py, ref/t4.py) are the trusted base; grid in the "
             "evidence."),
    'C02': dict(
        category='fault_enumeration', design='2/C02',
        technique="exhaustive crash-point enumeration (power cut after every "
                  "state-changing command) of NDEF writes on tag simulators",
        text="For every write of the grid (tag types, NDEF TLV offsets not "
             "aligned to the write unit, old/new lengths around the 1/3-byte "
             "length boundary) the write is repeated with the tag leaving the "
             "field after the k-th state-changing command for every k; a "
             "fresh reader must then see the old message, an empty/unreadable "
             "area or the complete new message.",
        note="A cut is modelled between commands (a command is atomic at the "
             "tag); FeliCa Lite-S write_with_mac is not covered."),
    'C03': dict(
        category='exploration', design='2/C03',
        technique="exhaustive enumeration of layouts x lengths x format "
                  "variants with byte-wise memory diff against an independent "
                  "layout model",
        text="On the C01 layouts plus control TLVs in every relative position, "
             "every write and format()/format(wipe) is executed on simulators "
             "that record each write with its address range and make lock/OTP "
             "bits one-way; the memory diff must be confined to the NDEF area "
             "computed by the independent model and no write command may "
             "address a unit wholly outside it."
             " Also format() followed by a write on the same tag object, judged against the layout after the format.",
        note="As C01; format of products that re-create management data by "
             "design is judged on UID/lock/OTP/reserved/out-of-area bytes "
             "only."),
    'C05': dict(
        category='model_checking', design='2/C05',
        technique="explicit-state BFS over real LLC objects with canonical "
                  "state dumps, plus stateless deviation-bounded schedule "
                  "exploration of blocking calls",
        text="(1) BFS: every history of non-blocking send/recv/poll/busy and "
             "link exchange events on one data link connection between two "
             "real LogicalLinkControllers until the frontier is empty for the "
             "message budget (RW 1..15, sequence numbers wrap past 16, both "
             "directions at once), each transition checked against a wire "
             "model (N(S)/N(R), window, no FRMR) and the delivered order; "
             "snapshots are validated against history replay. (2) Threads: "
             "both link loops plus blocking senders/receivers (and a "
             "busy-toggling thread) under every schedule with <= 2 (thorough "
             "3) deviations."
             " Scenarios include close, two senders on one socket (remote window 1 and 2), a second connection from the address just released and a server that sends right after accept() (schedules of the connection set-up included).",
        note="NFC-DEP replaced by sim/llcpump.py / sim/pairmac.py; close() is "
             "only exercised in C09; 'random walks' of the quantifier are not "
             "done (sampling)."),
    'C12': dict(
        category='fault_enumeration', design='2/C12',
        technique="deviation-bounded exhaustive enumeration of block fate "
                  "scripts (deliver/lose/corrupt, S(WTX)) against a reference "
                  "ISO 14443-4 PICC with an execution-counting APDU executor",
        text="Real Type4ATag/Type4BTag (real activation) exchange three "
             "non-idempotent APDUs with a rule-following reference card; for "
             "Type A/B x FSCI 0..8 x FWI (retry budgets 5/3/1/0) x command and "
             "response lengths around multiples of FSC-3 every script with "
             "<= 2 (thorough 3) lost/corrupted blocks or WTX requests is "
             "executed; the card must execute each APDU at most once, a "
             "returned response must be that execution's, failures must be "
             "Type4TagCommandError, no block may exceed FSC."
             " Includes the largest legal response (65538 octets).",
        note="The reference PICC (sim/picc.py) is the trusted base; the "
             "'must succeed' set is defined conservatively (2f-1 <= budget) "
             "and documented in the driver."),
    'C13': dict(
        category='fault_enumeration', design='2/C13',
        technique="exhaustive single-deviation (thorough: double) fault "
                  "injection at every host command of an exchange over "
                  "stateful chipset responders",
        text="Real drivers (pn531/532/533, rcs956, rcs380, acr122, arygon A/B "
             "through their real init handshakes, udp over in-memory sockets) "
             "with a target of each kind established through the real "
             "sense_*/listen_*; at every host command of "
             "ContactlessFrontend.exchange() one deviation (status 1..255, "
             "error frame, RC-S380 communication status bits, host errno on "
             "write/ACK/response, missing ACK, truncation at every length, "
             "wrong code/TFI, garbled fields, malformed datagrams) is "
             "injected; only data, CommunicationError subclasses with the "
             "documented mapping, or IOError may come out."
             " Includes flag-only status octets without payload on commands that have no flag bits.",
        note="Chipset behaviour is sim/chipsets.py (written from the drivers' "
             "expectations and the frame formats)."),
    'C14': dict(
        category='exploration', design='2/C14',
        technique="exhaustive enumeration of command codes x payload lengths "
                  "and of response-frame mutations against an independent "
                  "frame validator and bitwise CRC reference",
        text="Every command frame written by the PN53x family, ACR122 and "
             "RC-S380 drivers for every code x payload length (both sides of "
             "the extended-format switch) is validated by an independent "
             "frame validator; every bit flip, truncation, extension, "
             "insertion, byte substitution and checksum/postamble pair of "
             "valid PN53x/ACR122 responses (also through the real TTY.read) "
             "must be rejected with IOError unless the validator accepts it; "
             "CRC_A/B helpers and the drivers' CRC checks are compared with a "
             "bitwise ISO 14443-3 reference on all short messages, all "
             "trailers and all 1-/2-bit flips of longer frames."
             " Also two Type A targets one after the other on one device object (CRC check routing must not leak).",
        note="ref/hostframe.py and ref/crc.py are the trusted base (CRC "
             "checked against the ISO annex vectors)."),
    'C20': dict(
        category='fault_enumeration', design='2/C20',
        technique="exhaustive enumeration of key/password/challenge grids and "
                  "of single-bit (thorough: double-bit) in-transit "
                  "modifications against tag models with an independent MAC",
        text="Real FelicaLite, FelicaLiteS and NTAG21x objects on tag models "
             "whose session key/MAC/MAC_A computation is written independently "
             "from the manual; authenticate is true exactly for the matching "
             "key over all key/password pairs, protect-then-authenticate "
             "succeeds only with the same password, and every single-bit flip "
             "and byte substitution of every response of authenticate, "
             "read_with_mac and the NDEF read path must be detected (no "
             "modified octet returned).  Also: histories of authenticate / "
             "read / write with and without MAC / protect on ONE Lite-S object "
             "for three write-counter behaviours of the tag model, text "
             "passwords with characters above U+007F, protect on a tag that "
             "already holds a key."
             " Also authenticate / protect histories on ONE NTAG21x object judged against the tag model's latched key and answering state."
             " Well-formed read responses with another block count are part of the tamper alphabet.",
        note="Only the single-block DES primitive (pyDes) is shared with the "
             "library and cross-checked against openssl; not an adaptive "
             "forger."),
    'C10': dict(
        category='model_checking', design='2/C10',
        technique="explicit-state BFS over real LLC objects (histories that "
                  "fill the send queues), every reached state drained with a "
                  "frame-size oracle",
        text="Two real LogicalLinkControllers joined without RF; BFS over "
             "histories of sendto/send/resolve/incoming SNL and CONNECT/recv/"
             "busy/close operations that fill the sender's queues, for remote "
             "MIU 128..2175 (incl. non-multiples of 4) and aggregation on/off; "
             "every distinct state is drained and every collected frame is "
             "measured against the remote Link MIU and the receiver's "
             "connection MIU, and the dispatched PDU sequence is compared with "
             "the collected one.  A second BFS starts from prepared states "
             "(owed acknowledgements, busy toggles, pending DM / SNL / CC with "
             "RW 0-2, two pending lookups around the exact fit) with sizes "
             "relative to the room left in the aggregate."
             " Prepared states include an outgoing CONNECT pending with RW 0/1/2, MIUX and SN.",
        note="Depth bound stated in the evidence (frontier not exhausted); "
             "snapshots validated against history replay; raw access points "
             "excluded as the statement says."),
    'C17': dict(
        category='model_checking', design='2/C17',
        technique="explicit-state BFS over real LLC objects against a "
                  "reference address-table model, from the initial and from "
                  "prepared non-initial states",
        text="BFS over socket/bind/listen/close/resolve/connect/accept/sendto/"
             "recvfrom operations on two connected controllers (names, "
             "addresses and invalid arguments from a small alphabet), started "
             "from the initial state and from prepared states (address ranges "
             "nearly full/full, a name whose socket was closed, a re-used "
             "address); the peer also asks for several names in one SNL PDU and "
             "issues a second lookup while the first is outstanding (its "
             "transaction identifier chosen adversarially); every transition "
             "is compared with ref/addrtable.py."
             " Includes accepted sockets left open after the client disconnected (connect_lazy)."
             " Includes a service bound before the link came up (announced in the WKS list).",
        note="Depth bounds in the evidence; blocking calls run in a virtual "
             "thread while the link is pumped; named-range exhaustion errno "
             "is compared leniently (EADDRNOTAVAIL vs EAGAIN)."),
    'C18': dict(
        category='model_checking', design='2/C18',
        technique="exhaustive history enumeration (options x environments x "
                  "callback results x terminate time; target lists) judged by "
                  "a reference automaton",
        text="Real ContactlessFrontend on a scripted recording device: all "
             "target lists of length 1..3 over 9 target kinds x iterations x "
             "an earlier successful sense/listen, each followed by exchange(); "
             "a listen() that finds nobody / is unsupported / has an invalid "
             "bit rate / fails on the host link after a successful sense or "
             "listen, followed by exchange(); and connect() for every option subset x environment (none, tag, "
             "LLCP peer, reader) x callback return values (<= 2 non-default) x "
             "the call at which terminate() turns true; callback order, "
             "on-release exactly once per true on-connect, return value class, "
             "promptness after terminate, field-off and stale-target rules "
             "are judged by ref/connect_contract.py."
             " Also the n-th driver call raising IOError / KeyboardInterrupt at every n: connect() returns False."
             " Also: an empty option dictionary behaves like spelled-out defaults; exchange() racing sense/listen/close of another thread never hands a stale target to the driver.",
        note="Default schedule; the device and the LLCP peer are scripted; "
             "where docstring and code disagree on something the property "
             "does not mention both are accepted."),
    'C16': dict(
        category='fault_enumeration', design='2/C16',
        technique="exhaustive fault-burst enumeration (position x kind x "
                  "burst length x loss variant) over every tag operation on "
                  "stateful tag simulators",
        text="For every public operation of every tag class (T1 static/"
             "dynamic/Topaz, T2 generic/UL-C/NTAG, T3 generic/FeliCa "
             "Lite/Lite-S/Standard, T4 A/B) a fault-free run fixes the command "
             "sequence; then at every position a burst of 1..4 (thorough 1..6) "
             "timeouts, transmission or protocol errors is injected, as lost "
             "command and as lost response; bursts within the retry budget "
             "must be absorbed with the same result and memory, larger ones "
             "must end in a TagCommandError with the matching errno or the "
             "documented None/False, never a raw error, and answered commands "
             "must not be re-sent."
             " Also histories on one tag object (a write that fails for good, another operation, the write again) and a two-system FeliCa Standard card.",
        note="Retry budgets are read from the code and listed in the "
             "evidence; one burst per run; ISO-DEP WTX defects are C12's."),
    'C07': dict(
        category='exploration', design='2/C07',
        technique="bounded exhaustive single-deviation input enumeration "
                  "(one malformed input per run at every position where the "
                  "peer speaks) on the real stack with deadlock/uncaught-"
                  "exception detection",
        text="air: two complete stacks over the virtual air, each radio frame "
             "of a SNEP put conversation (ATR/PSL/DEP/RLS, general bytes, "
             "LLCP inside DEP) replaced by byte substitutions, truncations, "
             "extensions, consistent-length cuts and short frames; llcp: a "
             "scripted peer injects one arbitrary PDU (7 DSAP x 3 SSAP x 16 "
             "PTYPE x TLV-boundary tails, nested AGF to depth 541, over-size, "
             "all strings of length 0..1) while SNEP and handover servers, an "
             "LDL socket and a listening DLC are bound; snep: malformed "
             "SNEP/handover fragments in correctly numbered I PDUs to servers "
             "and malformed answers to clients; card: every command code and "
             "truncation to the Type 3 Tag emulation directly and through "
             "connect(card=...); decode: all strings of length 0..2 and all "
             "PFB values through the NFC-DEP frame decoders.  connect() must "
             "return, no thread may die with an uncaught exception or block."
             " Part dep: every crafted NFC-DEP frame followed by every kind of data exchange PDU (complete / truncated)."
             " Part air also runs mutation-free conversations with legal but unusual peers (DID, frames filled to the limit).",
        note="One malformed input per run (thorough: larger alphabets, both "
             "roles); virtual threads under the default schedule; the peer "
             "is nfcpy itself (air) or sim/peer.py."),
    'C08': dict(
        category='exploration', design='2/C08',
        technique="deviation-bounded exhaustive mutation of valid tag images "
                  "and activation responses on hostile tag simulators with a "
                  "command budget",
        text="From valid base layouts of all four tag types every single "
             "management byte x 256 values, all pairs (thorough: triples) "
             "over a boundary alphabet, all 16-bit values of multi-byte "
             "fields, activation response variants (all 65536 HR0/HR1 pairs, "
             "ATS with every subset of TA/TB/TC, SENSB_RES FSCI/FWI, SENSF_RES "
             "IC codes, GET_VERSION answers), a tag that stops answering after "
             "every k and hostile well-framed answers (R(ACK)/S(WTX)/chaining "
             "for ever, empty READ BINARY) are run through nfc.tag.activate "
             "and tag.ndef; the result must be None or an NDEF object with "
             "length <= capacity whose octets lie inside the data area of the "
             "independent layout model, with no exception and a bounded "
             "number of commands."
             " Also a mapping 3.0 file above 64 KiB with NLEN around 8000h / 10000h on cards with 15 / 16 bit READ BINARY offsets.",
        note="Tag answers are arbitrary in content but well framed at RF "
             "level; budget = 4 x memory units + 64 commands."),
}

NOT_YET = "check not built yet in this round (see DESIGN.md section 2 for the planned design)"


def main():
    props = [json.loads(l) for l in open(os.path.join(HERE, 'properties.jsonl'))]
    checks, na = [], []
    for p in props:
        pid = p['id']
        c = CHECKS.get(pid)
        if c is None:
            na.append(dict(property_id=pid, reason=NOT_YET))
            continue
        checks.append(dict(
            property_id=pid,
            quick_cmd="./check %s --tier quick" % pid,
            thorough_cmd="./check %s --tier thorough" % pid,
            evidence_file="evidence/%s.json" % pid,
            replay_cmd_template="./check %s --replay {path}" % pid,
            engine="mc",
            level_claimed=dict(category=c['category'], text=c['text'],
                               design_ref=c['design']),
            level_note=c['note'],
            technique=c['technique']))
    doc = dict(
        version=1,
        setup_cmd="./check --setup",
        hooks=dict(
            guard="NFCPY_VERIF",
            enable="no source hooks: nfc is imported from /repo/src under "
                   "shimmed stdlib modules (mc/shims.py); the guard variable "
                   "is not read by any code",
            baseline_off_cmd="cd /repo && /venv/bin/python -m pytest -ra -q "
                             "-p no:cacheprovider --timeout=900 "
                             "--continue-on-collection-errors",
            source_commits=[], add_only=True),
        engines=[dict(
            name="mc", path="mc/",
            serves_properties=sorted(CHECKS),
            kind_free_text="hand-written explicit-state / stateless "
                           "deviation-bounded explorer over the real Python "
                           "code (virtual threads, clock, sockets; fault and "
                           "input enumeration) with reference models in ref/")],
        checks=checks,
        notes="All checks run the real nfcpy code from /repo/src; see "
              "DESIGN.md.  known_findings.json lists genuine defects recorded "
              "or fixed.",
        not_applicable=na)
    with open(os.path.join(HERE, 'MANIFEST.json'), 'w') as f:
        json.dump(doc, f, indent=1)
    print("claimed:", sorted(CHECKS), "not claimed:", len(na))


if __name__ == '__main__':
    main()
