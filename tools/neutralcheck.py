#!/venv/bin/python
"""Run the registered check against property-PRESERVING changes.

  tools/neutralcheck.py C05 [--tier quick] [--no-tests]

Input: /tmp/seed/<prop>.out3/{patch_N*.diff, meta.json} written by an
independent sub-agent that saw only the property text and was asked for
changes that are visible in behaviour but keep the property true (another
legal choice where the property leaves freedom, or an internal
restructuring).  For each patch, in a scratch worktree of /repo HEAD:
  1. apply it,
  2. run the pinned test suite               (stable_pass must stay intact),
  3. run ./check <prop> with VERIF_REPO=<wt> (must exit 0: no false alarm).
Everything is stored under /verif/neutral/<prop>-<N>/ (patch.diff, meta.json
with the sub-agent's argument and the result).  An alarm is NOT hidden: it is
printed for triage - either the change does break the property (then it is
moved to seeded/ by hand) or the check demands more than the property states
and has to be corrected.
"""
import json
import os
import shutil
import subprocess
import sys
import tempfile
import glob

HERE = os.path.dirname(os.path.dirname(os.path.abspath(__file__)))


def sh(cmd, timeout=None, **kw):
    try:
        p = subprocess.run(cmd, stdout=subprocess.PIPE,
                           stderr=subprocess.STDOUT, text=True,
                           timeout=timeout, **kw)
    except subprocess.TimeoutExpired:
        return 124, 'timeout'
    out = '\n'.join(l for l in p.stdout.splitlines() if 'conda' not in l)
    return p.returncode, out


def main():
    prop = sys.argv[1]
    tier = 'quick'
    if '--tier' in sys.argv:
        tier = sys.argv[sys.argv.index('--tier') + 1]
    tests = '--no-tests' not in sys.argv
    src = '/tmp/seed/%s.out3' % prop
    if '--src' in sys.argv:                      # later rounds: .out6, ...
        src = '/tmp/seed/%s.%s' % (prop, sys.argv[sys.argv.index('--src') + 1])
    metas = {}
    try:
        for c in json.load(open(os.path.join(src, 'meta.json')))['changes']:
            metas[c.get('id')] = c
    except Exception as e:
        metas = {'_error': repr(e)}
    summary = []
    for patch in sorted(glob.glob(os.path.join(src, 'patch_N*.diff'))):
        nid = os.path.basename(patch)[len('patch_'):-len('.diff')]
        d = tempfile.mkdtemp(prefix='neutral_', dir='/var/tmp')
        wt = os.path.join(d, 'wt')
        res = dict(property=prop, change=nid, tier=tier,
                   from_subagent=metas.get(nid, {}))
        try:
            subprocess.check_call(['git', '-C', '/repo', 'worktree', 'add',
                                   '-q', '--detach', wt])
            res['repo_head'] = sh(['git', '-C', '/repo', 'log',
                                   '--format=%h', '-1'])[1].strip()
            rc, out = sh(['git', '-C', wt, 'apply', patch])
            if rc != 0:
                rc, out = sh(['patch', '-d', wt, '-p1', '-F3', '-i', patch])
            res['patch_applies'] = rc == 0
            if rc != 0:
                res['status'] = 'patch-does-not-apply'
            else:
                if tests:
                    rc, out = sh([os.path.join(HERE, 'selftest/baseline.py'),
                                  wt])
                    res['tests_with_change'] = dict(
                        stable_pass_intact=rc == 0, tail=out[-300:])
                rc, out = sh([os.path.join(HERE, 'check'), prop, '--tier',
                              tier], env=dict(os.environ, VERIF_REPO=wt),
                             cwd=HERE, timeout=7200)
                sigs = [l.strip() for l in out.splitlines()
                        if l.strip().startswith('signature:')]
                res['check'] = dict(exit=rc, signatures=sigs[:12],
                                    summary=out.splitlines()[-1][:300]
                                    if out else '')
                res['status'] = {0: 'silent', 1: 'ALARM'}.get(
                    rc, 'HARNESS-ERROR')
                if rc not in (0, 1):
                    res['check']['tail'] = out[-600:]
        finally:
            subprocess.call(['git', '-C', '/repo', 'worktree', 'remove',
                             '--force', wt])
            shutil.rmtree(d, ignore_errors=True)
        out_dir = os.path.join(HERE, 'neutral', '%s-%s' % (prop, nid))
        os.makedirs(out_dir, exist_ok=True)
        res['checks'] = {}
        try:
            old = json.load(open(os.path.join(out_dir, 'meta.json')))
            res['checks'] = old.get('checks') or (
                {old['tier']: old['check']} if 'check' in old else {})
        except Exception:
            pass
        if 'check' in res:
            res['checks'][tier] = dict(res['check'],
                                       repo_head=res.get('repo_head'))
        if not tests:
            # keep the pinned-suite result of the earlier, complete run
            try:
                old = json.load(open(os.path.join(out_dir, 'meta.json')))
                if 'tests_with_change' in old:
                    res['tests_with_change'] = dict(
                        old['tests_with_change'],
                        at_repo_head=old.get('repo_head'))
            except Exception:
                pass
        shutil.copy(patch, os.path.join(out_dir, 'patch.diff'))
        json.dump(res, open(os.path.join(out_dir, 'meta.json'), 'w'),
                  indent=1, sort_keys=True)
        summary.append(dict(
            id='%s-%s' % (prop, nid), status=res.get('status'),
            tests=res.get('tests_with_change', {}).get('stable_pass_intact'),
            sigs=[s[:120] for s in res.get('check', {}).get(
                'signatures', [])][:5],
            what=res['from_subagent'].get('what', '')[:160]))
    print(json.dumps(summary, indent=1))


if __name__ == '__main__':
    main()
