#!/venv/bin/python
"""Regression sweep: every stored seeded change against the current checks.

  tools/seedsweep.py [--jobs N] [--only C05,C09-C] [--tier quick]

For each seeded/<id>/patch.diff: scratch worktree of /repo HEAD under /var/tmp,
apply the patch, run ./check <prop> with VERIF_REPO=<worktree> (must exit 1
with a VIOLATION line), replay the first replay file on the changed tree (must
fail) and on /repo (must pass), remove the worktree.  The pinned test suite is
NOT re-run here (tools/seedcheck.py did that when the change was confirmed).
Result: seeded/SWEEP.json and a summary on stdout.  A patch that no longer
applies to HEAD (the code it changed was repaired since) is reported as
'stale' and skipped.
"""
import concurrent.futures
import glob
import json
import os
import shutil
import subprocess
import sys
import tempfile
import time

HERE = os.path.dirname(os.path.dirname(os.path.abspath(__file__)))


def sh(cmd, timeout=None, **kw):
    try:
        p = subprocess.run(cmd, stdout=subprocess.PIPE,
                           stderr=subprocess.STDOUT, text=True,
                           timeout=timeout, **kw)
    except subprocess.TimeoutExpired:
        return 124, 'timeout'
    out = '\n'.join(l for l in p.stdout.splitlines() if 'conda' not in l)
    return p.returncode, out


def one(name, tier, procs):
    prop = name.split('-')[0]
    patch = os.path.join(HERE, 'seeded', name, 'patch.diff')
    d = tempfile.mkdtemp(prefix='sweep_', dir='/var/tmp')
    wt = os.path.join(d, 'wt')
    res = dict(id=name, property=prop, tier=tier)
    t0 = time.time()
    try:
        subprocess.check_call(['git', '-C', '/repo', 'worktree', 'add', '-q',
                               '--detach', wt])
        rc, out = sh(['git', '-C', wt, 'apply', patch])
        if rc != 0:
            rc, out = sh(['patch', '-d', wt, '-p1', '-F3', '-i', patch])
        if rc != 0:
            res['status'] = 'stale'
            res['note'] = out[-200:]
            return res
        env = dict(os.environ, VERIF_REPO=wt, VERIF_PROCS=str(procs))
        rc, out = sh([os.path.join(HERE, 'check'), prop, '--tier', tier],
                     env=env, cwd=HERE, timeout=3600)
        sigs = [l.strip().replace('signature: ', '') for l in out.splitlines()
                if l.strip().startswith('signature:')]
        viol = [l for l in out.splitlines() if l.startswith('VIOLATION ')]
        res['exit'] = rc
        res['detected'] = rc == 1 and bool(viol)
        res['signatures'] = sigs[:6]
        res['status'] = 'caught' if res['detected'] else (
            'MISSED' if rc == 0 else 'HARNESS-ERROR')
        if rc not in (0, 1) or (rc == 1 and not viol):
            res['note'] = out[-400:]
        rp = [l.split('replay=')[1].strip() for l in out.splitlines()
              if l.startswith('VIOLATION') and 'replay=' in l]
        if rp and os.path.exists(rp[0]):
            keep = os.path.join(d, 'replay.json')
            shutil.copy(rp[0], keep)
            r1, _ = sh([os.path.join(HERE, 'check'), prop, '--replay', keep],
                       env=env, cwd=HERE, timeout=1800)
            r2, _ = sh([os.path.join(HERE, 'check'), prop, '--replay', keep],
                       env=dict(os.environ, VERIF_PROCS=str(procs)), cwd=HERE,
                       timeout=1800)
            res['replay'] = dict(on_changed_tree_exit=r1, on_repo_exit=r2,
                                 ok=(r1 != 0 and r2 == 0))
            if not res['replay']['ok']:
                res['status'] += '+REPLAYBAD'
    finally:
        subprocess.call(['git', '-C', '/repo', 'worktree', 'remove',
                         '--force', wt])
        shutil.rmtree(d, ignore_errors=True)
        res['secs'] = round(time.time() - t0, 1)
    return res


def main():
    jobs, tier, only = 3, 'quick', None
    a = sys.argv[1:]
    if '--jobs' in a:
        jobs = int(a[a.index('--jobs') + 1])
    if '--tier' in a:
        tier = a[a.index('--tier') + 1]
    if '--only' in a:
        only = a[a.index('--only') + 1].split(',')
    names = sorted(os.path.basename(os.path.dirname(f)) for f in glob.glob(
        os.path.join(HERE, 'seeded', '*', 'patch.diff')))
    if only:
        names = [n for n in names if n in only or n.split('-')[0] in only]
    procs = max(2, 16 // jobs)
    out_file = os.path.join(HERE, 'seeded', 'SWEEP.json')
    try:
        results = json.load(open(out_file))['results']
    except Exception:
        results = {}
    head = sh(['git', '-C', '/repo', 'log', '--format=%h', '-1'])[1].strip()
    # NOTE: checks of one property share replay/<prop>_* files, so changes of
    # the same property run one after the other
    groups = {}
    for n in names:
        groups.setdefault(n.split('-')[0], []).append(n)

    def run_group(ns):
        return [one(n, tier, procs) for n in ns]
    with concurrent.futures.ThreadPoolExecutor(jobs) as ex:
        for rs in ex.map(run_group, groups.values()):
            for r in rs:
                r['repo_head'] = head
                results[r['id']] = r
                print('%-6s %-18s %6.0fs %s' % (
                    r['id'], r['status'], r['secs'],
                    (r.get('signatures') or [''])[0][:90]), flush=True)
            json.dump(dict(results=results), open(out_file, 'w'), indent=1,
                      sort_keys=True)
    bad = [r['id'] for r in results.values() if r['status'] not in (
        'caught', 'stale')]
    print('swept=%d caught=%d stale=%d attention=%s' % (
        len(results), sum(r['status'] == 'caught' for r in results.values()),
        sum(r['status'] == 'stale' for r in results.values()), bad))
    return 1 if bad else 0


if __name__ == '__main__':
    sys.exit(main())
