#!/venv/bin/python
"""Regression sweep: every stored property-PRESERVING change against the
current checks (must stay silent).

  tools/neutralsweep.py [--jobs N] [--only C05,C20-N2] [--tier quick]

For each neutral/<id>/patch.diff: scratch worktree of /repo HEAD under
/var/tmp, apply the patch, run ./check <prop> with VERIF_REPO=<worktree> (must
exit 0), remove the worktree.  The pinned suite is not re-run (done by
tools/neutralcheck.py when the change was recorded).  Result: the per-tier
entry in neutral/<id>/meta.json is refreshed, neutral/SWEEP.json is written.
"""
import concurrent.futures
import glob
import json
import os
import shutil
import subprocess
import sys
import tempfile
import time

HERE = os.path.dirname(os.path.dirname(os.path.abspath(__file__)))


def sh(cmd, timeout=None, **kw):
    try:
        p = subprocess.run(cmd, stdout=subprocess.PIPE,
                           stderr=subprocess.STDOUT, text=True,
                           timeout=timeout, **kw)
    except subprocess.TimeoutExpired:
        return 124, 'timeout'
    out = '\n'.join(l for l in p.stdout.splitlines() if 'conda' not in l)
    return p.returncode, out


def one(name, tier, procs):
    prop = name.split('-')[0]
    patch = os.path.join(HERE, 'neutral', name, 'patch.diff')
    d = tempfile.mkdtemp(prefix='nsweep_', dir='/var/tmp')
    wt = os.path.join(d, 'wt')
    res = dict(id=name, property=prop, tier=tier)
    t0 = time.time()
    try:
        subprocess.check_call(['git', '-C', '/repo', 'worktree', 'add', '-q',
                               '--detach', wt])
        res['repo_head'] = sh(['git', '-C', '/repo', 'log', '--format=%h',
                               '-1'])[1].strip()
        rc, out = sh(['git', '-C', wt, 'apply', patch])
        if rc != 0:
            rc, out = sh(['patch', '-d', wt, '-p1', '-F3', '-i', patch])
        if rc != 0:
            res['status'] = 'stale'
            res['note'] = out[-200:]
            return res
        env = dict(os.environ, VERIF_REPO=wt, VERIF_PROCS=str(procs))
        rc, out = sh([os.path.join(HERE, 'check'), prop, '--tier', tier],
                     env=env, cwd=HERE, timeout=7200)
        sigs = [l.strip().replace('signature: ', '') for l in out.splitlines()
                if l.strip().startswith('signature:')]
        res['exit'] = rc
        res['signatures'] = sigs[:8]
        res['summary'] = out.splitlines()[-1][:300] if out else ''
        res['status'] = {0: 'silent', 1: 'ALARM'}.get(rc, 'HARNESS-ERROR')
        if rc not in (0, 1):
            res['note'] = out[-600:]
    finally:
        subprocess.call(['git', '-C', '/repo', 'worktree', 'remove',
                         '--force', wt])
        shutil.rmtree(d, ignore_errors=True)
        res['wall_s'] = round(time.time() - t0, 1)
    mp = os.path.join(HERE, 'neutral', name, 'meta.json')
    try:
        meta = json.load(open(mp))
        meta.setdefault('checks', {})[tier] = dict(
            exit=res.get('exit'), signatures=res.get('signatures', []),
            summary=res.get('summary', ''), repo_head=res.get('repo_head'))
        if res.get('status') in ('silent', 'ALARM'):
            meta['status'] = res['status']
        json.dump(meta, open(mp, 'w'), indent=1, sort_keys=True)
    except Exception as e:
        res['meta_error'] = repr(e)
    return res


def main():
    jobs, tier, only = 2, 'quick', None
    a = sys.argv[1:]
    if '--jobs' in a:
        jobs = int(a[a.index('--jobs') + 1])
    if '--tier' in a:
        tier = a[a.index('--tier') + 1]
    if '--only' in a:
        only = a[a.index('--only') + 1].split(',')
    names = sorted(os.path.basename(os.path.dirname(p)) for p in glob.glob(
        os.path.join(HERE, 'neutral', '*', 'patch.diff')))
    if only:
        names = [n for n in names if n in only or n.split('-')[0] in only]
    procs = max(2, 16 // jobs)
    out = []
    with concurrent.futures.ThreadPoolExecutor(jobs) as ex:
        for res in ex.map(lambda n: one(n, tier, procs), names):
            out.append(res)
            print('%-8s %-14s %6.1fs %s' % (res['id'], res.get('status'),
                                          res.get('wall_s', 0),
                                          '; '.join(res.get('signatures',
                                                            []))[:160]),
                  flush=True)
    json.dump(dict(tier=tier, results=out),
              open(os.path.join(HERE, 'neutral', 'SWEEP.json'), 'w'),
              indent=1, sort_keys=True)
    bad = [r for r in out if r.get('status') not in ('silent', 'stale')]
    print('%d changes, %d silent, %d stale, %d need attention' % (
        len(out), len([r for r in out if r.get('status') == 'silent']),
        len([r for r in out if r.get('status') == 'stale']), len(bad)))
    return 1 if bad else 0


if __name__ == '__main__':
    sys.exit(main())
