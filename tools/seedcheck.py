#!/venv/bin/python
"""Confirm one seeded change and run the registered quick check against it.

  tools/seedcheck.py C09 A [--tier quick|thorough] [--extra C07,...]

Input: /tmp/seed/<prop>.out/{patch_<L>.diff, demo_<L>.py, meta.json} written by
an independent sub-agent that saw only the property text.  In a scratch
worktree of /repo HEAD (outside /repo and /verif) this
  1. runs the demonstration on the unchanged tree        (must pass),
  2. applies the patch and runs the demonstration again   (must fail),
  3. runs the pinned test suite with the patch            (stable_pass intact),
  4. runs ./check <prop> against the patched tree          (VIOLATION expected),
and stores patch, demonstration and meta.json under /verif/seeded/<prop>-<L>/.
"""
import json
import os
import shutil
import subprocess
import sys
import tempfile

HERE = os.path.dirname(os.path.dirname(os.path.abspath(__file__)))


def sh(cmd, **kw):
    p = subprocess.run(cmd, stdout=subprocess.PIPE, stderr=subprocess.STDOUT,
                       text=True, **kw)
    out = '\n'.join(l for l in p.stdout.splitlines() if 'conda' not in l)
    return p.returncode, out


def main():
    prop, letter = sys.argv[1], sys.argv[2]
    tier = 'quick'
    extra = []
    if '--tier' in sys.argv:
        tier = sys.argv[sys.argv.index('--tier') + 1]
    if '--extra' in sys.argv:
        extra = sys.argv[sys.argv.index('--extra') + 1].split(',')
    src = '/tmp/seed/%s.out%s' % (prop, '' if letter in 'AB' else (
        '2' if letter in 'CD' else ('4' if letter in 'EF' else (
            '5' if letter in 'GH' else ('7' if letter in 'IJ' else (
                '8' if letter in 'KL' else '9'))))))
    patch = os.path.join(src, 'patch_%s.diff' % letter)
    demo = os.path.join(src, 'demo_%s.py' % letter)
    meta_in = {}
    try:
        for c in json.load(open(os.path.join(src, 'meta.json')))['changes']:
            if c.get('id') == letter:
                meta_in = c
    except Exception as e:
        meta_in = {'meta_error': repr(e)}
    d = tempfile.mkdtemp(prefix='seed_', dir='/var/tmp')
    wt = os.path.join(d, 'wt')
    res = dict(property=prop, change=letter, from_subagent=meta_in)
    try:
        subprocess.check_call(['git', '-C', '/repo', 'worktree', 'add', '-q',
                               '--detach', wt])
        res['repo_head'] = sh(['git', '-C', '/repo', 'log', '--format=%h',
                               '-1'])[1].strip()
        env = dict(os.environ, PYTHONPATH=os.path.join(wt, 'src'))
        rc, out = sh(['/venv/bin/python', demo], env=env, cwd=d, timeout=600)
        res['demo_unchanged'] = dict(exit=rc, tail=out[-300:])
        rc, out = sh(['git', '-C', wt, 'apply', patch])
        if rc != 0:
            rc, out = sh(['patch', '-d', wt, '-p1', '-F3', '-i', patch])
        res['patch_applies'] = rc == 0
        if rc != 0:
            res['patch_error'] = out[-300:]
        else:
            rc, out = sh(['/venv/bin/python', demo], env=env, cwd=d,
                         timeout=600)
            res['demo_changed'] = dict(exit=rc, tail=out[-400:])
            rc, out = sh([os.path.join(HERE, 'selftest/baseline.py'), wt])
            res['tests_with_change'] = dict(stable_pass_intact=rc == 0,
                                            tail=out[-300:])
            res['checks'] = {}
            for p in [prop] + extra:
                rc, out = sh([os.path.join(HERE, 'check'), p, '--tier', tier],
                             env=dict(os.environ, VERIF_REPO=wt), cwd=HERE)
                sigs = [l.strip() for l in out.splitlines()
                        if l.strip().startswith('signature:')]
                res['checks'][p] = dict(
                    tier=tier, exit=rc,
                    detected=rc == 1 and any(l.startswith('VIOLATION ')
                                             for l in out.splitlines()),
                    violation_signatures=sigs[:12],
                    summary=out.splitlines()[-1][:300] if out else '')
                # every violation is a replayable artefact: the first replay
                # file must fail again on the changed tree and pass on /repo
                rp = [l.split('replay=')[1].strip() for l in out.splitlines()
                      if l.startswith('VIOLATION') and 'replay=' in l]
                if rp and os.path.exists(rp[0]):
                    keep = os.path.join(d, 'replay.json')
                    shutil.copy(rp[0], keep)
                    r1, o1 = sh([os.path.join(HERE, 'check'), p, '--replay',
                                 keep], env=dict(os.environ, VERIF_REPO=wt),
                                cwd=HERE)
                    r2, o2 = sh([os.path.join(HERE, 'check'), p, '--replay',
                                 keep], cwd=HERE)
                    os.unlink(keep)
                    res['checks'][p]['replay'] = dict(
                        on_changed_tree_exit=r1, on_repo_exit=r2,
                        ok=(r1 != 0 and r2 == 0))
        confirmed = (res.get('patch_applies') and
                     res['demo_unchanged']['exit'] == 0 and
                     res.get('demo_changed', {}).get('exit') not in (0, None)
                     and res['tests_with_change']['stable_pass_intact'])
        res['confirmed'] = bool(confirmed)
        res['what_i_ran'] = [
            "PYTHONPATH=<wt>/src /venv/bin/python demo.py  (unchanged, then "
            "with patch.diff applied)",
            "selftest/baseline.py <wt>  (pinned suite, stable_pass list)",
            "VERIF_REPO=<wt> ./check %s --tier %s" % (prop, tier)]
    finally:
        subprocess.call(['git', '-C', '/repo', 'worktree', 'remove',
                         '--force', wt])
        shutil.rmtree(d, ignore_errors=True)
    out_dir = os.path.join(HERE, 'seeded', '%s-%s' % (prop, letter))
    if res.get('confirmed'):
        os.makedirs(out_dir, exist_ok=True)
        shutil.copy(patch, os.path.join(out_dir, 'patch.diff'))
        shutil.copy(demo, os.path.join(out_dir, 'demo.py'))
        json.dump(res, open(os.path.join(out_dir, 'meta.json'), 'w'),
                  indent=1, sort_keys=True)
    print(json.dumps(dict(
        prop=prop, change=letter, confirmed=res.get('confirmed'),
        demo_unchanged=res.get('demo_unchanged', {}).get('exit'),
        demo_changed=res.get('demo_changed', {}).get('exit'),
        tests=res.get('tests_with_change', {}).get('stable_pass_intact'),
        tests_tail=res.get('tests_with_change', {}).get('tail', '')[-300:]
        if not res.get('tests_with_change', {}).get('stable_pass_intact')
        else '',
        detected={p: c['detected'] for p, c in res.get('checks', {}).items()},
        replay={p: c.get('replay', {}).get('ok') for p, c in
                res.get('checks', {}).items()},
        sigs=[s[:110] for s in res.get('checks', {}).get(prop, {}).get(
            'violation_signatures', [])][:4],
        what=meta_in.get('what', '')[:200]), indent=1))


if __name__ == '__main__':
    main()
