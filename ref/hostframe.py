"""Independent validators for the host-link frames of the chipsets nfcpy
drives.  Written from the public interface documents, not from the drivers:

* NXP PN531/PN532/PN533 user manuals, chapter "Host controller communication
  protocol" (the Sony RC-S956 uses the same link layer):

    normal information frame
      00 | 00 FF | LEN | LCS | TFI PD0 .. PDn | DCS | 00
      LEN  = number of bytes TFI..PDn (1..255),  LEN + LCS      = 0 (mod 256)
      TFI + PD0 + .. + PDn + DCS = 0 (mod 256)
    extended information frame
      00 | 00 FF | FF FF | LENm LENl | LCS | TFI PD0 .. PDn | DCS | 00
      LEN = LENm*256 + LENl,  LENm + LENl + LCS = 0 (mod 256)
    ACK 00 00 FF 00 FF 00, NACK 00 00 FF FF 00 00,
    application level error frame 00 00 FF 01 FF 7F 81 00
    TFI is D4 host->chip and D5 chip->host; PD0 is the command code and the
    response code is command code + 1.

* USB CCID rev 1.1: PC_to_RDR_XfrBlock (6F) / RDR_to_PC_DataBlock (80), both
  with a 10 byte header whose bytes 1..4 are dwLength (little endian) of the
  abData that follows; ACR122U API: direct transmit pseudo APDU
  FF 00 00 00 Lc <PN532 frame starting with D4>, response <D5 ..> 90 00.

* Sony NFC Port-100 (RC-S380) as documented by its open implementations:
      00 00 FF FF FF | LENl LENm | LCS | D6 code data.. | DCS | 00
  (an extended frame whose length is little endian); response D7 code+1.

Every parse function returns a `Frame` or raises `Invalid(reason)`.
"""
import collections

Frame = collections.namedtuple('Frame', 'kind tfi code data extended')

ACK = bytes.fromhex('0000FF00FF00')
NACK = bytes.fromhex('0000FFFF0000')
ERROR = bytes.fromhex('0000FF01FF7F8100')


class Invalid(Exception):
    pass


def _need(cond, why):
    if not cond:
        raise Invalid(why)


# ----------------------------------------------------------------------------
# PN53x
# ----------------------------------------------------------------------------
def pn53x_parse(frame, lenient_extended=True):
    """Parse one complete PN53x link frame (nothing before, nothing after).

    kind: 'ack' | 'nack' | 'error' | 'info'.  For 'info' tfi/code/data are
    the frame identifier, the first data byte (None if there is none) and the
    remaining data bytes."""
    f = bytes(frame)
    _need(len(f) >= 6, 'shorter than the shortest frame')
    _need(f[0] == 0x00, 'preamble')
    _need(f[1:3] == b'\x00\xFF', 'start code')
    if f == ACK:
        return Frame('ack', None, None, b'', False)
    if f == NACK:
        return Frame('nack', None, None, b'', False)
    if f[3] == 0xFF and f[4] == 0xFF:
        _need(len(f) >= 8, 'extended header incomplete')
        n = (f[5] << 8) | f[6]
        _need((f[5] + f[6] + f[7]) & 0xFF == 0, 'extended length checksum')
        body = f[8:]
        ext = True
        if not lenient_extended:
            _need(n > 255, 'extended format used for a short frame')
    else:
        n = f[3]
        _need((f[3] + f[4]) & 0xFF == 0, 'length checksum')
        body = f[5:]
        ext = False
    _need(n >= 1, 'LEN is zero in an information frame')
    _need(len(body) == n + 2, 'LEN does not match the number of bytes')
    data, dcs, post = body[:n], body[n], body[n + 1]
    _need((sum(data) + dcs) & 0xFF == 0, 'data checksum')
    _need(post == 0x00, 'postamble')
    tfi = data[0]
    if tfi == 0x7F:
        return Frame('error', tfi, None, bytes(data[1:]), ext)
    code = data[1] if n >= 2 else None
    return Frame('info', tfi, code, bytes(data[2:]), ext)


def pn53x_command(frame, max_frame_size=None):
    """A frame the host may write: returns (code, payload)."""
    fr = pn53x_parse(frame, lenient_extended=False)
    _need(fr.kind == 'info', 'not an information frame: %s' % fr.kind)
    _need(fr.tfi == 0xD4, 'TFI is not D4')
    _need(fr.code is not None, 'no command code')
    if max_frame_size is not None:
        _need(len(fr.data) + 2 <= max_frame_size, 'longer than the chip takes')
    return fr.code, fr.data


def pn53x_response(frame, cmd_code):
    """A response the host may accept as data for `cmd_code`: returns the
    payload.  Raises Invalid for everything else (ack, error frame, ...)."""
    fr = pn53x_parse(frame)
    _need(fr.kind == 'info', 'not an information frame: %s' % fr.kind)
    _need(fr.tfi == 0xD5, 'TFI is not D5')
    _need(fr.code == (cmd_code + 1) & 0xFF, 'response code')
    return fr.data


def pn53x_is_error_frame(frame):
    try:
        return pn53x_parse(frame).kind == 'error'
    except Invalid:
        return False


def pn53x_build(tfi_and_data, extended=None):
    """Reference encoder (used by the simulators and to make valid response
    frames for the mutation alphabets)."""
    d = bytes(tfi_and_data)
    n = len(d)
    if extended is None:
        extended = n > 255
    if extended:
        head = bytes((0, 0, 0xFF, 0xFF, 0xFF, n >> 8, n & 0xFF,
                      (-(n >> 8) - (n & 0xFF)) & 0xFF))
    else:
        assert n <= 255
        head = bytes((0, 0, 0xFF, n, (-n) & 0xFF))
    return head + d + bytes(((-sum(d)) & 0xFF, 0))


# ----------------------------------------------------------------------------
# CCID + ACR122U pseudo APDU
# ----------------------------------------------------------------------------
def ccid_parse(frame, msg_type):
    f = bytes(frame)
    _need(len(f) >= 10, 'shorter than a CCID header')
    _need(f[0] == msg_type, 'bMessageType')
    n = f[1] | f[2] << 8 | f[3] << 16 | f[4] << 24
    _need(n == len(f) - 10, 'dwLength does not match')
    return f[5:10], f[10:]


def acr122_command(frame):
    """PC_to_RDR_XfrBlock carrying the direct-transmit pseudo APDU:
    returns (code, payload) of the PN532 command inside."""
    head, apdu = ccid_parse(frame, 0x6F)
    _need(head[0] == 0, 'bSlot')
    _need(head[3:5] == b'\x00\x00', 'wLevelParameter')
    _need(len(apdu) >= 5, 'APDU header incomplete')
    _need(apdu[0:4] == b'\xFF\x00\x00\x00', 'not a direct transmit APDU')
    _need(apdu[4] == len(apdu) - 5, 'Lc does not match')
    body = apdu[5:]
    _need(len(body) >= 2, 'no PN532 command inside')
    _need(body[0] == 0xD4, 'TFI is not D4')
    return body[1], body[2:]


def acr122_escape(frame):
    """Any PC_to_RDR_XfrBlock: returns abData."""
    return ccid_parse(frame, 0x6F)[1]


def acr122_response(frame, cmd_code):
    """RDR_to_PC_DataBlock with D5 code+1 data 90 00: returns data."""
    head, body = ccid_parse(frame, 0x80)
    _need(len(body) >= 4, 'shorter than D5 cc 90 00')
    _need(body[0] == 0xD5, 'TFI is not D5')
    _need(body[1] == (cmd_code + 1) & 0xFF, 'response code')
    _need(body[-2:] == b'\x90\x00', 'status word')
    return body[2:-2]


def ccid_build(msg_type, data, slot=0, seq=0, tail=b'\x00\x00\x00'):
    n = len(data)
    return bytes((msg_type, n & 0xFF, n >> 8 & 0xFF, n >> 16 & 0xFF,
                  n >> 24 & 0xFF, slot, seq)) + bytes(tail) + bytes(data)


# ----------------------------------------------------------------------------
# RC-S380
# ----------------------------------------------------------------------------
def rcs380_parse(frame):
    f = bytes(frame)
    _need(len(f) >= 5, 'shorter than the shortest frame')
    _need(f[0:3] == b'\x00\x00\xFF', 'preamble / start code')
    if f == ACK:
        return Frame('ack', None, None, b'', False)
    if f == b'\x00\x00\xFF\xFF\xFF':
        return Frame('error', None, None, b'', True)
    _need(f[3:5] == b'\xFF\xFF', 'not an extended frame')
    _need(len(f) >= 8, 'header incomplete')
    n = f[5] | (f[6] << 8)
    _need((f[5] + f[6] + f[7]) & 0xFF == 0, 'length checksum')
    body = f[8:]
    _need(len(body) == n + 2, 'LEN does not match the number of bytes')
    data, dcs, post = body[:n], body[n], body[n + 1]
    _need((sum(data) + dcs) & 0xFF == 0, 'data checksum')
    _need(post == 0, 'postamble')
    _need(n >= 2, 'no command code')
    return Frame('info', data[0], data[1], bytes(data[2:]), True)


def rcs380_command(frame):
    fr = rcs380_parse(frame)
    _need(fr.kind == 'info', 'not a data frame')
    _need(fr.tfi == 0xD6, 'first byte is not D6')
    return fr.code, fr.data


def rcs380_build(data):
    d = bytes(data)
    n = len(d)
    lo, hi = n & 0xFF, n >> 8
    return (b'\x00\x00\xFF\xFF\xFF' + bytes((lo, hi, (-lo - hi) & 0xFF)) + d
            + bytes(((-sum(d)) & 0xFF, 0)))


def selftest():
    # frames printed in the PN532 user manual / ACR122U API / nfcpy docs
    assert pn53x_command(bytes.fromhex('0000FF02FED4022A00')) == (2, b'')
    assert pn53x_response(bytes.fromhex('0000FF06FAD50332010607E800'), 2) \
        == bytes.fromhex('32010607')
    assert pn53x_parse(ERROR).kind == 'error'
    assert pn53x_parse(ACK).kind == 'ack' and pn53x_parse(NACK).kind == 'nack'
    assert pn53x_build(b'\xD4\x02') == bytes.fromhex('0000FF02FED4022A00')
    big = pn53x_build(b'\xD4\x00' + bytes(300))
    assert big[:8] == bytes.fromhex('0000FFFFFF012ED1')
    assert pn53x_command(big) == (0, bytes(300))
    for bad in ('0000FF02FED4022B00', '0000FF02FDD4022A00', '0000FF02FED4022A01',
                '0000FF02FED4022A0000', '00FF02FED4022A00'):
        try:
            pn53x_parse(bytes.fromhex(bad))
        except Invalid:
            pass
        else:
            raise AssertionError(bad)
    assert acr122_command(bytes.fromhex(
        '6f070000000000000000ff00000002d402')) == (2, b'')
    assert acr122_response(bytes.fromhex(
        '80080000000000008100d503320106079000'), 2) == bytes.fromhex('32010607')
    assert rcs380_command(bytes.fromhex('0000ffffff0300fdd62a01ff00')) \
        == (0x2A, b'\x01')
    assert rcs380_build(b'\xd6\x2a\x01') == bytes.fromhex(
        '0000ffffff0300fdd62a01ff00')
    return True


selftest()
