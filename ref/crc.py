"""Bitwise ISO/IEC 14443-3 CRC_A and CRC_B (Annex B), written from the
standard and independent of nfc.clf.device.calculate_crc.

The standard defines both as the ISO/IEC 13239 frame check sequence with the
generator x^16 + x^12 + x^5 + 1; data bits enter least significant bit of
each byte first.

  CRC_A: register preset 0x6363, no final inversion.
  CRC_B: register preset 0xFFFF, the transmitted value is the ones' complement.

Both are transmitted low byte first.

The register here is the textbook *left-shifting* (MSB-first) form with the
polynomial 0x1021; feeding the data bits LSB-first into it and bit-reversing
the final register gives the value in the orientation the standard prints
(nfcpy uses the right-shifting, reflected form with 0x8408 - a different
formulation of the same definition, which is the point of this reference).
"""

POLY = 0x1021


def _rev16(x):
    r = 0
    for _ in range(16):
        r = (r << 1) | (x & 1)
        x >>= 1
    return r


def _fcs(data, preset):
    reg = _rev16(preset)
    for octet in bytes(data):
        for i in range(8):                    # least significant bit first
            bit = (octet >> i) & 1
            top = (reg >> 15) & 1
            reg = (reg << 1) & 0xFFFF
            if top ^ bit:
                reg ^= POLY
    return _rev16(reg)


def crc_a(data):
    """16-bit CRC_A value (low byte is transmitted first)."""
    return _fcs(data, 0x6363)


def crc_b(data):
    """16-bit CRC_B value (low byte is transmitted first)."""
    return _fcs(data, 0xFFFF) ^ 0xFFFF


def crc_a_bytes(data):
    c = crc_a(data)
    return bytes((c & 0xFF, c >> 8))


def crc_b_bytes(data):
    c = crc_b(data)
    return bytes((c & 0xFF, c >> 8))


def append_a(data):
    return bytes(data) + crc_a_bytes(data)


def append_b(data):
    return bytes(data) + crc_b_bytes(data)


def valid_a(frame):
    frame = bytes(frame)
    return len(frame) >= 2 and frame[-2:] == crc_a_bytes(frame[:-2])


def valid_b(frame):
    frame = bytes(frame)
    return len(frame) >= 2 and frame[-2:] == crc_b_bytes(frame[:-2])


def selftest():
    """Examples printed in ISO/IEC 14443-3 Annex B (and NFC Forum Digital)."""
    # CRC_A of 00 00 -> transmitted A0 1E ; of 12 34 -> 26 CF
    assert crc_a_bytes(b'\x00\x00') == b'\xA0\x1E'
    assert crc_a_bytes(b'\x12\x34') == b'\x26\xCF'
    # CRC_B of 00 00 00 -> CC C6 ; of 0F AA FF -> FC D1
    assert crc_b_bytes(b'\x00\x00\x00') == b'\xCC\xC6'
    assert crc_b_bytes(b'\x0F\xAA\xFF') == b'\xFC\xD1'
    # well known frames: HLTA 50 00 57 CD, READ(4) 30 04 26 EE
    assert append_a(b'\x50\x00') == b'\x50\x00\x57\xCD'
    assert append_a(b'\x30\x04') == b'\x30\x04\x26\xEE'
    # REQB 05 00 00 71 FF, WUPB 05 00 08 39 73
    assert append_b(b'\x05\x00\x00') == b'\x05\x00\x00\x71\xFF'
    assert append_b(b'\x05\x00\x08') == b'\x05\x00\x08\x39\x73'
    # residues: a frame followed by its own CRC leaves 0 (A) / 0xF0B8 (B)
    assert _fcs(append_a(b'abc'), 0x6363) == 0
    assert _fcs(append_b(b'abc'), 0xFFFF) == 0xF0B8
    return True


selftest()
