"""Reference automaton for ContactlessFrontend.connect() and sense(), written
from their docstrings and the wording of property C18 (DESIGN A.6).  Nothing
here looks at how the implementation works; it judges recorded histories.
"""


def truth(v):
    return bool(v)


def ret_class(v):
    if v is None or v is True or v is False:
        return repr(v)
    return type(v).__name__


# -- sense ---------------------------------------------------------------------
def expect_sense(kinds, KINDS, iterations):
    """Walk the target list in argument order, `iterations` times."""
    field = {}
    for k in kinds:
        brty, what = KINDS[k]
        if what in ('found', 'absent', 'unsupported', 'error'):
            field.setdefault(brty, what)
    dep_unsupported = 'D!' in kinds
    single = len(kinds) == 1
    for _ in range(max(1, iterations)):
        for k in kinds:
            brty, what = KINDS[k]
            if what in ('badsel', 'badatr'):
                # "Errors found in the targets argument list raise exceptions
                # only if exactly one target is given.  If multiple targets
                # are provided, any target that is not supported or has
                # invalid attributes is just ignored"
                if single:
                    return ('valueerror', None)
                continue
            if what is None:                    # unknown technology letter
                if single:
                    return ('unsupported', None)
                continue
            if what in ('dep-unsupported', 'dep-absent'):
                if dep_unsupported:
                    if single:
                        return ('unsupported', None)
                continue
            state = field.get(brty, 'absent')
            if state == 'found':
                return ('ret', brty)
            if state == 'unsupported' and single:
                return ('unsupported', None)
    return ('ret', None)


def check_sense(kinds, KINDS, iterations, res, sense_log, xres, xlog,
                clf_target, invalid):
    bad = []
    want = expect_sense(kinds, KINDS, iterations)
    got_kind = res[0]
    if got_kind == 'exc':
        return [('raises|%s' % type(res[1]).__name__,
                 dict(error=repr(res[1]), kinds=kinds))]
    if got_kind == 'unsupported' and len(kinds) > 1:
        bad.append(('unsupported-raised-with-several-targets',
                    dict(kinds=kinds)))
    if got_kind != want[0]:
        bad.append(('result-kind|want=%s|got=%s' % (want[0], got_kind),
                    dict(kinds=kinds, iterations=iterations)))
        return bad
    found = None
    if got_kind == 'ret':
        found = res[1]
        got_brty = None if found is None else found.brty
        if got_brty != want[1]:
            bad.append(('wrong-target|want=%s|got=%s' % (want[1], got_brty),
                        dict(kinds=kinds)))
    devcalls = [e for e in sense_log if e[0] == 'dev']
    if found is None:
        # nothing found (or an exception): field off, no target kept,
        # exchange() must not use anything from an earlier sense/listen
        if devcalls and devcalls[-1][1] != 'mute' and got_kind == 'ret':
            bad.append(('field-left-on', dict(last=devcalls[-1],
                                              kinds=kinds)))
        if clf_target is not None:
            bad.append(('stale-target-kept', dict(target=str(clf_target))))
        if xres[0] == 'exc':
            bad.append(('exchange-raises|%s' % type(xres[1]).__name__,
                        dict(error=repr(xres[1]))))
        elif xres[1] is not None or [e for e in xlog if e[0] == 'dev']:
            bad.append(('exchange-used-stale-target',
                        dict(result=repr(xres[1]), calls=xlog)))
    return bad


# -- connect ---------------------------------------------------------------------
def check_connect(opts, log, ret, objs, term_at, happened=None,
                  interrupted=False):
    bad = []
    cbs = [(i, e) for i, e in enumerate(log) if e[0] == 'cb']
    devs = [i for i, e in enumerate(log) if e[0] == 'dev']
    first_dev = devs[0] if devs else len(log)
    if ret[0] == 'exc':
        return [('raises|%s' % type(ret[1]).__name__,
                 dict(error=repr(ret[1])))]
    value = ret[1]
    # R1: on-startup once per option, before anything else
    alive = set()
    for kind in opts:
        st = [(i, e) for i, e in cbs if e[1] == kind and e[2] == 'on-startup']
        if len(st) != 1:
            bad.append(('on-startup-count|%s' % kind, dict(n=len(st))))
            continue
        i, e = st[0]
        others = [j for j, x in cbs if x[2] != 'on-startup']
        if i > first_dev or (others and i > others[0]):
            bad.append(('on-startup-late|%s' % kind, {}))
        ok = e[5] and e[6] not in ('not the right type',)
        if ok:
            alive.add(kind)
    # R2: per kind (discover -> connect -> release)*
    last_event = None
    for kind in opts:
        seq = [(i, e) for i, e in cbs if e[1] == kind
               and e[2] != 'on-startup']
        if kind not in alive and seq:
            bad.append(('callback-after-option-removed|%s' % kind,
                        dict(events=[e[2] for _, e in seq])))
        state, pending = 'idle', None
        for i, e in seq:
            name, argid, tr = e[2], e[4], e[5]
            if name == 'on-discover':
                if state == 'release-due':
                    bad.append(('on-release-missing|%s' % kind, {}))
                state = 'discovered' if tr else 'idle'
            elif name == 'on-connect':
                if kind != 'llcp' and state != 'discovered':
                    bad.append(('on-connect-without-discover|%s' % kind, {}))
                if state == 'release-due':
                    bad.append(('on-release-missing|%s' % kind, {}))
                state = 'release-due' if tr else 'idle'
                pending = argid
            elif name == 'on-release':
                if state != 'release-due':
                    bad.append(('on-release-unexpected|%s' % kind, {}))
                elif argid != pending:
                    bad.append(('on-release-other-object|%s' % kind, {}))
                state = 'idle'
        if state == 'release-due':
            bad.append(('on-release-missing|%s' % kind, {}))
    # R2b: callbacks of an activation need an activation: no more
    # on-discover (rdwr, card) / on-connect (llcp) calls than targets were
    # discovered / peers were activated in the environment
    if happened is not None:
        for kind in opts:
            first = 'on-connect' if kind == 'llcp' else 'on-discover'
            n = len([1 for i, e in cbs if e[1] == kind and e[2] == first])
            if n > happened.get(kind, 0):
                bad.append(('callback-without-activation|%s' % kind,
                            dict(callbacks=n, activations=happened.get(kind))))
    # R3: promptness after terminate() became true
    terms = [(i, e) for i, e in enumerate(log) if e[0] == 'terminate']
    first_true = next((i for i, e in terms if e[1]), None)
    if first_true is not None:
        late = [e for i, e in cbs if i > first_true
                and e[2] in ('on-discover', 'on-connect')]
        if late:
            bad.append(('activation-after-terminate',
                        dict(events=[(e[1], e[2]) for e in late])))
        more = [1 for i, e in terms if i > first_true]
        if len(more) > 3:
            bad.append(('terminate-polled-on', dict(n=len(more))))
    # R4: return value
    acts = [(i, e) for i, e in cbs if e[2] != 'on-startup']
    if not alive:
        if value is not None:
            bad.append(('return|no-options|got=%s' % ret_class(value), {}))
        if devs:
            bad.append(('device-used-without-options', {}))
        return bad
    final = acts[-1][1] if acts else None
    if final is not None and final[2] == 'on-connect' and not final[5]:
        if value is not objs.get(final[4]):
            bad.append(('return|on-connect-false|got=%s' % ret_class(value),
                        dict(want=final[3])))
    elif final is not None and final[2] == 'on-release' and final[5]:
        want = final[6]
        if not (value == want or (want == 'object' and value is not None)):
            bad.append(('return|after-release|got=%s' % ret_class(value),
                        dict(want=want)))
    else:
        # "returns None ... when the 'terminate' function returned a true
        # value"; False is documented for KeyboardInterrupt, IOError and
        # UnsupportedTargetError only (cases with an injected host-link
        # fault are judged by the caller and never get here).  A false value
        # returned by an earlier 'on-release' is not the result of connect().
        if value is not None and not (value is False and interrupted):
            bad.append(('return|terminated|got=%s' % ret_class(value),
                        dict(last_callback=final[2] if final else None,
                             last_callback_returned=final[6] if final
                             else None)))
    return bad
