"""Reference side of C04 (DESIGN Appendix A.5): payload patterns, the size
alphabet, protocol-step segmentation of a channel log and the delivery oracle.

Nothing here imports nfc.dep.  The only things compared are payload lists,
exception classes and frame sizes.
"""

LR = (64, 128, 192, 254)      # LRi / LRt code -> maximum transport data bytes


def payload(direction, index, size):
    """Bytes that encode (direction, exchange index, offset): bit 7 is the
    direction, the rest a ramp whose phase depends on the index and that does
    not repeat with any MIU."""
    d = 0x80 if direction == 'T' else 0x00
    return bytes(d | ((17 * index + 5 + j + j // 127) % 127)
                 for j in range(size))


def ref_miu(lr_code, did, nad):
    """Largest payload of one DEP frame the receiver can take: LR minus
    CMD0 CMD1 PFB [DID] [NAD]."""
    return LR[lr_code] - 3 - int(did is not None) - int(nad is not None)


def size_alphabet(miu):
    return [1, miu - 1, miu, miu + 1, 2 * miu, 2 * miu + 1]


def conversation(miu_it, miu_ti, rot=0, n=6):
    """n exchanges; every size class occurs once per direction, the target
    sizes are rotated by `rot` against the initiator sizes so that over six
    rotations every (initiator class, target class) pair occurs."""
    order = [0, 3, 5, 2, 4, 1]       # mix chained and unchained neighbours
    si = [size_alphabet(miu_it)[order[k % 6]] for k in range(n)]
    st = [size_alphabet(miu_ti)[order[(k + rot) % 6]] for k in range(n)]
    return list(zip(si, st))


# ----------------------------------------------------------------------------
# Protocol steps
# ----------------------------------------------------------------------------
ACT = ('ATR_REQ', 'ATR_RES', 'PSL_REQ', 'PSL_RES')
END = ('RLS_REQ', 'RLS_RES', 'DSL_REQ', 'DSL_RES')


def segment(frames):
    """Assign every frame of a channel log to a protocol step.

    A DEP step is one initiator PDU that carries the exchange forward (INF,
    INF with MI, ACK, RTOX) together with everything sent until the next such
    PDU: its response, ATN/NAK recovery traffic and byte-identical
    retransmissions.  ATR, PSL and RLS/DSL exchanges are steps of kind 'act' /
    'end'.  Returns a list of dicts(kind, frames, first)."""
    steps = []
    cur = None
    cur_bytes = None
    for f in frames:
        k = f.p.kind
        if k in ACT or k in END:
            kind = 'act' if k in ACT else 'end'
            if cur is None or cur['kind'] != kind or (
                    f.src == 'I' and f.data != cur_bytes):
                cur = dict(kind=kind, frames=[], name=k)
                steps.append(cur)
                if f.src == 'I':
                    cur_bytes = f.data
            cur['frames'].append(f)
            continue
        if f.src == 'I' and k == 'DEP_REQ' and f.p.pdu in (
                'INF', 'INF+', 'ACK', 'RTOX') and (
                cur is None or cur['kind'] != 'dep' or f.data != cur_bytes):
            cur = dict(kind='dep', frames=[], name=f.p.pdu)
            steps.append(cur)
            cur_bytes = f.data
        elif cur is None:
            cur = dict(kind='dep', frames=[], name='?')
            steps.append(cur)
        cur['frames'].append(f)
    return steps


def classify_mismatch(got, expected_list, i):
    """How does got (delivered as item i) differ from expected_list[i]?"""
    exp = expected_list[i] if i < len(expected_list) else None
    if exp is not None and got == exp:
        return None
    for j, e in enumerate(expected_list):
        if got == e:
            return 'duplicate' if j < i else 'reordered'
    if exp is None:
        return 'foreign'        # more items than were ever sent
    if len(got) < len(exp) and exp.startswith(got):
        return 'truncated'
    if len(got) > len(exp) and got.startswith(exp):
        return 'extended'
    if len(got) == len(exp):
        return 'altered'
    return 'foreign'


def check_delivery(got, expected_list):
    """got must be a prefix of expected_list.  Returns None or (index, class)."""
    for i, g in enumerate(got):
        c = classify_mismatch(g, expected_list, i)
        if c is not None:
            return i, c
    return None
