"""Independent model of the Type 4 Tag NDEF mapping (DESIGN Appendix A.3),
written from the NFC Forum T4T operation specification.

CC file:  CCLEN(2) | mapping version(1) | MLe(2) | MLc(2) | NDEF File Control
TLV `04 06 fid(2) size(2) read(1) write(1)` or Extended NDEF File Control TLV
`06 08 fid(2) size(4) read(1) write(1)`.
NDEF file: NLEN (2 bytes, 4 bytes with the extended TLV) | NDEF message;
`size` is the maximum size of the whole file, so the message capacity is
size - len(NLEN).
"""


class CC(object):
    def __init__(self, cc):
        cc = bytes(cc)
        self.cclen = int.from_bytes(cc[0:2], 'big')
        self.version = cc[2]
        self.mle = int.from_bytes(cc[3:5], 'big')
        self.mlc = int.from_bytes(cc[5:7], 'big')
        self.tlv_t, self.tlv_l = cc[7], cc[8]
        v = cc[9:9 + self.tlv_l]
        self.fid = v[0:2]
        if self.tlv_t == 4 and self.tlv_l == 6:
            self.mfs = int.from_bytes(v[2:4], 'big')
            self.rf, self.wf = v[4], v[5]
            self.nlen_size = 2
        elif self.tlv_t == 6 and self.tlv_l == 8:
            self.mfs = int.from_bytes(v[2:6], 'big')
            self.rf, self.wf = v[6], v[7]
            self.nlen_size = 4
        else:
            raise ValueError('no NDEF file control TLV')
        self.ok = self.cclen == len(cc) == 9 + self.tlv_l

    @property
    def capacity(self):
        return self.mfs - self.nlen_size


def read(cc, ndef_file):
    c = CC(cc)
    n = int.from_bytes(ndef_file[0:c.nlen_size], 'big')
    if n > c.capacity or c.nlen_size + n > len(ndef_file):
        return None
    return bytes(ndef_file[c.nlen_size:c.nlen_size + n])


def place(cc, ndef_file, message):
    c = CC(cc)
    assert len(message) <= c.capacity
    ndef_file[0:c.nlen_size] = len(message).to_bytes(c.nlen_size, 'big')
    ndef_file[c.nlen_size:c.nlen_size + len(message)] = message
    return ndef_file
