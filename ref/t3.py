"""Independent model of the Type 3 Tag NDEF layout (DESIGN Appendix A.2),
written from the NFC Forum T3T operation specification.

Block 0 = attribute information block:
  0 Ver | 1 Nbr | 2 Nbw | 3-4 Nmaxb | 5-8 RFU | 9 WriteF | 10 RWFlag |
  11-13 Ln | 14-15 checksum (sum of bytes 0..13)
NDEF data occupies blocks 1..Nmaxb (16 bytes each), message = first Ln bytes.
"""


class Attr(object):
    def __init__(self, block):
        b = bytes(block)
        assert len(b) == 16
        self.ver, self.nbr, self.nbw = b[0], b[1], b[2]
        self.nmaxb = b[3] << 8 | b[4]
        self.rfu = b[5:9]
        self.writef, self.rwflag = b[9], b[10]
        self.ln = b[11] << 16 | b[12] << 8 | b[13]
        self.checksum = b[14] << 8 | b[15]
        self.checksum_ok = self.checksum == sum(b[0:14])

    def __repr__(self):
        return ("Attr(ver=%02x nbr=%d nbw=%d nmaxb=%d wf=%02x rw=%02x ln=%d %s)"
                % (self.ver, self.nbr, self.nbw, self.nmaxb, self.writef,
                   self.rwflag, self.ln, 'ok' if self.checksum_ok else 'BAD'))


def build_attr(ver, nbr, nbw, nmaxb, writef, rwflag, ln, rfu=0):
    b = bytearray(16)
    b[0:3] = bytes([ver, nbr, nbw])
    b[3:5] = nmaxb.to_bytes(2, 'big')
    b[5:9] = bytes([rfu]) * 4
    b[9], b[10] = writef, rwflag
    b[11:14] = ln.to_bytes(3, 'big')
    b[14:16] = sum(b[0:14]).to_bytes(2, 'big')
    return b


def capacity(mem):
    return Attr(mem[0:16]).nmaxb * 16


def well_formed(mem):
    a = Attr(mem[0:16])
    return (a.checksum_ok and a.ver >> 4 == 1 and a.nbr >= 1 and a.nbw >= 1
            and a.nmaxb <= len(mem) // 16 - 1 and a.writef == 0
            and a.rwflag == 1 and a.ln <= 16 * a.nmaxb)


def read(mem):
    """What a reader must see: None (no valid attribute block), 'busy'
    (WriteF set: write in progress, not readable) or the message bytes."""
    a = Attr(mem[0:16])
    if not a.checksum_ok or a.ver >> 4 != 1:
        return None
    if a.writef != 0:
        return 'busy'
    if a.ln > 16 * a.nmaxb or 16 + a.ln > len(mem):
        return None
    return bytes(mem[16:16 + a.ln])


def place(mem, message):
    """Reference writer for pre-images: data blocks, then Ln and checksum."""
    a = Attr(mem[0:16])
    assert len(message) <= 16 * a.nmaxb
    mem[16:16 + len(message)] = message
    mem[0:16] = build_attr(a.ver, a.nbr, a.nbw, a.nmaxb, 0, a.rwflag,
                           len(message), a.rfu[0])
    return mem


def area(mem):
    """NDEF area for C03 as byte addresses: blocks 1..Nmaxb and the attribute
    fields WriteF, Ln, checksum."""
    a = Attr(mem[0:16])
    s = set(range(16, 16 * (a.nmaxb + 1)))
    s |= {9, 11, 12, 13, 14, 15}
    return s
