"""Independent layout model of the Type 1 / Type 2 Tag data area (DESIGN
Appendix A.1), written from the NFC Forum T1T / T2T operation specifications.

A data area is the byte range [start, end) of a linear memory image; it holds
a sequence of TLV blocks: NULL (00), Lock Control (01 03 ...), Memory Control
(02 03 ...), proprietary (FD), NDEF Message (03), Terminator (FE).  Lock
Control and Memory Control TLVs declare reserved byte ranges (dynamic lock
bytes, reserved memory); reserved bytes are not part of the data area contents:
a reader / writer jumps over them.

    Lock Control value    : [PageAddr<<4 | ByteOffset, size in BITS (0=256),
                             BytesLockedPerLockBit<<4 | BytesPerPage]
    Memory Control value  : [PageAddr<<4 | ByteOffset, size in BYTES (0=256),
                             RFU<<4 | BytesPerPage]
    first reserved byte   = PageAddr * 2**BytesPerPage + ByteOffset

The walker is sequential, the NDEF value bytes skip reserved addresses,
avail = number of non reserved bytes from the NDEF T byte to the end of the
data area, fits(n) <=> n + (2 if n < 255 else 4) <= avail.
"""

NULL, LOCK, MEM, NDEF, PROP, TERM = 0x00, 0x01, 0x02, 0x03, 0xFD, 0xFE


def ctrl_range(tlv_type, value):
    page, offs = value[0] >> 4, value[0] & 15
    size = value[1] or 256
    first = page * (1 << (value[2] & 15)) + offs
    count = (size + 7) // 8 if tlv_type == LOCK else size
    return first, count


def encode_addr(addr):
    """(byte0, bytes_per_page_exponent) addressing `addr`, or None."""
    for k in range(16):
        page = addr >> k
        offs = addr - (page << k)
        if page <= 15 and offs <= 15:
            return page << 4 | offs, k
    return None


def lock_tlv(addr, nbits):
    b0, k = encode_addr(addr)
    return bytes([LOCK, 3, b0, nbits & 255, 0x30 | k])


def mem_tlv(addr, nbytes):
    b0, k = encode_addr(addr)
    return bytes([MEM, 3, b0, nbytes & 255, k])


def length_field(n):
    return bytes([n]) if n < 255 else bytes([0xFF, n >> 8, n & 255])


def max_fit(avail):
    """Largest message length that fits into `avail` bytes (T + L + V)."""
    if avail < 2:
        return -1
    if avail - 2 <= 254:
        return avail - 2
    return max(254, avail - 4)


def fits(n, avail):
    return n + (2 if n < 255 else 4) <= avail


class Layout(object):
    """Result of walking a data area."""

    def __init__(self):
        self.start = self.end = 0
        self.reserved = set()       # all reserved addresses (fixed + by TLV)
        self.tlv_reserved = set()   # reserved by control TLVs only
        self.ndef_off = None        # address of the NDEF T byte
        self.len_size = 0
        self.length = None
        self.value_addrs = None     # addresses of the value bytes
        self.tlvs = []              # (address, type, length)
        self.error = None

    @property
    def free(self):
        """non reserved addresses from the NDEF T byte to the end"""
        return [a for a in range(self.ndef_off, self.end)
                if a not in self.reserved]

    @property
    def avail(self):
        return len(self.free)

    @property
    def capacity(self):
        return max_fit(self.avail)

    @property
    def area(self):
        """The NDEF area for C03: NDEF T and L bytes and every non reserved
        byte from there to the end of the data area."""
        return set(self.free)

    def value(self, mem):
        return bytes(mem[a] for a in self.value_addrs)


def walk(mem, start, end, fixed_reserved=()):
    lay = Layout()
    lay.start, lay.end = start, end
    lay.reserved = set(fixed_reserved)
    p = start
    while p < end:
        if p in lay.reserved:
            p += 1
            continue
        t = mem[p]
        if t == NULL:
            lay.tlvs.append((p, t, 0))
            p += 1
            continue
        if t == TERM:
            lay.tlvs.append((p, t, 0))
            lay.error = 'terminator before NDEF TLV'
            return lay
        if p + 1 >= end:
            lay.error = 'TLV without length at end of data area'
            return lay
        n, lsize = mem[p + 1], 1
        if n == 0xFF:
            if p + 3 >= end:
                lay.error = 'truncated 3-byte length'
                return lay
            n, lsize = mem[p + 2] << 8 | mem[p + 3], 3
        lay.tlvs.append((p, t, n))
        if t == NDEF:
            lay.ndef_off, lay.len_size, lay.length = p, lsize, n
            addrs, a = [], p + 1 + lsize
            while len(addrs) < n and a < end:
                if a not in lay.reserved:
                    addrs.append(a)
                a += 1
            if len(addrs) < n:
                lay.error = 'NDEF value exceeds data area'
            lay.value_addrs = addrs
            return lay
        if t in (LOCK, MEM) and n == 3:
            first, count = ctrl_range(t, mem[p + 2:p + 5])
            rng = set(range(first, first + count))
            lay.reserved |= rng
            lay.tlv_reserved |= rng
        p += 1 + lsize + n
    lay.error = 'no NDEF TLV'
    return lay


def place(mem, lay, message, terminator=True):
    """Write `message` into the NDEF TLV of layout `lay` (reference writer
    used to build tag pre-images): T, L, value bytes on non reserved
    addresses, terminator TLV on the next non reserved address if room."""
    n = len(message)
    assert fits(n, lay.avail), (n, lay.avail)
    lf = length_field(n)
    p = lay.ndef_off
    mem[p] = NDEF
    for i, b in enumerate(lf):
        assert p + 1 + i not in lay.reserved
        mem[p + 1 + i] = b
    a = p + 1 + len(lf)
    for b in message:
        while a in lay.reserved:
            a += 1
        mem[a] = b
        a += 1
    if terminator:
        while a in lay.reserved:
            a += 1
        if a < lay.end:
            mem[a] = TERM
    return mem
