"""Independent reading of the LLCP 1.3 frame formats (NFCForum-TS-LLCP_1.3,
section 4.2-4.5).  Plain tuples, no code shared with nfc.llcp.pdu.

read(b) -> ('NAME', dsap, ssap, fields...)        a definite reading
        -> None                                   the format leaves the reading
                                                  open (duplicate/ill-sized
                                                  TLVs, trailing octets, ...):
                                                  no comparison is made
        raises Reject                             not a PDU at all (the
                                                  implementation may still
                                                  accept or reject; only used
                                                  for the 'too short' cases)
"""

NAMES = {0: 'SYMM', 1: 'PAX', 2: 'AGF', 3: 'UI', 4: 'CONNECT', 5: 'DISC',
         6: 'CC', 7: 'DM', 8: 'FRMR', 9: 'SNL', 10: 'DPS', 12: 'I', 13: 'RR',
         14: 'RNR'}

VERSION, MIUX, WKS, LTO, RW, SN, OPT, SDREQ, SDRES, ECPK, RN = range(1, 12)
FIXED_LEN = {VERSION: 1, MIUX: 2, WKS: 2, LTO: 1, RW: 1, OPT: 1, SDRES: 2}


class Reject(Exception):
    pass


class Open(Exception):
    """The frame format does not determine the reading."""


def tlvs(b):
    """Split a parameter list into (T, V) pairs; Open if not exactly tiled."""
    out, i = [], 0
    while i < len(b):
        if i + 2 > len(b):
            raise Open()
        t, l = b[i], b[i + 1]
        if i + 2 + l > len(b):
            raise Open()
        v = bytes(b[i + 2:i + 2 + l])
        if t in FIXED_LEN and l != FIXED_LEN[t]:
            raise Open()
        if t == SDREQ and l < 1:
            raise Open()
        out.append((t, v))
        i += 2 + l
    return out


def params(b, allowed):
    """dict of the allowed parameters; Open on duplicates or foreign TLVs."""
    d = {}
    for t, v in tlvs(b):
        if t not in allowed or t in d:
            raise Open()
        d[t] = v
    return d


def u(v):
    return int.from_bytes(v, 'big')


def read(b):
    try:
        return _read(bytes(b))
    except Open:
        return None


def _read(b):
    if len(b) < 2:
        raise Reject("short")
    dsap, ptype, ssap = b[0] >> 2, ((b[0] & 3) << 2) | (b[1] >> 6), b[1] & 63
    body = b[2:]
    name = NAMES.get(ptype)
    if name is None:
        return ('UNKNOWN', dsap, ssap, ptype, body)
    if name in ('SYMM', 'PAX', 'AGF', 'DPS') and (dsap, ssap) != (0, 0):
        raise Open()
    if name == 'SNL' and (dsap, ssap) != (1, 1):
        raise Open()
    if name == 'SYMM':
        if body:
            raise Open()
        return (name, dsap, ssap)
    if name == 'PAX':
        d = params(body, (VERSION, MIUX, WKS, LTO, OPT))
        return (name, dsap, ssap,
                u(d[VERSION]) if VERSION in d else None,
                u(d[MIUX]) & 0x7FF if MIUX in d else None,
                u(d[WKS]) if WKS in d else None,
                u(d[LTO]) if LTO in d else None,
                u(d[OPT]) & 0x07 if OPT in d else None)
    if name == 'AGF':
        subs, i = [], 0
        while i < len(body):
            if i + 2 > len(body):
                raise Open()
            n = u(body[i:i + 2])
            if i + 2 + n > len(body) or n < 2:
                raise Open()
            sub = _read(body[i + 2:i + 2 + n])
            if sub[0] in ('AGF', 'SYMM'):
                raise Open()          # forbidden inside an aggregate
            subs.append(sub)
            i += 2 + n
        return (name, dsap, ssap, tuple(subs))
    if name == 'UI':
        return (name, dsap, ssap, body)
    if name == 'CONNECT':
        d = params(body, (MIUX, RW, SN))
        return (name, dsap, ssap,
                128 + (u(d[MIUX]) & 0x7FF) if MIUX in d else 128,
                u(d[RW]) & 0x0F if RW in d else 1,
                d[SN] if d.get(SN) else None)
    if name == 'DISC':
        if body:
            raise Open()
        return (name, dsap, ssap)
    if name == 'CC':
        d = params(body, (MIUX, RW))
        return (name, dsap, ssap,
                128 + (u(d[MIUX]) & 0x7FF) if MIUX in d else 128,
                u(d[RW]) & 0x0F if RW in d else 1)
    if name == 'DM':
        if len(body) != 1:
            raise Open()
        return (name, dsap, ssap, body[0])
    if name == 'FRMR':
        if len(body) != 4:
            raise Open()
        return (name, dsap, ssap, body[0] >> 4, body[0] & 15, body[1] >> 4,
                body[1] & 15, body[2] >> 4, body[2] & 15, body[3] >> 4,
                body[3] & 15)
    if name == 'SNL':
        req, res = [], []
        for t, v in tlvs(body):
            if t == SDREQ:
                req.append((v[0], v[1:]))
            elif t == SDRES:
                res.append((v[0], v[1]))
            else:
                raise Open()
        return (name, dsap, ssap, tuple(req), tuple(res))
    if name == 'DPS':
        d = params(body, (ECPK, RN))
        return (name, dsap, ssap, d.get(ECPK) or None, d.get(RN) or None)
    if name == 'I':
        if len(body) < 1:
            raise Reject("short")
        return (name, dsap, ssap, body[0] >> 4, body[0] & 15, body[1:])
    if name in ('RR', 'RNR'):
        if len(body) < 1:
            raise Reject("short")
        if len(body) > 1:
            raise Open()
        return (name, dsap, ssap, body[0] & 15)
    raise AssertionError(name)
