"""Reference address table for C17, written from the property statement only.

  "A socket is bound to at most one service access point and an address is
   never handed out twice: well-known service names map to their fixed
   address, other names to a free address in 16-31, anonymous binds to a free
   address in 32-63, with EADDRINUSE, EACCES, EFAULT or EAGAIN otherwise, and
   closing the last socket frees the address."

The table does not choose addresses itself where the statement leaves a
choice ("a free address in ..."): `expect_bind` says what outcomes are
acceptable, the harness reports what the implementation did and `commit`
records it after validation.  Keys of sockets are whatever hashable the
harness uses (slot numbers).
"""
import errno

WELL_KNOWN = {b'urn:nfc:sn:sdp': 1, b'urn:nfc:sn:snep': 4}
RAW, LDL, DLC = 'RAW', 'LDL', 'DLC'

NAMED = (16, 31)
DYNAMIC = (32, 63)


def valid_name(name):
    """Service name syntax as far as the check's alphabet needs it:
    urn:nfc:sn:<something> or urn:nfc:xsn:<something>."""
    for prefix in (b'urn:nfc:sn:', b'urn:nfc:xsn:'):
        if name.startswith(prefix) and len(name) > len(prefix):
            return True
    return False


class Expect(object):
    """Acceptable outcomes of one bind()."""

    def __init__(self, why, fixed=None, free_in=None, errnos=(),
                 any_error=False, also_error=()):
        self.why = why                # rule of the statement that applies
        self.fixed = fixed            # must succeed with exactly this address
        self.free_in = free_in        # must succeed with a free address in
        self.errnos = tuple(errnos)   # must fail with one of these errnos
        self.any_error = any_error    # must fail, errno not prescribed
        self.also_error = tuple(also_error)   # success OR one of these errnos

    @property
    def must_fail(self):
        return self.fixed is None and self.free_in is None

    def __repr__(self):
        if self.fixed is not None:
            s = 'address %d' % self.fixed
            if self.also_error:
                s += ' or errno %s' % '/'.join(
                    errno.errorcode[e] for e in self.also_error)
            return '%s (%s)' % (s, self.why)
        if self.free_in is not None:
            return 'a free address in %d-%d (%s)' % (self.free_in + (self.why,))
        if self.any_error:
            return 'an error (%s)' % self.why
        return 'errno %s (%s)' % ('/'.join(errno.errorcode[e]
                                           for e in self.errnos), self.why)


class AddrTable(object):
    def __init__(self):
        self.names = dict(WELL_KNOWN)
        del self.names[b'urn:nfc:sn:snep']     # only SDP exists from the start
        self.holders = {0: ['<llc>'], 1: ['<sdp>']}   # addr -> socket keys
        self.addr_of = {}                      # socket key -> addr
        self.kind = {}                         # socket key -> RAW/LDL/DLC

    # -- queries -----------------------------------------------------------
    def is_free(self, addr):
        return not self.holders.get(addr)

    def free_in(self, lo, hi):
        return [a for a in range(lo, hi + 1) if self.is_free(a)]

    def resolve(self, name):
        """Address currently bound under the name, 0 = absent."""
        return self.names.get(bytes(name), 0)

    def name_of(self, addr):
        for n, a in self.names.items():
            if a == addr:
                return n
        return None

    def sockets_at(self, addr):
        return [k for k in self.holders.get(addr, ()) if k not in
                ('<llc>', '<sdp>')]

    # -- bind --------------------------------------------------------------------
    def expect_bind(self, key, kind, arg):
        if key in self.addr_of:
            return Expect('socket is already bound: at most one SAP',
                          any_error=True)
        if arg is None:
            if self.free_in(*DYNAMIC):
                return Expect('anonymous bind', free_in=DYNAMIC)
            return Expect('no free address in 32-63', errnos=[errno.EAGAIN])
        if isinstance(arg, bool) or not isinstance(
                arg, (int, str, bytes, bytearray)):
            return Expect('address is neither number nor name',
                          errnos=[errno.EFAULT])
        if isinstance(arg, int):
            if arg < 0 or arg > 63:
                return Expect('address out of range', errnos=[errno.EFAULT])
            if DYNAMIC[0] <= arg <= DYNAMIC[1]:
                if self.is_free(arg):
                    return Expect('explicit free address', fixed=arg)
                return Expect('explicit address in use',
                              errnos=[errno.EADDRINUSE])
            if kind == RAW:
                # raw access points are a test facility; the statement does
                # not speak about them: an address that is free may be given
                # or refused, one that is in use must be refused
                if self.is_free(arg):
                    return Expect('raw access point below 32 (free)',
                                  fixed=arg, also_error=[errno.EACCES])
                return Expect('raw access point below 32 (in use)',
                              errnos=[errno.EADDRINUSE, errno.EACCES])
            return Expect('addresses below 32 are not for explicit binds',
                          errnos=[errno.EACCES])
        name = arg.encode('latin') if isinstance(arg, str) else bytes(arg)
        if not valid_name(name):
            return Expect('malformed service name', errnos=[errno.EFAULT])
        if name in self.names:
            return Expect('service name already bound',
                          errnos=[errno.EADDRINUSE])
        if name in WELL_KNOWN:
            a = WELL_KNOWN[name]
            if self.is_free(a):
                return Expect('well-known service name', fixed=a)
            return Expect('well-known address in use',
                          errnos=[errno.EADDRINUSE])
        if self.free_in(*NAMED):
            return Expect('service name', free_in=NAMED)
        # the statement lists EAGAIN; the errno for this case is compared
        # leniently by the driver (DESIGN C17)
        return Expect('no free address in 16-31', errnos=[errno.EAGAIN])

    def commit_bind(self, key, kind, arg, addr):
        """Record a successful bind.  Returns None or a message when the
        address was not free (handed out twice)."""
        msg = None
        if not self.is_free(addr):
            msg = "address %d handed out twice (held by %r)" % (
                addr, self.holders[addr])
        self.holders.setdefault(addr, []).append(key)
        self.addr_of[key] = addr
        self.kind[key] = kind
        if isinstance(arg, (str, bytes, bytearray)):
            name = arg.encode('latin') if isinstance(arg, str) else bytes(arg)
            self.names[name] = addr
        return msg

    def attach(self, key, kind, addr):
        """A socket created by accept() shares the listener's address."""
        self.holders.setdefault(addr, []).append(key)
        self.addr_of[key] = addr
        self.kind[key] = kind

    def close(self, key):
        """Closing the last socket frees the address (and with it the name
        bound to it)."""
        self.kind.pop(key, None)
        addr = self.addr_of.pop(key, None)
        if addr is None:
            return None
        self.holders[addr].remove(key)
        if not self.holders[addr]:
            del self.holders[addr]
            for n in [n for n, a in self.names.items() if a == addr]:
                del self.names[n]
        return addr
