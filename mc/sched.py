"""Virtual threads, locks, conditions and clock under a deterministic scheduler.

Every virtual thread is a real OS thread that only runs while it holds the
baton, so an execution is a deterministic function of the sequence of choices
the `chooser` makes.  See DESIGN.md section 1.2.

Sequential mode: when no scheduler is active (module global ``S`` is None) or
the caller is not a virtual thread (harness set-up on the controller thread),
locks are taken without a scheduling point, ``sleep`` advances the virtual
clock and a wait that nobody could ever end is a HarnessError, not a hang.
"""
import collections
import sys
import threading as _rt
import traceback

S = None            # the active scheduler, if any
_seq_now = [1000.0]  # virtual clock of sequential mode


class Abort(BaseException):
    """Raised inside virtual threads to unwind them when an execution ends."""


class HarnessError(Exception):
    """The harness did something the virtual world cannot represent."""


def cur():
    s = S
    if s is None:
        return None
    return s.by_ident.get(_rt.get_ident())


def now():
    return S.now if S is not None else _seq_now[0]


# ----------------------------------------------------------------------------
class Chooser(object):
    """Replays `prefix`, then takes choice 0.  Logs every choice point as
    (n, costs, chosen, kind, label)."""

    def __init__(self, prefix=()):
        self.prefix = list(prefix)
        self.i = 0
        self.log = []

    def choose(self, n, costs, kind, label=''):
        if self.i < len(self.prefix):
            c = self.prefix[self.i]
            if not 0 <= c < n:
                raise HarnessError(
                    "replay divergence at choice %d: %d not in range(%d) "
                    "kind=%s label=%s" % (self.i, c, n, kind, label))
        else:
            c = 0
        self.i += 1
        self.log.append((n, tuple(costs), c, kind, label))
        return c

    def env(self, n, label=''):
        """Environment answer: choice 0 is the fault-free answer, any other
        costs one deviation."""
        if n <= 1:
            return 0
        return self.choose(n, [0] + [1] * (n - 1), 'env', label)

    @property
    def choices(self):
        return [e[2] for e in self.log]

    @property
    def cost(self):
        return sum(e[1][e[2]] for e in self.log)


# ----------------------------------------------------------------------------
class VT(object):
    """One virtual thread."""

    def __init__(self, sched, fn, name, daemon=False):
        self.s = sched
        self.fn = fn
        self.name = name
        self.daemon = daemon       # daemon: does not keep the execution alive
        self.tid = len(sched.threads)
        self.state = 'new'         # new run blk done
        self.ready = None
        self.deadline = None
        self.label = ''
        self.exc = None
        self.result = None
        self.stack = None
        self.baton = _rt.Semaphore(0)
        self.real = _rt.Thread(target=self._boot, daemon=True,
                               name='vt-%s' % name)
        sched.threads.append(self)
        self.state = 'run'
        self.real.start()
        sched.by_ident[self.real.ident] = self

    def _boot(self):
        s = self.s
        self.baton.acquire()
        try:
            if s.aborting:
                raise Abort()
            self.result = self.fn()
        except Abort:
            self.exc = None if s.aborting else Abort('stray')
        except BaseException as e:   # noqa: B902 - recorded, judged by oracle
            if not s.aborting:
                self.exc = e
        self.state = 'done'
        if s.aborting:
            return
        try:
            s._thread_exit(self)
        except BaseException as e:   # scheduler/harness error
            s.error = s.error or e
            s.aborting = True
            s.main_baton.release()


class Sched(object):
    def __init__(self, chooser, max_steps=20000, max_time=None, until=None,
                 timer_deviations=True, trace=False, free_switch=True):
        self.chooser = chooser
        self.threads = []
        self.by_ident = {}
        # default thread names ("Thread-N") number the threads of this
        # execution, so that two executions of one schedule have equal traces
        VThread._counter[0] = 0
        self.now = 1000.0
        self.steps = 0
        self.max_steps = max_steps
        self.max_time = max_time
        self.until = until
        self.timer_deviations = timer_deviations
        # free_switch: choosing among enabled threads when the running one
        # blocks costs nothing (CHESS); False: every departure from the
        # default schedule costs one deviation
        self.free_switch = free_switch
        self.aborting = False
        self.verdict = None          # None | 'deadlock' | 'horizon' | 'until'
        self.deadlock = None
        self.error = None
        self.main_baton = _rt.Semaphore(0)
        self.trace = [] if trace else None
        self.running = None
        self.preempt_disabled = 0
        self.in_run = False
        self.quiet = False           # True: no choice points (set-up phase)
        global S
        if S is not None and S.in_run:
            raise HarnessError("nested scheduler")
        S = self

    # -- construction --------------------------------------------------------
    def spawn(self, fn, name, daemon=False):
        return VT(self, fn, name, daemon)

    # -- enabledness -----------------------------------------------------------
    def _enabled(self):
        out = []
        for t in self.threads:
            if t.state == 'run':
                out.append(t)
            elif t.state == 'blk':
                if t.ready() or (t.deadline is not None
                                 and t.deadline <= self.now):
                    out.append(t)
        return out

    def _timed(self):
        return [t for t in self.threads
                if t.state == 'blk' and t.deadline is not None]

    def _finished(self):
        return all(t.state == 'done' or t.daemon for t in self.threads)

    def _end(self, verdict):
        self.verdict = self.verdict or verdict
        if verdict == 'deadlock':
            self.deadlock = [
                (t.name, t.label) for t in self.threads if t.state != 'done']
        frames = sys._current_frames()
        for t in self.threads:
            if t.state != 'done' and t.stack is None:
                t.stack = (t.state, t.label, t.deadline,
                           _where(frames.get(t.real.ident)))
        self.aborting = True
        self.main_baton.release()

    def _pick(self, me, kind, label):
        """Decide which thread runs next.  Returns the VT or None when the
        execution is over."""
        if self._finished():
            self._end('finished')
            return None
        if self.until is not None and self.until(self):
            self._end('until')
            return None
        self.steps += 1
        if self.steps > self.max_steps or (
                self.max_time is not None and self.now > self.max_time):
            self._end('horizon')
            return None
        en = self._enabled()
        while not en:
            timed = self._timed()
            if not timed:
                self._end('deadlock')
                return None
            self.now = min(t.deadline for t in timed) + 1e-6
            if self.max_time is not None and self.now > self.max_time:
                self._end('horizon')
                return None
            en = self._enabled()
        me_enabled = me is not None and me in en
        en.sort(key=lambda t: (t is not me, t.tid))
        if me_enabled and self.preempt_disabled:
            return me
        extra = []
        if self.timer_deviations:
            extra = [t for t in self._timed() if t not in en]
            extra.sort(key=lambda t: (t.deadline, t.tid))
        opts = en + extra
        if len(opts) > 1 and not self.quiet:
            sw = 1 if (me_enabled or not self.free_switch) else 0
            costs = [0] + [sw] * (len(en) - 1) + [1] * len(extra)
            idx = self.chooser.choose(len(opts), costs, 'sched',
                                      '%s:%s' % (kind, label))
        else:
            idx = 0
        nxt = opts[idx]
        if idx >= len(en):
            self.now = nxt.deadline + 1e-6
        if self.trace is not None:
            self.trace.append((me.name if me else None, kind, label,
                               nxt.name, round(self.now, 6)))
        return nxt

    def _switch(self, me, nxt):
        if nxt is me:
            return
        self.running = nxt
        nxt.baton.release()
        me.baton.acquire()
        if self.aborting:
            raise Abort()

    # -- called by the running virtual thread ----------------------------------
    def point(self, kind, label=''):
        me = cur()
        if me is None:
            return
        if self.aborting:
            raise Abort()
        nxt = self._pick(me, kind, label)
        if nxt is None:
            me.baton.acquire()
            raise Abort()
        self._switch(me, nxt)

    def block(self, ready, deadline, kind, label):
        """Block the calling virtual thread until ready() or the deadline."""
        me = cur()
        if self.aborting:
            raise Abort()
        me.state, me.ready, me.deadline, me.label = 'blk', ready, deadline, label
        try:
            nxt = self._pick(me, kind, label)
            if nxt is None:
                me.baton.acquire()
                raise Abort()
            self._switch(me, nxt)
        finally:
            me.state, me.ready, me.deadline = 'run', None, None

    def _thread_exit(self, me):
        nxt = self._pick(None, 'exit', me.name)
        if nxt is not None:
            self.running = nxt
            nxt.baton.release()

    # -- controller ----------------------------------------------------------------
    def run(self):
        """Run the execution to its end on the calling (controller) thread."""
        global S
        if S is not self:
            raise HarnessError("scheduler is not the active one")
        self.in_run = True
        try:
            first = self._pick(None, 'start', '')
            if first is not None:
                self.running = first
                first.baton.release()
            self.main_baton.acquire()
            self.aborting = True
            for _ in range(50):
                alive = [t for t in self.threads if t.real.is_alive()]
                if not alive:
                    break
                for t in alive:
                    t.baton.release()
                for t in alive:
                    t.real.join(0.2)
            else:
                raise HarnessError("virtual threads did not unwind: %r" % [
                    t.name for t in self.threads if t.real.is_alive()])
        finally:
            self.in_run = False
            S = None
        if self.error is not None:
            raise self.error
        return self

    # -- results ---------------------------------------------------------------------
    def stuck(self):
        """Threads that were still not finished when the execution ended."""
        return [(t.name, t.stack) for t in self.threads
                if t.stack is not None and not t.daemon]

    def thread(self, name):
        for t in self.threads:
            if t.name == name:
                return t
        raise KeyError(name)


# ----------------------------------------------------------------------------
# Virtual synchronisation objects (the shim `threading` module exports these)
# ----------------------------------------------------------------------------
class VLock(object):
    reentrant = False

    def __init__(self):
        self.owner = None
        self.count = 0
        self.label = type(self).__name__

    def _free_for(self, me):
        return self.owner is None

    def acquire(self, blocking=True, timeout=-1):
        me = cur()
        if me is None:                      # sequential mode
            if self.owner is not None and not (
                    self.reentrant and self.owner == 'main'):
                if not blocking or (timeout is not None and timeout >= 0):
                    return False
                raise HarnessError("sequential acquire of a held lock")
            self.owner = 'main'
            self.count += 1
            return True
        s = S
        if self.reentrant and self.owner is me:
            self.count += 1           # invisible to other threads: no point
            return True
        s.point('acquire', self.label)
        if self.owner is not None:
            if not blocking:
                return False
            deadline = None
            if timeout is not None and timeout >= 0:
                deadline = s.now + timeout
            s.block(lambda: self.owner is None, deadline, 'lockwait',
                    self.label)
            if self.owner is not None:
                return False
        self.owner = me
        self.count = 1
        return True

    def release(self):
        if self.owner is None:
            raise RuntimeError("release unlocked lock")
        self.count -= 1
        if self.count == 0:
            self.owner = None

    def locked(self):
        return self.owner is not None

    def _is_owned(self):
        me = cur()
        return self.owner is (me if me is not None else 'main')

    def __enter__(self):
        self.acquire()
        return self

    def __exit__(self, *a):
        self.release()


class VRLock(VLock):
    reentrant = True


class VCondition(object):
    def __init__(self, lock=None):
        self.lock = lock if lock is not None else VRLock()
        self.waiters = collections.deque()
        self.label = 'cond'
        self.acquire = self.lock.acquire
        self.release = self.lock.release

    def __enter__(self):
        self.lock.acquire()
        return self

    def __exit__(self, *a):
        self.lock.release()

    def wait(self, timeout=None):
        me = cur()
        lock = self.lock
        if me is None:
            if timeout is None:
                raise HarnessError("sequential wait() without timeout on %s"
                                   % self.label)
            _seq_now[0] += max(timeout, 0)
            if S is not None:
                S.now += max(timeout, 0)
            return False
        if lock.owner is not me:
            raise RuntimeError("cannot wait on un-acquired lock")
        s = S
        cnt = lock.count
        lock.count, lock.owner = 0, None
        tok = [False]
        self.waiters.append(tok)
        try:
            s.block(lambda: tok[0],
                    None if timeout is None else s.now + max(timeout, 0),
                    'wait', self.label)
        finally:
            if not tok[0]:
                try:
                    self.waiters.remove(tok)
                except ValueError:
                    pass
            # re-acquire, also when unwinding (the with-block will release)
            if lock.owner is not None and not s.aborting:
                s.block(lambda: lock.owner is None, None, 'relock', lock.label)
            lock.owner, lock.count = me, cnt
        return tok[0]

    def wait_for(self, predicate, timeout=None):
        end = None if timeout is None else now() + timeout
        result = predicate()
        while not result:
            left = None
            if end is not None:
                left = end - now()
                if left <= 0:
                    break
            self.wait(left)
            result = predicate()
        return result

    def notify(self, n=1):
        for _ in range(min(n, len(self.waiters))):
            self.waiters.popleft()[0] = True

    def notify_all(self):
        self.notify(len(self.waiters))

    notifyAll = notify_all


class VEvent(object):
    def __init__(self):
        self.flag = False
        self.cond = VCondition(VLock())

    def is_set(self):
        return self.flag

    isSet = is_set

    def set(self):
        with self.cond:
            self.flag = True
            self.cond.notify_all()

    def clear(self):
        self.flag = False

    def wait(self, timeout=None):
        with self.cond:
            if not self.flag:
                self.cond.wait(timeout)
            return self.flag


class VThread(object):
    """Drop-in for threading.Thread (subclassable: run(), start(), join())."""
    _counter = [0]

    def __init__(self, group=None, target=None, name=None, args=(),
                 kwargs=None, daemon=None):
        VThread._counter[0] += 1
        self._target, self._args, self._kwargs = target, args, kwargs or {}
        self.name = name or 'Thread-%d' % VThread._counter[0]
        self.daemon = bool(daemon)
        self._vt = None
        self._started = False

    def run(self):
        if self._target is not None:
            self._target(*self._args, **self._kwargs)

    def start(self):
        if self._started:
            raise RuntimeError("threads can only be started once")
        s = S
        if s is None:
            raise HarnessError("Thread.start() outside a scheduler: %s"
                               % self.name)
        self._started = True
        self._vt = s.spawn(self.run, self.name)
        self._vt.obj = self
        s.point('spawn', self.name)

    def join(self, timeout=None):
        vt = self._vt
        if vt is None:
            raise RuntimeError("cannot join thread before it is started")
        if vt.state == 'done':
            return
        s = S
        me = cur()
        if me is None:
            raise HarnessError("join() from the controller thread")
        s.block(lambda: vt.state == 'done',
                None if timeout is None else s.now + timeout, 'join', self.name)

    def is_alive(self):
        return self._vt is not None and self._vt.state != 'done'

    isAlive = is_alive

    def setDaemon(self, v):
        self.daemon = bool(v)

    def getName(self):
        return self.name

    def setName(self, n):
        self.name = n

    @property
    def ident(self):
        return None if self._vt is None else self._vt.tid


class VTimer(VThread):
    def __init__(self, interval, function, args=None, kwargs=None):
        VThread.__init__(self, name='Timer')
        self.interval, self.function = interval, function
        self.args, self.kwargs = args or [], kwargs or {}
        self.finished = VEvent()

    def cancel(self):
        self.finished.set()

    def run(self):
        self.finished.wait(self.interval)
        if not self.finished.is_set():
            self.function(*self.args, **self.kwargs)
        self.finished.set()


class _MainThread(object):
    name = 'MainThread'
    daemon = False
    ident = -1

    def is_alive(self):
        return True


_main = _MainThread()


def current_thread():
    me = cur()
    if me is None:
        return _main
    return getattr(me, 'obj', None) or me


# -- clock -----------------------------------------------------------------------
def vtime():
    return now()


def vsleep(d):
    d = max(d, 0)
    me = cur()
    if me is None:
        _seq_now[0] += d
        if S is not None:
            S.now += d
        return
    s = S
    s.block(lambda: False, s.now + d, 'sleep', '%g' % d)


def touch(label):
    """Scheduling point for a traced shared field."""
    s = S
    if s is not None and label in s.traced:
        s.point('field', label)


Sched.traced = frozenset()


def _where(frame):
    """Innermost frames inside the library under test (module.function)."""
    out = []
    while frame is not None and len(out) < 3:
        fn = frame.f_code.co_filename.replace('\\', '/')
        if '/src/nfc/' in fn:
            mod = fn.split('/src/')[-1][:-3].replace('/', '.')
            out.append('%s.%s' % (mod, getattr(frame.f_code, 'co_qualname',
                                               frame.f_code.co_name)))
        frame = frame.f_back
    return out


def format_stuck(s):
    return ["%s: %s" % (n, st) for n, st in s.stuck()]


def thread_stack(vt):
    fr = sys._current_frames().get(vt.real.ident)
    if fr is None:
        return []
    return [l.strip() for l in traceback.format_stack(fr)[-6:]]
