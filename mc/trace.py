"""Scheduling points at shared fields that nfcpy reads or writes without
holding a lock (DESIGN.md 1.2 'traced shared fields').

Class-level data descriptors are installed from outside (no source change):
every get/set of the field calls sched.touch(label), which is a scheduling
point only while a scheduler is active and the label is in its `traced` set.
"""
from . import sched


class Traced(object):
    def __init__(self, name, label):
        self.slot = '_v_' + name
        self.name = name
        self.label = label

    def __get__(self, obj, cls):
        if obj is None:
            return self
        sched.touch(self.label)
        try:
            return obj.__dict__[self.slot]
        except KeyError:
            raise AttributeError(self.name)

    def __set__(self, obj, value):
        sched.touch(self.label)
        obj.__dict__[self.slot] = value

    def __delete__(self, obj):
        del obj.__dict__[self.slot]


class TracedList(list):
    label = 'llc.sap'

    def __getitem__(self, i):
        sched.touch(self.label)
        return list.__getitem__(self, i)

    def __setitem__(self, i, v):
        sched.touch(self.label)
        list.__setitem__(self, i, v)

    def __iter__(self):
        sched.touch(self.label)
        return list.__iter__(self)


_installed = []


def install():
    """Install the descriptors on the LLCP classes (idempotent)."""
    if _installed:
        return
    import nfc.llcp.tco as tco
    import nfc.llcp.llc as llc
    T = tco.TransmissionControlObject
    T.state = Traced('state', 'tco.state')
    T.addr = Traced('addr', 'tco.addr')
    llc.ServiceDiscovery.snl = Traced('snl', 'sdp.snl')
    L = llc.LogicalLinkController
    L.link = Traced('link', 'llc.link')
    L.snl = Traced('snl', 'llc.snl')

    class SapSlot(object):
        """llc.sap is replaced by a TracedList on assignment."""
        def __get__(self, obj, cls):
            if obj is None:
                return self
            return obj.__dict__['_v_sap']

        def __set__(self, obj, value):
            obj.__dict__['_v_sap'] = TracedList(value)
    L.sap = SapSlot()
    _installed.append(True)


ALL = frozenset(['tco.state', 'tco.addr', 'sdp.snl', 'llc.link', 'llc.snl',
                 'llc.sap'])
