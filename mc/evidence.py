"""Run bookkeeping shared by every property driver.

A driver creates one `Run`, reports every explored case through `ok()` or
`fail()`, and ends with `finish()`, which

  * filters failures against the committed known_findings.json (read only),
  * prints `KNOWN-FINDING:` / `VIOLATION` lines,
  * writes replay files for unlisted violations,
  * writes evidence/<id>.json (self-checked against the schema rules),
  * returns the process exit status.
"""
import json
import os
import sys
import time
import hashlib
import fnmatch

VERIF = os.path.dirname(os.path.dirname(os.path.abspath(__file__)))
EVIDENCE_DIR = os.path.join(VERIF, 'evidence')
if os.environ.get('VERIF_REPO', '/repo') != '/repo':
    # a run against a scratch copy (mutation self-test) must not overwrite
    # the evidence of the real tree
    EVIDENCE_DIR = os.path.join('/var/tmp', 'verif_scratch_evidence')
if os.environ.get('VERIF_PART'):
    # a debugging run of one part of a driver is not the registered check
    EVIDENCE_DIR = os.path.join('/var/tmp', 'verif_scratch_evidence')
REPLAY_DIR = os.path.join(VERIF, 'replay')
FINDINGS = os.path.join(VERIF, 'known_findings.json')

LEVELS = ("exploration", "fault_enumeration", "model_checking", "proof",
          "translation_validation", "other")


def jsonable(o):
    if isinstance(o, (bytes, bytearray, memoryview)):
        return bytes(o).hex()
    if isinstance(o, (set, frozenset)):
        return sorted(jsonable(x) for x in o)
    if isinstance(o, (list, tuple)):
        return [jsonable(x) for x in o]
    if isinstance(o, dict):
        return {str(k): jsonable(v) for k, v in o.items()}
    if isinstance(o, (int, float, str, bool)) or o is None:
        return o
    return repr(o)


def load_findings():
    try:
        with open(FINDINGS) as f:
            doc = json.load(f)
    except FileNotFoundError:
        doc = {}
    out = [e for e in doc.get('findings', []) if 'signature' in e]
    extra = os.environ.get('VERIF_EXTRA_FINDINGS')   # development aid only
    if extra:
        with open(extra) as f:
            out += [e for e in json.load(f).get('findings', [])
                    if 'signature' in e]
    return out


class Failure(object):
    __slots__ = ('signature', 'detail', 'deviations')

    def __init__(self, signature, detail, deviations=0):
        self.signature = signature
        self.detail = detail
        self.deviations = deviations


class Run(object):
    def __init__(self, prop, tier='quick', seed=0, level='exploration'):
        assert level in LEVELS
        self.prop = prop
        self.tier = tier
        self.seed = seed
        self.level = level
        self.t0 = time.time()
        self.evaluations = 0
        self.nontrivial = set()       # digests of distinct non-trivial cases
        self.samples = []
        self.failures = {}            # signature -> Failure (first / minimal)
        self.failure_counts = {}
        self.counters = {}
        self.outcomes = set()
        self.assumptions = []
        self.extra = {}
        self.rule = ''
        self.max_samples = 6

    # -- case accounting ---------------------------------------------------
    def ok(self, key=None, nontrivial=True, n=1):
        """One explored case satisfied the oracle.  `key` identifies the case
        (any hashable / repr-able); distinct keys of non-trivial cases are
        counted."""
        self.evaluations += n
        if nontrivial and key is not None:
            self.nontrivial.add(_digest(key))

    def count(self, name, n=1):
        self.counters[name] = self.counters.get(name, 0) + n

    def outcome(self, o):
        self.outcomes.add(_digest(o))

    def sample(self, obj, force=False):
        if force or len(self.samples) < self.max_samples:
            self.samples.append(jsonable(obj))

    def fail(self, signature, detail, key=None, deviations=0):
        """One explored case violated the oracle.  `signature` names the
        failing input class and call site (see DESIGN section 4)."""
        self.evaluations += 1
        if key is not None:
            self.nontrivial.add(_digest(key))
        self.failure_counts[signature] = self.failure_counts.get(signature, 0) + 1
        old = self.failures.get(signature)
        if old is None or deviations < old.deviations:
            self.failures[signature] = Failure(signature, jsonable(detail),
                                               deviations)

    def merge(self, part):
        """Merge the picklable summary returned by `export()` of a worker."""
        self.evaluations += part['evaluations']
        self.nontrivial |= part['nontrivial']
        self.outcomes |= part['outcomes']
        for k, v in part['counters'].items():
            self.counters[k] = self.counters.get(k, 0) + v
        for s in part['samples']:
            if len(self.samples) < self.max_samples:
                self.samples.append(s)
        for sig, (detail, dev, cnt) in part['failures'].items():
            self.failure_counts[sig] = self.failure_counts.get(sig, 0) + cnt
            old = self.failures.get(sig)
            if old is None or dev < old.deviations:
                self.failures[sig] = Failure(sig, detail, dev)

    def export(self):
        return dict(evaluations=self.evaluations, nontrivial=self.nontrivial,
                    outcomes=self.outcomes, counters=self.counters,
                    samples=self.samples,
                    failures={s: (f.detail, f.deviations,
                                  self.failure_counts[s])
                              for s, f in self.failures.items()})

    # -- end of run ----------------------------------------------------------
    def finish(self, coverage=None, exhaustive=True):
        known = [e for e in load_findings() if e.get('property') == self.prop]
        violations, seen_known = [], {}
        for sig, f in sorted(self.failures.items()):
            hit = None
            for e in known:
                if e['signature'] == sig or (
                        e.get('glob') and fnmatch.fnmatchcase(sig, e['signature'])):
                    hit = e
                    break
            if hit is not None:
                seen_known.setdefault(hit['signature'], (hit, []))[1].append(sig)
            else:
                violations.append(f)
        for sig, (e, sigs) in sorted(seen_known.items()):
            print("KNOWN-FINDING: property=%s %s [%s]" % (
                self.prop, e.get('what', ''), sig))
        os.makedirs(REPLAY_DIR, exist_ok=True)
        for old in os.listdir(REPLAY_DIR):
            if old.startswith(self.prop + '_'):
                os.unlink(os.path.join(REPLAY_DIR, old))
        violations.sort(key=lambda f: (f.deviations, f.signature))
        for f in violations:
            h = hashlib.sha1(f.signature.encode()).hexdigest()[:10]
            path = os.path.join(REPLAY_DIR, '%s_%s.json' % (self.prop, h))
            with open(path, 'w') as fp:
                json.dump(dict(property=self.prop, signature=f.signature,
                               deviations=f.deviations, detail=f.detail,
                               occurrences=self.failure_counts[f.signature],
                               tier=self.tier, seed=self.seed,
                               rerun="./check %s --replay %s" % (self.prop, path)),
                          fp, indent=1, sort_keys=True)
            print("VIOLATION property=%s replay=%s" % (self.prop, path))
            print("  signature: %s" % f.signature)
        cov = dict(coverage or {})
        cov.setdefault('evaluations', self.evaluations)
        cov.setdefault('distinct_nontrivial', len(self.nontrivial))
        cov.setdefault('rule', self.rule)
        cov.setdefault('samples', self.samples[:self.max_samples])
        cov.setdefault('exhaustive', bool(exhaustive))
        cov.setdefault('distinct_outcomes', len(self.outcomes))
        cov.setdefault('counters', dict(sorted(self.counters.items())))
        cov.setdefault('known_findings_seen', sorted(seen_known))
        cov.setdefault('violation_signatures',
                       [f.signature for f in violations])
        cov.update(self.extra)
        doc = dict(property_id=self.prop, tier=self.tier, seed=int(self.seed),
                   level=self.level, coverage=jsonable(cov),
                   assumptions=list(self.assumptions),
                   wall_s=round(time.time() - self.t0, 3),
                   violations=len(violations))
        self_check(doc)
        os.makedirs(EVIDENCE_DIR, exist_ok=True)
        path = os.path.join(EVIDENCE_DIR, '%s.json' % self.prop)
        tmp = path + '.tmp%d' % os.getpid()
        with open(tmp, 'w') as fp:
            json.dump(doc, fp, indent=1, sort_keys=True)
        os.replace(tmp, path)
        print("%s tier=%s seed=%s evaluations=%d distinct_nontrivial=%d "
              "outcomes=%d known=%d violations=%d wall=%.1fs" % (
                  self.prop, self.tier, self.seed, cov['evaluations'],
                  cov['distinct_nontrivial'], len(self.outcomes),
                  len(seen_known), len(violations), doc['wall_s']))
        sys.stdout.flush()
        return 1 if violations else 0


def _digest(key):
    if not isinstance(key, (bytes, str)):
        key = repr(key)
    if isinstance(key, str):
        key = key.encode()
    return hashlib.blake2b(key, digest_size=8).digest()


def self_check(doc):
    """The subset of EVIDENCE.schema.json that a writer can get wrong."""
    cov = doc['coverage']
    assert doc['level'] in LEVELS and doc['tier'] in ('quick', 'thorough')
    assert isinstance(doc['seed'], int)
    if doc['level'] == 'model_checking' and all(
            k in cov for k in ('states', 'transitions',
                               'traces_validated_against_impl', 'samples')):
        assert cov['states'] >= 1 and cov['transitions'] >= 1
        assert len(cov['samples']) >= 1
    else:
        assert cov['evaluations'] >= 1, 'no evaluations'
        assert cov['distinct_nontrivial'] >= 2, 'distinct_nontrivial < 2'
        assert isinstance(cov['rule'], str) and cov['rule']
        assert len(cov['samples']) >= 1, 'no samples'


def sig_exc(exc, pkg='nfc'):
    """`ExcType@module.function` of the innermost frame inside the library."""
    tb = exc.__traceback__
    where = '?'
    while tb is not None:
        code = tb.tb_frame.f_code
        fn = code.co_filename.replace('\\', '/')
        if '/src/%s/' % pkg in fn:
            mod = fn.split('/src/')[-1][:-3].replace('/', '.')
            qual = getattr(code, 'co_qualname', code.co_name)
            where = '%s.%s' % (mod, qual)
        tb = tb.tb_next
    return '%s@%s' % (type(exc).__name__, where)
