"""Parallel map over configurations with fork()ed workers (nfc is imported in
the parent, so workers share the shimmed import)."""
import multiprocessing
import os
import random

_FN = None


def _call(arg):
    return _FN(arg)


def nproc():
    try:
        n = int(os.environ.get('VERIF_PROCS', '0'))
    except ValueError:
        n = 0
    return n or min(16, os.cpu_count() or 1)


def pmap(fn, items, chunksize=1, procs=None):
    """Unordered parallel map; yields results as they complete."""
    global _FN
    items = list(items)
    procs = procs or nproc()
    if procs <= 1 or len(items) <= 1:
        for it in items:
            yield fn(it)
        return
    _FN = fn
    ctx = multiprocessing.get_context('fork')
    pool = ctx.Pool(min(procs, len(items)))
    try:
        for r in pool.imap_unordered(_call, items, chunksize):
            yield r
        pool.close()
        pool.join()
    finally:
        pool.terminate()
        _FN = None


def shuffled(items, seed):
    """Seed only permutes the order in which the enumeration is walked."""
    items = list(items)
    random.Random(seed).shuffle(items)
    return items


def chunks(items, n):
    items = list(items)
    size = max(1, (len(items) + n - 1) // n)
    return [items[i:i + size] for i in range(0, len(items), size)]
