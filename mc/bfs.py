"""Explicit-state breadth-first search over *real* library objects.

The state of a search is a `world`: any Python object graph that holds the
real objects under test (for the LLCP checks: two LogicalLinkControllers with
their service access points and sockets), the reference model and the
harness bookkeeping.  A transition calls real methods with one event.

  * The frontier holds **snapshots**: deep copies of the world
    (`snapshot()`: the semantics of `copy.deepcopy`, with a direct walk for
    plain containers and `__dict__` objects).  That works because
    `shims.import_nfc()` registers copy dispatch entries for the
    State/Mode/LinkState classes and every lock in the graph is a pure
    Python virtual lock (mc.sched).
  * `canon(objs)` walks every `__dict__` of the graph and produces a
    hashable dump of all mutable fields; protocol data units are replaced by
    their encodings; only fields declared irrelevant (statistics counters,
    lock internals; loggers are module globals and never reached) are
    skipped.  Object identity/aliasing is part of the dump (an object met a
    second time is dumped as a back reference).  Two worlds with equal dumps
    are explored once.
  * Soundness is checked, not assumed: the successor computed from a
    snapshot must have the same dump as the successor computed by replaying
    the whole history from `spec.init()` on fresh objects - for every
    transition up to depth `full_check_depth` and for every `stride`-th
    transition beyond.  A difference is a hard error (`Unsound`).

A search problem is described by a *spec* object:

    spec.init()                 -> fresh world (deterministic)
    spec.actions(world)         -> list of enabled actions (hashable, repr-able,
                                   JSON-able tuples); must not mutate world
    spec.apply(world, action)   -> list of (signature, detail) violations
                                   (or None); mutates world; must not touch
                                   anything outside `world`
    spec.view(world)            -> what canon() dumps (optional; default world)
    spec.check_state(world)     -> list of violations for a *new distinct*
                                   state (optional; must not mutate world)
    spec.skip                   -> extra field names canon() skips (optional)

Entry points:

    search(spec, depth, ...)    single process, frontier of snapshots
    psearch(spec, depth, ...)   the same search, one level at a time over the
                                16 mc.par workers: the parent keeps dumps and
                                histories, a worker rebuilds its frontier
                                states by replay and expands them from
                                snapshots
    replay(spec, history), canon(objs), digest(dump), state_digest(spec, w),
    snapshot(world)

Both return a `Result` (states, transitions, depth_completed, exhausted,
per_depth, sound_checks, copy_checks, digests).

`VERIF_SEED` only permutes the order in which actions and frontier entries are
walked: the set of states within a completed depth does not depend on it.
"""
import collections
import copy
import os as _os
import hashlib
import random
import types

from . import sched

SKIP_FIELDS = frozenset([
    'pcnt',            # LogicalLinkController.Counter: sent/rcvd statistics
])
_OPAQUE = (sched.VLock, sched.VCondition, sched.VEvent)
_ATOMS = (bool, int, float, str, bytes, type(None))
_FAST = frozenset(_ATOMS)
_OPAQUE_SET = frozenset(_OPAQUE)
_CODE = frozenset([types.FunctionType, types.BuiltinFunctionType, type,
                   types.ModuleType])
_IMMUTABLE = frozenset(_ATOMS) | frozenset([
    type, types.FunctionType, types.BuiltinFunctionType, types.ModuleType,
    range, complex, type(Ellipsis), type(NotImplemented)])


class Unsound(Exception):
    """snapshot successor != replayed successor (harness/framework error)."""


def _pdu_base():
    try:
        import nfc.llcp.pdu as pdu
        return pdu.ProtocolDataUnit
    except Exception:     # pragma: no cover - canon used without nfc
        return ()


def canon(objs, skip=SKIP_FIELDS):
    """Hashable dump of every mutable field reachable from `objs`."""
    pdu_base = _pdu_base()
    seen = {}
    keep = []          # keep temporaries alive so ids are not reused

    def obj_fields(o):
        d = getattr(o, '__dict__', None)
        out = []
        if d is not None:
            for k in sorted(d):
                if k in skip:
                    continue
                out.append((k, c(d[k])))
        slots = getattr(type(o), '__slots__', ())
        for k in slots if not isinstance(slots, str) else (slots,):
            if k in skip or not hasattr(o, k):
                continue
            out.append((k, c(getattr(o, k))))
        return tuple(out)

    opaque = _OPAQUE_SET

    def c(o):
        t = type(o)
        if t in _FAST:
            return o
        if t in opaque:
            return '<lock>'
        if t is tuple:
            return ('tuple',) + tuple([x if type(x) in _FAST else c(x)
                                       for x in o])
        if t is types.MethodType:
            return ('<method>', o.__func__.__qualname__, c(o.__self__))
        if t in _CODE:
            return ('<%s>' % t.__name__,
                    getattr(o, '__qualname__', getattr(o, '__name__', '?')))
        if isinstance(o, _ATOMS):          # subclasses of the atom types
            return (t.__name__, o)
        if isinstance(o, (bytearray, memoryview)):
            return ('bytearray', bytes(o))
        if isinstance(o, _OPAQUE):
            return '<lock>'
        ref = seen.get(id(o))
        if ref is not None:
            return ('<ref>', ref)
        seen[id(o)] = len(seen) + 1
        keep.append(o)
        if t is list or t is collections.deque:
            return (t.__name__,) + tuple(
                [x if type(x) in _FAST else c(x) for x in o])
        if pdu_base and isinstance(o, pdu_base):
            try:
                return ('pdu', t.__name__, bytes(o.encode()))
            except Exception:
                # not yet encodable (an I PDU without N(R) in a send queue)
                return ('pdu*', t.__name__, obj_fields(o))
        if isinstance(o, (list, collections.deque)):
            return (t.__name__,) + tuple(c(x) for x in o)
        if isinstance(o, dict):
            items = [(c(k), c(v)) for k, v in o.items()]
            items.sort(key=lambda kv: repr(kv[0]))
            return (t.__name__,) + tuple(items)
        if isinstance(o, (set, frozenset)):
            return (t.__name__,) + tuple(sorted((c(x) for x in o),
                                                key=repr))
        if hasattr(o, '__dict__') or hasattr(t, '__slots__'):
            return (t.__name__, obj_fields(o))
        raise TypeError("canon: cannot dump %r" % t)

    return c(objs)


def snapshot(world):
    """Deep copy of the object graph (the frontier entry).

    Semantically `copy.deepcopy(world)`: same memo discipline (aliasing and
    cycles are preserved), but plain containers and `__dict__` objects are
    copied by a direct walk, which is about three times faster than the copy
    protocol; anything else (objects with __slots__, __reduce__ users, types
    with a registered dispatch entry other than the State/Mode/LinkState
    ones) is handed to copy.deepcopy with the shared memo.  With
    VERIF_BFS_DEEPCOPY=1 in the environment copy.deepcopy is used for
    everything.  Either way the snapshot-vs-replay check of search() and the
    copy-vs-original dump comparison made there validate the copies."""
    if _os.environ.get('VERIF_BFS_DEEPCOPY'):
        return copy.deepcopy(world)
    if not _PLAIN_DISPATCH:
        _declare_llcp_state_classes()
    memo = {}
    obj_new = object.__new__
    deque = collections.deque
    defaultdict = collections.defaultdict

    def cp(x):
        t = type(x)
        if t in _IMMUTABLE:
            return x
        i = id(x)
        y = memo.get(i)
        if y is not None:
            return y
        if t is list:
            y = []
            memo[i] = y
            y.extend([e if type(e) in _FAST else cp(e) for e in x])
        elif t is tuple:
            y = tuple([e if type(e) in _FAST else cp(e) for e in x])
            z = memo.get(i)
            if z is not None:        # a cycle through the tuple made one
                return z
            memo[i] = y
        elif t is dict:
            y = {}
            memo[i] = y
            for k, v in x.items():
                y[k if type(k) in _FAST else cp(k)] = \
                    v if type(v) in _FAST else cp(v)
        elif t is deque:
            y = deque(maxlen=x.maxlen)
            memo[i] = y
            y.extend([e if type(e) in _FAST else cp(e) for e in x])
        elif t is defaultdict:
            y = defaultdict(x.default_factory)
            memo[i] = y
            for k, v in x.items():
                y[cp(k)] = cp(v)
        elif t is bytearray:
            y = bytearray(x)
            memo[i] = y
        elif t is set:
            y = set()
            memo[i] = y
            y.update([cp(e) for e in x])
        elif t is frozenset:
            y = frozenset([cp(e) for e in x])
            memo[i] = y
        elif t is types.MethodType:
            y = types.MethodType(x.__func__, cp(x.__self__))
            memo[i] = y
        elif (t.__reduce_ex__ is object.__reduce_ex__
              and t.__reduce__ is object.__reduce__
              and not hasattr(t, '__deepcopy__')
              and not hasattr(t, '__slots__')
              and not hasattr(t, '__setstate__')
              and t.__new__ is obj_new
              and (t not in copy._deepcopy_dispatch or t in _PLAIN_DISPATCH)):
            # a plain Python object: new instance, copied __dict__
            y = obj_new(t)
            memo[i] = y
            yd = object.__getattribute__(y, '__dict__')
            for k, v in object.__getattribute__(x, '__dict__').items():
                yd[k] = v if type(v) in _FAST else cp(v)
        else:
            y = copy.deepcopy(x, memo)
        return y

    return cp(world)


_PLAIN_DISPATCH = set()


def plain_dispatch(*classes):
    """Declare classes whose copy._deepcopy_dispatch entry is equivalent to
    'new instance + deep-copied __dict__' (mc.shims registers such entries
    for the LLCP State/Mode/LinkState classes)."""
    _PLAIN_DISPATCH.update(classes)


def _declare_llcp_state_classes():
    _PLAIN_DISPATCH.add(object)          # sentinel: do this once
    try:
        import nfc.llcp.tco as tco
        import nfc.llcp.llc as llc
    except Exception:                    # pragma: no cover
        return
    plain_dispatch(tco.TransmissionControlObject.State,
                   tco.TransmissionControlObject.Mode,
                   llc.LogicalLinkController.LinkState)


def digest(dump):
    return hashlib.blake2b(repr(dump).encode(), digest_size=16).digest()


class Result(object):
    def __init__(self):
        self.states = 0              # distinct canonical states (incl. root)
        self.transitions = 0         # apply() calls made by the search
        self.depth_completed = 0
        self.exhausted = False       # frontier ran empty: whole space covered
        self.capped = False          # max_states hit: NOT complete
        self.sound_checks = 0        # snapshot-vs-replay comparisons
        self.copy_checks = 0         # snapshot-vs-original comparisons
        self.replay_steps = 0        # apply() calls made by those replays
        self.state_checks = 0
        self.per_depth = []          # new states per depth
        self.digests = set()

    def export(self):
        d = dict(self.__dict__)
        return d


def _view(spec, world):
    v = getattr(spec, 'view', None)
    return v(world) if v is not None else world


def state_digest(spec, world):
    skip = SKIP_FIELDS | frozenset(getattr(spec, 'skip', ()))
    return digest(canon(_view(spec, world), skip))


def replay(spec, history):
    """Fresh world after `history`; returns (world, violations of the last
    step)."""
    world = spec.init()
    last = None
    for a in history:
        last = spec.apply(world, a)
    return world, (last or [])


def search(spec, depth, seed=0, prefix=(), full_check_depth=3, stride=101,
           on_violation=None, on_transition=None, max_states=None):
    """BFS from the state reached by `prefix` (a history applied to
    spec.init()) for `depth` further transitions.

    on_violation(history, signature, detail) is called for every violation
    returned by spec.apply / spec.check_state (history includes the prefix).
    on_transition(history, new_state) is called after every transition.
    """
    rng = random.Random(seed)
    res = Result()
    prefix = tuple(prefix)
    root, _ = replay(spec, prefix)
    check_state = getattr(spec, 'check_state', None)

    def report(hist, viols):
        if viols and on_violation is not None:
            for sig, detail in viols:
                on_violation(hist, sig, detail)

    d0 = state_digest(spec, root)
    res.digests.add(d0)
    res.states = 1
    res.per_depth.append(1)
    if check_state is not None:
        res.state_checks += 1
        report(prefix, check_state(root))
    frontier = [(root, prefix)]
    for level in range(1, depth + 1):
        nxt = []
        new = 0
        rng.shuffle(frontier)
        for world, hist in frontier:
            acts = list(spec.actions(world))
            rng.shuffle(acts)
            for a in acts:
                succ = snapshot(world)
                if res.transitions < 50 or res.transitions % stride == 0:
                    # the copy itself: same dump as the original
                    res.copy_checks += 1
                    if state_digest(spec, succ) != state_digest(spec, world):
                        raise Unsound("snapshot differs from its original "
                                      "after history %r" % (hist,))
                viols = spec.apply(succ, a)
                res.transitions += 1
                h2 = hist + (a,)
                report(h2, viols)
                dg = state_digest(spec, succ)
                depth_abs = len(h2)
                if depth_abs <= full_check_depth or \
                        res.transitions % stride == 0:
                    fresh, _ = replay(spec, h2)
                    res.sound_checks += 1
                    res.replay_steps += len(h2)
                    if state_digest(spec, fresh) != dg:
                        raise Unsound(_explain(spec, succ, fresh, h2))
                is_new = dg not in res.digests
                if on_transition is not None:
                    on_transition(h2, is_new)
                if not is_new:
                    continue
                res.digests.add(dg)
                res.states += 1
                new += 1
                if check_state is not None:
                    res.state_checks += 1
                    report(h2, check_state(succ))
                if level < depth:
                    nxt.append((succ, h2))
                if max_states is not None and res.states >= max_states:
                    res.capped = True
                    res.per_depth.append(new)
                    return res
        res.per_depth.append(new)
        res.depth_completed = level
        frontier = nxt
        if new == 0:
            res.exhausted = True
            break
    return res


def _explain(spec, a, b, hist):
    skip = SKIP_FIELDS | frozenset(getattr(spec, 'skip', ()))
    ca, cb = canon(_view(spec, a), skip), canon(_view(spec, b), skip)
    path = []

    def diff(x, y):
        if type(x) is not type(y) or not isinstance(x, tuple):
            return (x, y) if x != y else None
        if len(x) != len(y):
            return (x, y)
        for i, (p, q) in enumerate(zip(x, y)):
            if p != q:
                path.append(i if not (isinstance(p, tuple) and p
                                      and isinstance(p[0], str)) else p[0])
                return diff(p, q)
        return None
    d = diff(ca, cb)
    return "history %r: snapshot successor differs from replay at %r: %r" % (
        hist, path, d)


# ----------------------------------------------------------------------------
# Level-synchronous parallel search (one search spread over mc.par workers)
# ----------------------------------------------------------------------------
_P = {}


def _expand_chunk(args):
    """Worker: rebuild every frontier state of the chunk by replaying its
    history on fresh objects, then compute all successors from snapshots of
    it.  States already known to the parent at fork time are filtered here."""
    idx, hists = args
    spec, seen = _P['spec'], _P['seen']
    full_check_depth, stride = _P['full_check_depth'], _P['stride']
    check_state = getattr(spec, 'check_state', None)
    if hasattr(spec, 'stats'):
        spec.stats = {}
    out = dict(idx=idx, succ=[], viol=[], transitions=0, sound_checks=0,
               replay_steps=0, state_checks=0, copy_checks=0)
    local = set()
    n = 0
    for hist in hists:
        world, _ = replay(spec, hist)
        out['replay_steps'] += len(hist)
        for a in spec.actions(world):
            succ = snapshot(world)
            n += 1
            if n % stride == 1:
                out['copy_checks'] += 1
                if state_digest(spec, succ) != state_digest(spec, world):
                    raise Unsound("snapshot differs from its original after "
                                  "history %r" % (hist,))
            viols = spec.apply(succ, a)
            out['transitions'] += 1
            h2 = hist + (a,)
            for sig, detail in (viols or ()):
                out['viol'].append((h2, sig, detail))
            dg = state_digest(spec, succ)
            if len(h2) <= full_check_depth or n % stride == 0:
                fresh, _ = replay(spec, h2)
                out['sound_checks'] += 1
                out['replay_steps'] += len(h2)
                if state_digest(spec, fresh) != dg:
                    raise Unsound(_explain(spec, succ, fresh, h2))
            if dg in seen or dg in local:
                continue
            local.add(dg)
            if check_state is not None:
                out['state_checks'] += 1
                for sig, detail in (check_state(succ) or ()):
                    out['viol'].append((h2, sig, detail))
            out['succ'].append((dg, h2))
    out['stats'] = getattr(spec, 'stats', None)
    return out


def psearch(spec, depth, seed=0, prefix=(), full_check_depth=3, stride=101,
            on_violation=None, procs=None, chunks_per_proc=6):
    """Same search as `search`, one level at a time over mc.par workers.

    The parent keeps the set of dumps and the frontier as *histories*; a
    worker rebuilds its share of the frontier by replay on fresh objects and
    expands each state from snapshots (so the snapshot-vs-replay check is
    made by the workers exactly as in `search`).  The explored state set,
    the number of transitions and the retained history per state are
    functions of (spec, depth, seed) only, not of worker timing."""
    from . import par
    rng = random.Random(seed)
    res = Result()
    prefix = tuple(prefix)
    root, _ = replay(spec, prefix)
    res.digests.add(state_digest(spec, root))
    res.states = 1
    res.per_depth.append(1)
    check_state = getattr(spec, 'check_state', None)
    if check_state is not None:
        res.state_checks += 1
        for sig, detail in (check_state(root) or ()):
            if on_violation is not None:
                on_violation(prefix, sig, detail)
    frontier = [prefix]
    nproc = procs or par.nproc()
    stats = getattr(spec, 'stats', None)
    for level in range(1, depth + 1):
        rng.shuffle(frontier)
        nchunks = max(1, min(len(frontier), nproc * chunks_per_proc))
        chunks = [(i, frontier[i::nchunks]) for i in range(nchunks)]
        _P.update(spec=spec, seen=res.digests,
                  full_check_depth=full_check_depth, stride=stride)
        outs = sorted(par.pmap(_expand_chunk, chunks, procs=nproc),
                      key=lambda o: o['idx'])
        if stats is not None:
            spec.stats = stats
        nxt = []
        for o in outs:
            for k in ('transitions', 'sound_checks', 'replay_steps',
                      'state_checks', 'copy_checks'):
                setattr(res, k, getattr(res, k) + o[k])
            if on_violation is not None:
                for h2, sig, detail in o['viol']:
                    on_violation(h2, sig, detail)
            if stats is not None and o['stats']:
                for k, v in o['stats'].items():
                    stats[k] = stats.get(k, 0) + v
            for dg, h2 in o['succ']:
                if dg not in res.digests:
                    res.digests.add(dg)
                    nxt.append(h2)
        res.states += len(nxt)
        res.per_depth.append(len(nxt))
        res.depth_completed = level
        frontier = nxt
        if not nxt:
            res.exhausted = True
            break
    _P.clear()
    return res
