"""Explicit-state breadth-first search over *real* library objects.

The state of a search is a `world`: any Python object graph that holds the
real objects under test (for the LLCP checks: two LogicalLinkControllers with
their service access points and sockets), the reference model and the
harness bookkeeping.  A transition calls real methods with one event.

  * The frontier holds **snapshots**: `copy.deepcopy(world)`.  That works
    because `shims.import_nfc()` registers copy dispatch entries for the
    State/Mode/LinkState classes and every lock in the graph is a pure
    Python virtual lock (mc.sched).
  * `canon(objs)` walks every `__dict__` of the graph and produces a
    hashable dump of all mutable fields; protocol data units are replaced by
    their encodings; only fields declared irrelevant (statistics counters,
    lock internals; loggers are module globals and never reached) are
    skipped.  Object identity/aliasing is part of the dump (an object met a
    second time is dumped as a back reference).  Two worlds with equal dumps
    are explored once.
  * Soundness is checked, not assumed: the successor computed from a
    snapshot must have the same dump as the successor computed by replaying
    the whole history from `spec.init()` on fresh objects - for every
    transition up to depth `full_check_depth` and for every `stride`-th
    transition beyond.  A difference is a hard error (`Unsound`).

A search problem is described by a *spec* object:

    spec.init()                 -> fresh world (deterministic)
    spec.actions(world)         -> list of enabled actions (hashable, repr-able,
                                   JSON-able tuples); must not mutate world
    spec.apply(world, action)   -> list of (signature, detail) violations
                                   (or None); mutates world; must not touch
                                   anything outside `world`
    spec.view(world)            -> what canon() dumps (optional; default world)
    spec.check_state(world)     -> list of violations for a *new distinct*
                                   state (optional; must not mutate world)
    spec.skip                   -> extra field names canon() skips (optional)

`VERIF_SEED` only permutes the order in which actions and frontier entries are
walked: the set of states within a completed depth does not depend on it.
"""
import collections
import copy
import hashlib
import random
import types

from . import sched

SKIP_FIELDS = frozenset([
    'pcnt',            # LogicalLinkController.Counter: sent/rcvd statistics
])
_OPAQUE = (sched.VLock, sched.VCondition, sched.VEvent)
_ATOMS = (bool, int, float, str, bytes, type(None))


class Unsound(Exception):
    """snapshot successor != replayed successor (harness/framework error)."""


def _pdu_base():
    try:
        import nfc.llcp.pdu as pdu
        return pdu.ProtocolDataUnit
    except Exception:     # pragma: no cover - canon used without nfc
        return ()


def canon(objs, skip=SKIP_FIELDS):
    """Hashable dump of every mutable field reachable from `objs`."""
    pdu_base = _pdu_base()
    seen = {}
    keep = []          # keep temporaries alive so ids are not reused

    def obj_fields(o):
        d = getattr(o, '__dict__', None)
        out = []
        if d is not None:
            for k in sorted(d):
                if k in skip:
                    continue
                out.append((k, c(d[k])))
        slots = getattr(type(o), '__slots__', ())
        for k in slots if not isinstance(slots, str) else (slots,):
            if k in skip or not hasattr(o, k):
                continue
            out.append((k, c(getattr(o, k))))
        return tuple(out)

    def c(o):
        if isinstance(o, _ATOMS):
            return o
        if isinstance(o, (bytearray, memoryview)):
            return ('bytearray', bytes(o))
        if isinstance(o, _OPAQUE):
            return '<lock>'
        if isinstance(o, (types.FunctionType, types.BuiltinFunctionType,
                          type, types.ModuleType)):
            return ('<%s>' % type(o).__name__,
                    getattr(o, '__qualname__', getattr(o, '__name__', '?')))
        if isinstance(o, types.MethodType):
            return ('<method>', o.__func__.__qualname__, c(o.__self__))
        if isinstance(o, tuple):
            return ('tuple',) + tuple(c(x) for x in o)
        ref = seen.get(id(o))
        if ref is not None:
            return ('<ref>', ref)
        seen[id(o)] = len(seen) + 1
        keep.append(o)
        if pdu_base and isinstance(o, pdu_base):
            try:
                return ('pdu', type(o).__name__, bytes(o.encode()))
            except Exception:
                # not yet encodable (an I PDU without N(R) in a send queue)
                return ('pdu*', type(o).__name__, obj_fields(o))
        if isinstance(o, (list, collections.deque)):
            return (type(o).__name__,) + tuple(c(x) for x in o)
        if isinstance(o, dict):
            items = [(c(k), c(v)) for k, v in o.items()]
            items.sort(key=lambda kv: repr(kv[0]))
            return (type(o).__name__,) + tuple(items)
        if isinstance(o, (set, frozenset)):
            return (type(o).__name__,) + tuple(sorted((c(x) for x in o),
                                                      key=repr))
        if hasattr(o, '__dict__') or hasattr(type(o), '__slots__'):
            return (type(o).__name__, obj_fields(o))
        raise TypeError("canon: cannot dump %r" % type(o))

    return c(objs)


def digest(dump):
    return hashlib.blake2b(repr(dump).encode(), digest_size=16).digest()


class Result(object):
    def __init__(self):
        self.states = 0              # distinct canonical states (incl. root)
        self.transitions = 0         # apply() calls made by the search
        self.depth_completed = 0
        self.exhausted = False       # frontier ran empty: whole space covered
        self.capped = False          # max_states hit: NOT complete
        self.sound_checks = 0        # snapshot-vs-replay comparisons
        self.replay_steps = 0        # apply() calls made by those replays
        self.state_checks = 0
        self.per_depth = []          # new states per depth
        self.digests = set()

    def export(self):
        d = dict(self.__dict__)
        return d


def _view(spec, world):
    v = getattr(spec, 'view', None)
    return v(world) if v is not None else world


def state_digest(spec, world):
    skip = SKIP_FIELDS | frozenset(getattr(spec, 'skip', ()))
    return digest(canon(_view(spec, world), skip))


def replay(spec, history):
    """Fresh world after `history`; returns (world, violations of the last
    step)."""
    world = spec.init()
    last = None
    for a in history:
        last = spec.apply(world, a)
    return world, (last or [])


def search(spec, depth, seed=0, prefix=(), full_check_depth=3, stride=101,
           on_violation=None, on_transition=None, max_states=None):
    """BFS from the state reached by `prefix` (a history applied to
    spec.init()) for `depth` further transitions.

    on_violation(history, signature, detail) is called for every violation
    returned by spec.apply / spec.check_state (history includes the prefix).
    on_transition(history, new_state) is called after every transition.
    """
    rng = random.Random(seed)
    res = Result()
    prefix = tuple(prefix)
    root, _ = replay(spec, prefix)
    check_state = getattr(spec, 'check_state', None)

    def report(hist, viols):
        if viols and on_violation is not None:
            for sig, detail in viols:
                on_violation(hist, sig, detail)

    d0 = state_digest(spec, root)
    res.digests.add(d0)
    res.states = 1
    res.per_depth.append(1)
    if check_state is not None:
        res.state_checks += 1
        report(prefix, check_state(root))
    frontier = [(root, prefix)]
    for level in range(1, depth + 1):
        nxt = []
        new = 0
        rng.shuffle(frontier)
        for world, hist in frontier:
            acts = list(spec.actions(world))
            rng.shuffle(acts)
            for a in acts:
                succ = copy.deepcopy(world)
                viols = spec.apply(succ, a)
                res.transitions += 1
                h2 = hist + (a,)
                report(h2, viols)
                dg = state_digest(spec, succ)
                depth_abs = len(h2)
                if depth_abs <= full_check_depth or \
                        res.transitions % stride == 0:
                    fresh, _ = replay(spec, h2)
                    res.sound_checks += 1
                    res.replay_steps += len(h2)
                    if state_digest(spec, fresh) != dg:
                        raise Unsound(_explain(spec, succ, fresh, h2))
                is_new = dg not in res.digests
                if on_transition is not None:
                    on_transition(h2, is_new)
                if not is_new:
                    continue
                res.digests.add(dg)
                res.states += 1
                new += 1
                if check_state is not None:
                    res.state_checks += 1
                    report(h2, check_state(succ))
                if level < depth:
                    nxt.append((succ, h2))
                if max_states is not None and res.states >= max_states:
                    res.capped = True
                    res.per_depth.append(new)
                    return res
        res.per_depth.append(new)
        res.depth_completed = level
        frontier = nxt
        if new == 0:
            res.exhausted = True
            break
    return res


def _explain(spec, a, b, hist):
    skip = SKIP_FIELDS | frozenset(getattr(spec, 'skip', ()))
    ca, cb = canon(_view(spec, a), skip), canon(_view(spec, b), skip)
    path = []

    def diff(x, y):
        if type(x) is not type(y) or not isinstance(x, tuple):
            return (x, y) if x != y else None
        if len(x) != len(y):
            return (x, y)
        for i, (p, q) in enumerate(zip(x, y)):
            if p != q:
                path.append(i if not (isinstance(p, tuple) and p
                                      and isinstance(p[0], str)) else p[0])
                return diff(p, q)
        return None
    d = diff(ca, cb)
    return "history %r: snapshot successor differs from replay at %r: %r" % (
        hist, path, d)


def roots(spec, levels=1, prefix=(), on_violation=None, seed=0):
    """Histories (extending `prefix`) that lead to the distinct states at
    exactly `levels` transitions which were not seen at a smaller depth -
    used to split one search into independent parts for mc.par.pmap.
    Returns (root_histories, shallow) where `shallow` is the Result of the
    search down to `levels` (its states/transitions/violations belong to the
    total and must be accounted for once by the caller)."""
    found = []
    seen_new = []

    def on_tr(h, is_new):
        seen_new.append((h, is_new))
    res = search(spec, levels, prefix=prefix, on_transition=on_tr,
                 on_violation=on_violation, seed=seed)
    seen_new.sort(key=repr)
    for h, is_new in seen_new:
        if is_new and len(h) == len(tuple(prefix)) + levels:
            found.append(h)
    return found, res
