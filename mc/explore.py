"""Stateless, deviation-bounded depth-first exploration over choice points.

`run_one(chooser)` executes the harness once: it replays the chooser's prefix
and then takes choice 0 at every later choice point (mc.sched.Chooser).  Every
alternative whose cost fits into the remaining deviation budget is explored
recursively, so all executions with at most `bound` deviations are visited
exactly once.  (DESIGN.md 1.3)
"""
from .sched import Chooser, HarnessError


class Stats(object):
    def __init__(self):
        self.executions = 0
        self.choice_points = 0
        self.max_depth = 0
        self.capped = False
        self.by_cost = {}


def explore(run_one, bound, visit, max_execs=None, stats=None,
            cost_filter=None, start=None, children_only=False):
    """visit(chooser, result) is called for every execution.
    cost_filter(kind, label) -> bool may exclude choice points from
    deviation (they are then always taken with choice 0)."""
    st = stats or Stats()
    stack = [start or ((), 0)]
    first = True
    while stack:
        prefix, used = stack.pop()
        if max_execs is not None and st.executions >= max_execs:
            st.capped = True
            break
        ch = Chooser(prefix)
        res = run_one(ch)
        if ch.i < len(ch.prefix):
            raise HarnessError("replay divergence: prefix %r longer than "
                               "execution (%d choices)" % (prefix, ch.i))
        st.executions += 1
        st.choice_points += len(ch.log)
        st.max_depth = max(st.max_depth, len(ch.log))
        st.by_cost[used] = st.by_cost.get(used, 0) + 1
        visit(ch, res)
        log = ch.log
        taken = [e[2] for e in log]
        cum = used
        children = []
        for i in range(len(prefix), len(log)):
            n, costs, c, kind, label = log[i]
            if cost_filter is None or cost_filter(kind, label):
                for alt in range(1, n):
                    k = cum + costs[alt]
                    if k <= bound:
                        children.append((tuple(taken[:i]) + (alt,), k))
            cum += costs[c]
        if children_only and first:
            # the caller distributes the first-level subtrees itself
            st.children = children
            return st
        first = False
        stack.extend(reversed(children))
    return st


def replay(run_one, choices):
    ch = Chooser(choices)
    res = run_one(ch)
    if ch.i < len(ch.prefix):
        raise HarnessError("replay divergence")
    return ch, res
