"""Import nfcpy from the working tree under shimmed stdlib modules.

nfcpy binds `threading`, `time`, `os`, `random`, `socket`, `select` by plain
`import x`; while the `nfc.*` modules are imported those names resolve to shim
module objects that forward everything to the real module except the few
entry points the harness has to own (DESIGN.md 1.1).  No file in the
repository is modified.
"""
import importlib
import os as _os
import sys
import types

from . import sched

REPO = _os.environ.get('VERIF_REPO', '/repo')
SRC = _os.path.join(REPO, 'src')

_real = {}
shim = {}
_state = dict(urandom=None, nfc=None)


class _Shim(types.ModuleType):
    def __init__(self, name, real, **over):
        types.ModuleType.__init__(self, name)
        self.__dict__['_real'] = real
        self.__dict__.update(over)

    def __getattr__(self, k):
        return getattr(self.__dict__['_real'], k)


def set_urandom(fn):
    """fn(n) -> bytes, or None for the default deterministic pattern."""
    _state['urandom'] = fn


def _urandom(n):
    fn = _state['urandom']
    if fn is not None:
        return fn(n)
    return bytes((0x5A + 7 * i) & 0xFF for i in range(n))


def _choice(seq):
    fn = _state.get('choice')
    return seq[0] if fn is None else fn(seq)


def set_choice(fn):
    """Environment answer for random.choice inside nfc (None: first item)."""
    _state['choice'] = fn


def _build():
    import threading
    import time
    import os
    import random
    import socket
    import select
    from sim import air
    shim['threading'] = _Shim(
        'threading', threading, Lock=sched.VLock, RLock=sched.VRLock,
        Condition=sched.VCondition, Thread=sched.VThread, Event=sched.VEvent,
        Timer=sched.VTimer, current_thread=sched.current_thread,
        currentThread=sched.current_thread)
    shim['time'] = _Shim('time', time, time=sched.vtime, sleep=sched.vsleep)
    shim['os'] = _Shim('os', os, urandom=_urandom)
    shim['random'] = _Shim('random', random, choice=_choice)
    shim['socket'] = _Shim('socket', socket, socket=air.VSocket,
        gethostbyname=air.gethostbyname, getnameinfo=air.getnameinfo)
    shim['select'] = _Shim('select', select, select=air.vselect)


NFC_MODULES = [
    'nfc', 'nfc.clf', 'nfc.clf.device', 'nfc.clf.transport', 'nfc.clf.pn53x',
    'nfc.clf.pn531', 'nfc.clf.pn532', 'nfc.clf.pn533', 'nfc.clf.rcs956',
    'nfc.clf.rcs380', 'nfc.clf.acr122', 'nfc.clf.arygon', 'nfc.clf.udp',
    'nfc.dep', 'nfc.llcp', 'nfc.llcp.pdu', 'nfc.llcp.tco', 'nfc.llcp.llc',
    'nfc.llcp.socket', 'nfc.llcp.err', 'nfc.llcp.sec', 'nfc.snep',
    'nfc.snep.client', 'nfc.snep.server', 'nfc.handover',
    'nfc.handover.client', 'nfc.handover.server', 'nfc.tag', 'nfc.tag.tt1',
    'nfc.tag.tt1_broadcom', 'nfc.tag.tt2', 'nfc.tag.tt2_nxp', 'nfc.tag.tt3',
    'nfc.tag.tt3_sony', 'nfc.tag.tt4',
]


def import_nfc():
    """Import every nfc module from $VERIF_REPO/src under the shims and
    return the `nfc` package."""
    if _state['nfc'] is not None:
        return _state['nfc']
    # real third-party and stdlib helpers first, with the real modules
    import logging, struct, errno, re, binascii, collections  # noqa
    import ctypes, platform, itertools, functools, inspect  # noqa
    import ndef, pyDes  # noqa
    try:
        import serial, serial.tools.list_ports, usb1  # noqa
    except Exception:  # pragma: no cover
        pass
    logging.disable(logging.CRITICAL)
    for m in [m for m in sys.modules if m == 'nfc' or m.startswith('nfc.')]:
        del sys.modules[m]
    if SRC in sys.path:
        sys.path.remove(SRC)
    sys.path.insert(0, SRC)
    _build()
    saved = {k: sys.modules.get(k) for k in shim}
    sys.modules.update(shim)
    try:
        for m in NFC_MODULES:
            importlib.import_module(m)
    finally:
        for k, v in saved.items():
            if v is None:
                sys.modules.pop(k, None)
            else:
                sys.modules[k] = v
    nfc = sys.modules['nfc']
    if not _os.path.realpath(nfc.__file__).startswith(
            _os.path.realpath(SRC)):
        raise RuntimeError("nfc imported from %s, not %s" % (nfc.__file__, SRC))
    _state['nfc'] = nfc
    _register_copy_dispatch()
    return nfc


def _register_copy_dispatch():
    """State/Mode/LinkState objects raise ValueError from __getattr__ for
    dunder lookups, which breaks copy.deepcopy's protocol probing."""
    import copy
    import nfc.llcp.tco as tco
    import nfc.llcp.llc as llc

    def cp(cls):
        def f(x, memo):
            y = cls.__new__(cls)
            memo[id(x)] = y
            for k, v in x.__dict__.items():
                y.__dict__[k] = copy.deepcopy(v, memo)
            return y
        return f
    for cls in (tco.TransmissionControlObject.State,
                tco.TransmissionControlObject.Mode,
                llc.LogicalLinkController.LinkState):
        copy._deepcopy_dispatch[cls] = cp(cls)
