"""Retry histories on ONE tag / ndef object, shared by C02 and C03.

History (the usual "try again" pattern of an application):

  1. activate the tag, `nd = tag.ndef` (reads the previous message),
  2. attempt 1: `nd.octets = new` while the link is disturbed from the j-th
     command of the write on: command j and every later exchange of that
     attempt fails with one error kind (timeout / transmission / protocol) -
     a burst that outlasts every retry budget, so the attempt ends with an
     exception - in one of two loss variants:
        'cmd-lost'  the tag never sees the faulted commands (state unchanged)
        'rsp-lost'  the tag executes them, the responses are lost
  3. the disturbance ends; the application repeats `nd.octets = new` on the
     SAME object (no new activation, no has_changed in between).

j ranges over the command sequence of the fault-free write (`positions`).
Positions whose fault-free answer is "no response" (second SECTOR SELECT
packet) are exempt from the timeout kind: 'rsp-lost' is then the fault-free
run itself and 'cmd-lost' cannot be told from success by any reader (inherent
to the passive acknowledge, see C16).

C03 judges the whole history with the C03 oracle (memory diff confined to the
NDEF area, no write command outside it, nothing the tag had to refuse) and,
if the retry returned normally, lets a fresh activation read the new message.

C02 lets the tag leave the field after the k-th state-changing command of the
retry, for every k, and applies the C02 oracle to what a fresh reader sees.
A cut means that no later command reaches the tag, so the tag memory after a
cut at k is the memory right after the k-th state-changing command: the retry
is executed once, the persistent tag memory is recorded after every
state-changing command and a fresh reader (new simulator holding that memory,
new tag object) is evaluated once per distinct memory image.  One cut per
history is additionally replayed for real (sim.arm_cut(k), writer runs into
the time-outs, sim.enter_field(), fresh activation) and must give the same
observation.

Nothing here imports nfc at module level.
"""
import os

from sim.tagsim import TIMEOUT, TRANSMISSION, PROTOCOL
from props import tagcases as tc

KINDS = (TIMEOUT, TRANSMISSION, PROTOCOL)
VARIANTS = ('cmd-lost', 'rsp-lost')
VERIF_DIR = os.path.dirname(os.path.dirname(os.path.abspath(__file__)))
# command sequences up to this length: every position is faulted
SMALL = {'quick': 40, 'thorough': 120}


class HarnessError(Exception):
    pass


class Link(object):
    """sim.hook.  Numbers the commands seen since it was installed (1..);
    with a fault (p, kind, variant) every exchange from the p-th on fails;
    with snap=True the persistent tag memory is recorded after every
    state-changing command (images[k] = memory after k such commands)."""

    def __init__(self, fault=None, snap=False, sim=None):
        self.fault = fault
        self.k = 0
        self.names = []
        self.silent = []            # genuine answer was "no response"
        self.faulted = 0
        self.images = [sim.image()] if snap else None

    def __call__(self, sim, phase, ctx):
        f = self.fault
        if phase == 'before':
            self.k += 1
            self.names.append(ctx.name)
            self.silent.append(False)
            if f is not None and self.k >= f[0] and f[2] == 'cmd-lost':
                self.faulted += 1
                return f[1]
            return None
        self.names[-1] = ctx.name
        self.silent[-1] = ctx.rsp is None
        if ctx.changed and self.images is not None:
            self.images.append(sim.image())
        if f is not None and self.k >= f[0] and f[2] == 'rsp-lost':
            self.faulted += 1
            return f[1]
        return None


class PreImageUnreadable(Exception):
    pass


def start(case, old):
    """Fresh simulator holding `old`, activated, previous message read."""
    sim = case.new_sim()
    sim.keep_log = False
    if old:
        case.preload(sim, old)
    clf, tag = case.activate(sim)
    nd = tag.ndef if tag is not None else None
    if nd is None or nd.octets != old:
        # a layout that is valid for the reference model but that this tree
        # does not read back: C01's business, no retry history to judge
        raise PreImageUnreadable("pre-image not readable: %s" % case.name)
    return sim, tag, nd


def assign(nd, new):
    """`nd.octets = new`; returns the exception or None.  An exception that
    comes out of harness / simulator code is a bug of the check."""
    import nfc.clf
    try:
        nd.octets = new
    except Exception as e:
        tb = e.__traceback__
        while tb.tb_next is not None:
            tb = tb.tb_next
        if tb.tb_frame.f_code.co_filename.startswith(VERIF_DIR) and \
                not isinstance(e, nfc.clf.CommunicationError):
            raise
        return e
    return None


def exc_class(e):
    import nfc.tag
    if e is None:
        return 'completed'
    if isinstance(e, nfc.tag.TagCommandError):
        return 'TagCommandError'
    return type(e).__name__


def probe(case, old, new):
    """Fault-free write with the command counter (and memory recorder)."""
    sim, tag, nd = start(case, old)
    link = Link(snap=True, sim=sim)
    sim.hook = link
    exc = assign(nd, new)
    sim.hook = None
    return link, exc, sim


def positions(names, tier):
    """Faulted positions (1-based) of a command sequence: all of them up to
    SMALL[tier] commands; otherwise the first, second, middle and last
    command, every SECTOR SELECT packet and the first and last occurrence of
    every command name (thorough: also the third, the last but one, the
    quartiles and both sides of every change of the command name, capped at
    64 changes)."""
    n = len(names)
    if n <= SMALL[tier]:
        return list(range(1, n + 1)), False
    s = {1, 2, (n + 1) // 2, n}
    first, last = {}, {}
    for i, nm in enumerate(names):
        if nm.startswith('SECTOR_SELECT'):
            s.add(i + 1)
        first.setdefault(nm, i + 1)
        last[nm] = i + 1
    s.update(first.values())
    s.update(last.values())
    if tier == 'thorough':
        s.update((3, n - 1, max(1, n // 4), (3 * n) // 4))
        changes = [i for i in range(1, n) if names[i] != names[i - 1]]
        if len(changes) <= 64:
            for i in changes:
                s.update((i, i + 1))
    return sorted(x for x in s if 1 <= x <= n), True


def faults(link, tier):
    """[(p, kind, variant)] for a probed command sequence, exempt count,
    thinned?"""
    ps, thinned = positions(link.names, tier)
    out, exempt = [], 0
    for p in ps:
        for kind in KINDS:
            if kind == TIMEOUT and link.silent[p - 1]:
                exempt += len(VARIANTS)
                continue
            for variant in VARIANTS:
                out.append((p, kind, variant))
    return out, exempt, thinned


def history(case, old, new, fault, snap=False, cut=None):
    """Attempt 1 under `fault`, then the retry on the same ndef object.
    snap: record the tag memory after every state-changing command of the
    retry; cut=k: the tag leaves the field after k state-changing commands of
    the retry.  Returns (sim, exc1, exc2, link of the retry, marks)"""
    sim, tag, nd = start(case, old)
    marks = (len(sim.writes), len(sim.damage))
    sim.hook = Link(fault)
    exc1 = assign(nd, new)
    link = Link(snap=snap, sim=sim)
    sim.hook = link
    if cut is not None:
        sim.arm_cut(cut)
    exc2 = assign(nd, new)
    sim.hook = None
    return sim, exc1, exc2, link, marks


def restore(case, image):
    """A new simulator of the same product whose persistent memory is
    `image` (as returned by sim.image())."""
    sim = case.new_sim()
    sim.keep_log = False
    if hasattr(sim, 'files'):
        for k, v in image.items():
            f = sim.files[bytes.fromhex(k)]
            assert len(f) == len(v)
            f[:] = v
    else:
        assert len(sim.mem) == len(image['mem'])
        sim.mem[:] = image['mem']
    return sim


def image_key(image):
    return tuple(sorted(image.items()))


# ---------------------------------------------------------------------------
# C02: retry interrupted at every state-changing command
# ---------------------------------------------------------------------------
OK_CLASSES = ('none', 'not-readable', 'empty')


class CutResult(object):
    __slots__ = ('fault', 'name', 'exc1', 'exc2', 'n2', 'classes', 'bad')


def c02_retry(case, old, new, tier, observe, only=None):
    """All retry histories of one (layout, old, new).  `observe(case, sim)`
    is the fresh reader of C02 -> (class, octets).  only=(fault, k) restricts
    to one history and one cut (replay; the cut is then made for real).

    Returns (info dict, [CutResult]); CutResult.bad = [(k, class, octets)] of
    the cuts that violate the oracle:  the fresh reader must see none /
    not-readable / empty / old / new, or something that a single interrupted
    write old -> new leaves as well (judged by the single-cut part of C02; if
    that write has no safe commit point - a mixture is reachable by a single
    cut - retry histories of it are not judged again)."""
    cache = {}

    def view(image):
        key = image_key(image)
        v = cache.get(key)
        if v is None:
            v = cache[key] = observe(case, restore(case, image))
        return v

    def classify(v):
        cls, octets = v
        if cls in OK_CLASSES:
            return cls, False
        if cls == 'data':
            if octets == new:
                return 'new', False
            if octets == old:
                return 'old', False
            cls = 'mixture'
        if v in single:
            return 'single-cut-state', False
        if unsafe:
            return 'unsafe-write:' + cls.split('@')[0].split(':')[0], False
        return cls, True

    try:
        link0, exc0, _ = probe(case, old, new)
    except PreImageUnreadable:
        return dict(n=0, complete='pre-image-unreadable', histories=0,
                    exempt=0, thinned=False, images=0, cross=0), []
    info = dict(n=len(link0.names), complete=exc_class(exc0), histories=0,
                exempt=0, thinned=False, images=0, cross=0)
    if exc0 is not None:
        return info, []         # the plain write fails: C01's business
    single = {view(img) for img in link0.images}
    unsafe = any(c not in OK_CLASSES and not (c == 'data' and o in (old, new))
                 for (c, o) in single)
    info['unsafe'] = unsafe
    fl, info['exempt'], info['thinned'] = faults(link0, tier)
    out = []
    for fi, fault in enumerate(fl):
        if only is not None and tuple(only[0]) != fault:
            continue
        sim, exc1, exc2, link, _ = history(case, old, new, fault, snap=True)
        r = CutResult()
        r.fault, r.name = fault, link0.names[fault[0] - 1]
        r.exc1, r.exc2 = exc1, exc2
        r.n2 = len(link.images) - 1
        r.classes, r.bad = [], []
        views = [view(img) for img in link.images]
        for k, v in enumerate(views):
            cls, bad = classify(v)
            r.classes.append(cls)
            if bad:
                r.bad.append((k, cls, v[1]))
        # one cut of every history is made for real
        k = only[1] if only is not None else (
            r.bad[0][0] if r.bad else (fi * 7 + 3) % (r.n2 + 1))
        sim2, _, _, _, _ = history(case, old, new, fault, cut=k)
        real = observe(case, sim2)
        if real != views[k]:
            raise HarnessError('cut %d of %r on %s: recorded memory gives %r, '
                               'real cut gives %r' % (k, fault, case.name,
                                                      views[k][0], real[0]))
        info['cross'] += 1
        info['histories'] += 1
        if only is not None:
            r.classes = [r.classes[k]]
            r.bad = [b for b in r.bad if b[0] == k]
        out.append(r)
    info['images'] = len(cache)
    return info, out


# ---------------------------------------------------------------------------
# C03: the whole history must stay inside the NDEF area
# ---------------------------------------------------------------------------
class RetryFindings(tc.Findings):
    """Signatures KIND|retry-write:<faulted command>:<variant>|class|what"""

    def __init__(self, case, base):
        tc.Findings.__init__(self, case, base)
        self.label = 'retry-write'

    def fail(self, prop, op, n, what, detail=False, **extra):
        sig = '%s|%s|%s|%s' % (self.case.kind, self.label,
                               self.case.c03class('write', n), what)
        d = dict(self.base)
        d.update(extra)
        self.items[prop].append((sig, d))


def c03_retry(case, prev, pattern, n, tier, only=None):
    """All retry histories of one (layout, previous content, pattern,
    length).  Returns (info, [(fault, command name, [(sig, detail)], obs)])."""
    from mc.evidence import sig_exc
    old = tc.prev_message(case, prev)
    msg = tc.content(pattern, n)
    try:
        link0, exc0, sim0 = probe(case, old, msg)
    except PreImageUnreadable:
        return dict(n=0, complete='pre-image-unreadable', exempt=0,
                    thinned=False), []
    info = dict(n=len(link0.names), complete=exc_class(exc0), exempt=0,
                thinned=False)
    if exc0 is not None:
        return info, []         # the plain write fails: C01's business
    fl, info['exempt'], info['thinned'] = faults(link0, tier)
    out = []
    sim = case.new_sim()
    if old:
        case.preload(sim, old)
    before = sim.image()            # tag memory before attempt 1
    for fault in fl:
        if only is not None and tuple(only) != fault:
            continue
        name = link0.names[fault[0] - 1]
        f = RetryFindings(case, dict(
            op='retry-write', spec=list(case.spec), case=case.name, prev=prev,
            pattern=pattern, n=n, fault=list(fault), command=name,
            commands_of_write=len(link0.names)))
        f.label = 'retry-write:%s:%s' % (name, fault[2])
        sim, exc1, exc2, link, (mark_w, mark_d) = history(case, old, msg,
                                                          fault)
        after = sim.image()
        f.base['attempt1'] = repr(exc1)
        f.base['retry'] = repr(exc2)
        tc.c03_oracle(case, f, 'retry-write', n, before, after,
                      sim.writes[mark_w:], sim.damage[mark_d:])
        obs = {'attempt1:' + exc_class(exc1), 'retry:' + exc_class(exc2)}
        if exc2 is None:
            # the application was told that the message is on the tag
            sim.hook = None
            try:
                clf2, tag2 = case.activate(sim)
                nd2 = tag2.ndef if tag2 is not None else None
                got = None if nd2 is None else nd2.octets
            except Exception as e:
                got = 'reader-exception:' + sig_exc(e)
            if got != msg:
                f.fail('C03', 'retry-write', n, 'readback-mismatch',
                       got=got if got is None or isinstance(got, str)
                       else got[:64], got_len=None if got is None or
                       isinstance(got, str) else len(got), want=msg[:64])
            else:
                obs.add('readback-ok')
        out.append((fault, name, f.items['C03'], obs))
    return info, out
