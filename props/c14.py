"""C14 - Host-link frames and ISO 14443 CRCs are built and checked correctly.

Parts (run all, or one with --part):

  cmd   every command code of every chipset x every payload length 0..max x 3
        contents through the real Chipset.command()/send_command(): the frame
        written to the transport must be accepted by the independent validator
        (ref/hostframe.py) and carry exactly the code and payload.
  rsp   valid PN53x / ACR122 response frames, mutated (bit flips, truncations,
        extension, insertion, byte substitutions, wrong TFI / code, checksum
        preserving substitutions, ACK/NACK interleavings, pairs in thorough):
        command() may return data only if the validator accepts the frame it
        was given and the data are its payload; otherwise IOError (or
        Chipset.Error for a valid error frame) - nothing else.
  tty   the same oracle with the PN53x frames fed as a byte stream through
        the real nfc.clf.transport.TTY.read() over a fake serial port.
  crc   calculate_crc / add_crc_a|b / check_crc_a|b against the bitwise
        reference (ref/crc.py) for every short message, check_crc_* for every
        trailer of every message of length <= 1, every 1- and 2-bit flip of
        20 longer frames through check_crc_* and through the drivers' own
        verification (_tt2_send_cmd_recv_rsp of pn53x and rcs380, CRC_B in
        the Type 1 Tag register path of pn532/pn533).
"""
import itertools

from mc.evidence import Run
from mc.evidence import sig_exc as _sig_exc
from mc import par
from ref import crc as refcrc
from ref import hostframe as hf

PROP = 'C14'


def sig_exc(exc):
    s = _sig_exc(exc)
    mod = type(exc).__module__
    if mod not in ('builtins', 'exceptions') and not mod.startswith('nfc'):
        s = mod.lstrip('_') + '.' + s          # struct.error, binascii.Error
    return s
ACK, NACK, ERR = hf.ACK, hf.NACK, hf.ERROR


def pat(n, k=0):
    return bytes((i * 7 + 3 + k) & 0xFF for i in range(n))


CONTENTS = (lambda n: bytes(n), lambda n: b'\xFF' * n, pat)
CONTENT_NAMES = ('zeros', 'ones', 'pattern')


# ----------------------------------------------------------------------------
# chipsets under test
# ----------------------------------------------------------------------------
class Echo(object):
    """Recording transport that answers every command with ACK + an empty,
    valid response (so that the whole command path runs)."""
    TYPE = 'USB'
    manufacturer_name = product_name = 'x'

    def __init__(self, family):
        self.family = family
        self.written = []
        self.queue = []

    def write(self, frame, timeout=0):
        f = bytes(frame)
        self.written.append(f)
        self.queue = []
        try:
            if self.family == 'pn53x':
                code, _ = hf.pn53x_command(f[1:] if f[:1] == b'2' else f)
                self.queue = [ACK, hf.pn53x_build(bytes([0xD5, (code + 1) & 255]))]
            elif self.family == 'acr122':
                code, _ = hf.acr122_command(f)
                self.queue = [hf.ccid_build(0x80, bytes(
                    [0xD5, (code + 1) & 255, 0x90, 0x00]), 0, 0, b'\x81\0\0')]
            elif self.family == 'rcs380':
                code, _ = hf.rcs380_command(f)
                self.queue = [ACK, hf.rcs380_build(bytes(
                    [0xD7, (code + 1) & 255, 0]))]
        except hf.Invalid:
            pass

    def read(self, timeout=0):
        if not self.queue:
            import errno
            raise IOError(errno.ETIMEDOUT, 'timeout')
        return bytearray(self.queue.pop(0))

    def close(self):
        pass


CHIPS = ('pn531', 'pn532', 'pn533', 'rcs956', 'arygonA', 'arygonB',
         'acr122', 'rcs380')


def make_chipset(chip, transport):
    """The real Chipset object of `chip` talking to `transport`.  acr122 and
    rcs380 constructors do a handshake, which runs against the simulator."""
    import logging
    log = logging.getLogger('c14')
    if chip in ('pn531', 'pn532', 'pn533', 'rcs956'):
        mod = __import__('nfc.clf.' + chip, fromlist=['Chipset'])
        return mod.Chipset(transport, logger=log)
    if chip in ('arygonA', 'arygonB'):
        import nfc.clf.arygon as arygon
        cls = arygon.ChipsetA if chip == 'arygonA' else arygon.ChipsetB
        return cls(transport, logger=log)
    from sim import chipsets
    sim = chipsets.Sim(chip)
    if chip == 'acr122':
        import nfc.clf.acr122 as acr122
        cs = acr122.Chipset(sim.transport)
    else:
        import nfc.clf.rcs380 as rcs380
        cs = rcs380.Chipset(sim.transport, logger=log)
    assert not sim.chip.bad_frames, sim.chip.bad_frames
    cs.transport = transport
    return cs


def family(chip):
    return {'acr122': 'acr122', 'rcs380': 'rcs380'}.get(chip, 'pn53x')


def cmd_table(chip):
    if chip == 'rcs380':
        import nfc.clf.rcs380 as m
        return m.Chipset.CMD
    name = {'arygonA': 'pn531', 'arygonB': 'pn532', 'acr122': 'pn532'}.get(
        chip, chip)
    mod = __import__('nfc.clf.' + name, fromlist=['Chipset'])
    return mod.Chipset.CMD


def max_payload(chip, tier):
    if chip == 'rcs380':
        return 300
    name = {'arygonA': 'arygon', 'arygonB': 'arygon'}.get(chip, chip)
    mod = __import__('nfc.clf.' + name, fromlist=['x'])
    cls = {'arygonA': 'ChipsetA', 'arygonB': 'ChipsetB'}.get(chip, 'Chipset')
    return getattr(mod, cls).host_command_frame_max_size - 2


# ----------------------------------------------------------------------------
# part cmd
# ----------------------------------------------------------------------------
def cmd_items(tier):
    items = []
    for chip in CHIPS:
        for code in sorted(cmd_table(chip)):
            items.append(('cmd', chip, code))
    return items


def cmd_lengths(chip, tier):
    n = list(range(0, max_payload(chip, tier) + 1))
    if chip == 'rcs380':
        n += [509, 510, 511, 512, 1000] + ([65533] if tier == 'thorough' else [])
    return n


def check_cmd_frame(chip, code, payload, written):
    """None or (class, message)."""
    if len(written) != 1:
        return 'frames', 'command wrote %d frames' % len(written)
    f = written[0]
    fam = family(chip)
    try:
        if fam == 'pn53x':
            if chip.startswith('arygon'):
                if f[:1] != b'2':
                    return 'prefix', 'no "2" prefix'
                f = f[1:]
            c, p = hf.pn53x_command(f, max_payload(chip, None) + 2)
        elif fam == 'acr122':
            c, p = hf.acr122_command(f)
        else:
            c, p = hf.rcs380_command(f)
    except hf.Invalid as e:
        return 'invalid', str(e)
    if c != code:
        return 'code', 'frame carries code %02X' % c
    if p != payload:
        return 'payload', 'frame carries another payload (%d bytes)' % len(p)
    return None


def run_cmd_case(chip, cs, tr, code, payload):
    tr.written = []
    exc = None
    try:
        if chip == 'rcs380':
            rsp = cs.send_command(code, payload)
            good = rsp == b'\x00'
        else:
            rsp = cs.command(code, payload, 0.1)
            good = rsp == b''
    except IOError as e:            # the echo does not answer a bad frame
        exc, good, rsp = e, False, None
    v = check_cmd_frame(chip, code, bytes(payload), tr.written[:1])
    if v is None and not good:
        if exc is not None:
            raise exc
        return 'harness', 'valid frame written but %r returned' % (rsp,)
    return v


def work_cmd(run, item, tier):
    _, chip, code = item
    tr = Echo(family(chip))
    cs = make_chipset(chip, tr)
    lengths = cmd_lengths(chip, tier)
    boundary = set(lengths[-2:]) | {0, 1, 252, 253, 254, 255, 256}
    for n in lengths:
        for ci, mk in enumerate(CONTENTS):
            payload = mk(n)
            arg = bytearray(payload) if ci else payload
            key = ('cmd', chip, code, n, ci)
            try:
                v = run_cmd_case(chip, cs, tr, code, arg)
                exc = None
            except Exception as e:       # judged: command() must not fail
                v, exc = ('exception', repr(e)), e
            if v is None:
                run.ok(key=key)
                if n in (253, 254):
                    run.count('cmd_format_switch_cases')
                continue
            cls = 'len>=254' if n >= 254 else 'len<254'
            sig = '%s.command|cmd|%s|%s' % (
                chip, cls, sig_exc(exc) if exc is not None else v[0])
            if v[0] == 'harness':
                raise AssertionError((item, n, v))
            run.fail(sig, dict(part='cmd', chip=chip, code=code,
                               payload=payload, content=CONTENT_NAMES[ci],
                               observed=v[1],
                               written=[w for w in tr.written]), key=key)
        run.outcome(('cmd', chip, n in boundary))
    if code == min(cmd_table(chip)):
        run.sample(dict(part='cmd', chip=chip, code=code, payload_len=254,
                        frame_head=tr.written[0][:12] if tr.written else None))


# ----------------------------------------------------------------------------
# part rsp: mutation alphabets
# ----------------------------------------------------------------------------
RSP_LENGTHS = (0, 1, 2, 253, 254, 255, 263)
ACR_LENGTHS = (0, 1, 2, 100, 250)
PAIR_VALUES = (0x00, 0x01, 0x7F, 0x80, 0xFF)


def valid_frame(fam, code, n, k=0):
    pl = pat(n, k)
    if fam == 'pn53x':
        return hf.pn53x_build(bytes([0xD5, code + 1]) + pl), pl
    return hf.ccid_build(0x80, bytes([0xD5, code + 1]) + pl + b'\x90\x00',
                         0, 0, b'\x81\x00\x00'), pl


def mutation_count(cls, n):
    return {'bitflip': 8 * n, 'trunc': n - 1, 'extend': 256, 'insert': 256,
            'subst': 255 * n}[cls]


def mutate(frame, cls, i):
    """The i-th mutation of class cls."""
    f = bytearray(frame)
    if cls == 'bitflip':
        f[i >> 3] ^= 1 << (i & 7)
    elif cls == 'trunc':
        f = f[:i + 1]
    elif cls == 'extend':
        f.append(i)
    elif cls == 'insert':
        f.insert(1, i)
    elif cls == 'subst':
        pos, v = divmod(i, 255)
        f[pos] = (f[pos] + 1 + v) & 0xFF
    return bytes(f)


def header_positions(frame):
    n = len(frame)
    return sorted(set(range(0, min(10, n))) | set(range(max(0, n - 3), n)))


def pair_list(frame, all_pairs):
    n = len(frame)
    if all_pairs:
        pos = list(itertools.combinations(range(n), 2))
    else:
        hp = header_positions(frame)
        pos = sorted(set((min(i, j), max(i, j)) for i in hp for j in range(n)
                         if i != j))
    return pos


def special_frames(fam, code, n):
    """(class, frame) for the constructed cases: valid checksums with wrong
    identifier / code, still-valid variants, checksum-preserving pairs."""
    frame, pl = valid_frame(fam, code, n)
    out = []
    if fam == 'pn53x':
        for v in range(256):
            if v != 0xD5:
                out.append(('wrongtfi', hf.pn53x_build(
                    bytes([v, code + 1]) + pl)))
            if v != code + 1:
                out.append(('wrongcode', hf.pn53x_build(bytes([0xD5, v]) + pl)))
        out.append(('valid-variant', frame))
        if n + 2 <= 255:
            out.append(('valid-variant', hf.pn53x_build(
                bytes([0xD5, code + 1]) + pl, extended=True)))
        if n:
            for v in (0x00, 0x5A, 0xFF):
                p2 = bytes([v]) + pl[1:]
                out.append(('valid-variant', hf.pn53x_build(
                    bytes([0xD5, code + 1]) + p2)))
        out.append(('errframe', ERR))
        out.append(('errframe', hf.pn53x_build(b'\x7F' + pl[:3])))
        out.append(('tfi-only', hf.pn53x_build(b'\xD5')))
        if n <= 2:
            # every value pair on (DCS, postamble) and on (LEN, LCS)
            f = bytearray(frame)
            for a in range(256):
                for b in range(256):
                    g = bytearray(f)
                    g[-2], g[-1] = a, b
                    if g != f:
                        out.append(('pair-dcs-post', bytes(g)))
                    g = bytearray(f)
                    g[3], g[4] = a, b
                    if g != f:
                        out.append(('pair-len-lcs', bytes(g)))
    else:
        body = frame[10:]
        for v in range(256):
            if v != 0xD5:
                out.append(('wrongtfi', hf.ccid_build(
                    0x80, bytes([v]) + body[1:], 0, 0, b'\x81\0\0')))
            if v != code + 1:
                out.append(('wrongcode', hf.ccid_build(
                    0x80, body[:1] + bytes([v]) + body[2:], 0, 0, b'\x81\0\0')))
        for sw in (0x6300, 0x9001, 0x9100, 0x0090, 0x6A81):
            out.append(('wrongsw', hf.ccid_build(
                0x80, body[:-2] + bytes([sw >> 8, sw & 255]), 0, 0, b'\x81\0\0')))
        out.append(('valid-variant', frame))
        out.append(('valid-variant', hf.ccid_build(
            0x80, body, 3, 9, b'\x00\x00\x01')))
        if n:
            out.append(('valid-variant', hf.ccid_build(
                0x80, body[:2] + b'\xA5' + body[3:], 0, 0, b'\x81\0\0')))
        for t in (0x00, 0x81, 0x83, 0x6F):
            out.append(('wrongtype', bytes([t]) + frame[1:]))
    return out


def interleavings(code):
    import errno
    R, _ = valid_frame('pn53x', code, 2)
    W = hf.pn53x_build(bytes([0xD5, code + 3, 1, 2]))
    tmo = IOError(errno.ETIMEDOUT, 'timeout')
    eio = IOError(errno.EIO, 'eio')
    return [
        ('R',), ('A', 'R'), ('A', 'A', 'R'), ('A', 'A', 'A', 'R'), ('N',),
        ('A', 'N'), ('N', 'R'), ('A', 'E'), ('E',), ('A',), ('A', 'A'), (),
        ('A', 'T'), ('T',), ('I',), ('A', 'I'), ('A', 'W', 'R'), ('W', 'R'),
        ('A', 'A', 'N'), ('A', 'A', 'E'), ('R', 'R'), ('A', 'R', 'R'),
        ('N', 'A', 'R'), ('E', 'R'), ('A', 'N', 'R'),
    ], dict(R=R, A=ACK, N=NACK, E=ERR, W=W, T=tmo, I=eio)


# ----------------------------------------------------------------------------
# part rsp: oracle
# ----------------------------------------------------------------------------
def judge_rsp(fam, code, frame, result, exc, ChipsetError):
    """frame: the frame command() had to judge (None: there was none).
    Returns None or (class, message)."""
    if exc is not None:
        if isinstance(exc, ChipsetError):
            if fam == 'pn53x' and frame is not None and \
                    hf.pn53x_is_error_frame(frame):
                return None
            return 'chipset-error', 'Chipset.Error without a valid error frame'
        if isinstance(exc, IOError):
            return None
        return 'exception', repr(exc)
    if frame is None:
        return 'accepted', 'data %r returned without a response frame' % (
            result,)
    try:
        if fam == 'pn53x':
            payload = hf.pn53x_response(frame, code)
        else:
            payload = hf.acr122_response(frame, code)
    except hf.Invalid as e:
        return 'accepted', 'data returned from an invalid frame: %s' % e
    if result is None or bytes(result) != payload:
        return 'accepted', 'returned %r, frame carries %r' % (result, payload)
    return None


def effective_frame(seq):
    """What command() has to judge when the transport delivers `seq`."""
    for item in seq:
        if isinstance(item, Exception):
            return item
        if bytes(item) != ACK:
            return bytes(item)
    return None


class RspHarness(object):
    def __init__(self, chip, transport_kind='usb'):
        from sim import chipsets
        self.chip = chip
        self.fam = family(chip)
        self.kind = transport_kind
        if transport_kind == 'tty':
            self.tr = script_tty()
        else:
            self.tr = chipsets.ScriptTransport()
        self.cs = make_chipset(chip, self.tr)
        import nfc.clf.pn53x as pn53x
        self.Error = pn53x.Chipset.Error

    def run(self, code, seq):
        tr = self.tr
        if self.kind == 'tty':
            tr.load(seq)
        else:
            tr.script.clear()
            tr.script.extend(seq)
            tr.written = []
        try:
            return self.cs.command(code, b'', 0.1), None
        except Exception as e:
            return None, e


def rsp_case(h, run, code, cls, seq, key, n=None, stream=False):
    result, exc = h.run(code, seq)
    eff = effective_frame(seq)
    if isinstance(eff, Exception):
        eff = None
    if stream and eff is not None:
        eff = stream_frame(eff)
    v = judge_rsp(h.fam, code, eff, result, exc, h.Error)
    if exc is None:
        run.count('rsp_accepted')
    elif isinstance(exc, h.Error):
        run.count('rsp_chipset_error')
    elif isinstance(exc, IOError):
        run.count('rsp_ioerror')
    if v is None:
        run.ok(key=key)
        return
    where = sig_exc(exc) if (exc is not None and v[0] == 'exception') else v[0]
    sig = '%s.command|rsp%s|%s|%s' % (
        'pn53x' if h.fam == 'pn53x' else h.chip,
        '-tty' if h.kind == 'tty' else '', cls, where)
    run.fail(sig, dict(part='tty' if h.kind == 'tty' else 'rsp', chip=h.chip,
                       code=code, mutation=cls,
                       script=[('!' + type(x).__name__ + ':%d' % x.errno)
                               if isinstance(x, Exception) else bytes(x)
                               for x in seq],
                       observed=repr(exc) if exc is not None
                       else bytes(result) if result is not None else None,
                       verdict=v[1]), key=key)


def stream_frame(stream):
    """The frame at the head of a serial byte stream, per the link layer
    (None if there is no complete one)."""
    s = bytes(stream)
    if len(s) < 6 or s[:3] != b'\x00\x00\xFF':
        return s
    if s[:6] == ACK:
        return ACK
    if s[3] == 0xFF and s[4] == 0xFF:
        if len(s) < 8:
            return s
        k = 8 + ((s[5] << 8) | s[6]) + 2
    else:
        k = 5 + s[3] + 2
    return s[:k]


RSP_CODE = 0x42


def rsp_items(tier, part):
    items = []
    chips = [('pn533', RSP_LENGTHS), ('acr122', ACR_LENGTHS)]
    if tier == 'thorough':
        chips += [('pn531', (0, 2, 250)), ('pn532', (0, 2, 263)),
                  ('rcs956', (0, 2, 263)), ('arygonB', (0, 2, 263))]
    for chip, lengths in chips:
        fam = family(chip)
        for n in lengths:
            f, _ = valid_frame(fam, RSP_CODE, n)
            for cls in ('bitflip', 'trunc', 'extend', 'insert', 'subst'):
                total = mutation_count(cls, len(f))
                step = 4096
                for a in range(0, total, step):
                    items.append(('rsp', chip, n, cls, a, min(total, a + step)))
            items.append(('rsp', chip, n, 'special', 0, 0))
            if tier == 'thorough' and chip in ('pn533', 'acr122'):
                npairs = len(pair_list(f, len(f) <= 16))
                step = 400
                for a in range(0, npairs, step):
                    items.append(('rsp', chip, n, 'pairs', a,
                                  min(npairs, a + step)))
        if fam == 'pn53x':
            items.append(('rsp', chip, 0, 'interleave', 0, 0))
    return items


def tty_items(tier):
    items = []
    lengths = RSP_LENGTHS if tier == 'thorough' else (0, 2, 254)
    for n in lengths:
        f, _ = valid_frame('pn53x', RSP_CODE, n)
        classes = ('bitflip', 'trunc', 'extend', 'insert', 'subst')
        for cls in classes:
            total = mutation_count(cls, len(f))
            if tier != 'thorough' and cls == 'subst' and n > 2:
                total = 255 * 12              # header bytes only in quick
            step = 4096
            for a in range(0, total, step):
                items.append(('tty', 'pn532', n, cls, a, min(total, a + step)))
        items.append(('tty', 'pn532', n, 'special', 0, 0))
    items.append(('tty', 'pn532', 0, 'interleave', 0, 0))
    return items


_harness = {}


def harness(chip, kind):
    h = _harness.get((chip, kind))
    if h is None:
        h = _harness[(chip, kind)] = RspHarness(chip, kind)
    return h


def work_rsp(run, item, tier):
    part, chip, n, cls, a, b = item
    kind = 'tty' if part == 'tty' else 'usb'
    h = harness(chip, kind)
    fam = h.fam
    code = RSP_CODE
    frame, payload = valid_frame(fam, code, n)
    pre = [ACK] if fam == 'pn53x' else []
    stream = kind == 'tty'
    if cls == 'special':
        # the unmutated frame must be accepted (harness sanity)
        result, exc = h.run(code, pre + [frame])
        if exc is not None or bytes(result) != payload:
            run.fail('%s.command|rsp%s|valid|rejected' % (
                'pn53x' if fam == 'pn53x' else chip,
                '-tty' if kind == 'tty' else ''), dict(
                    part=part, chip=chip, code=code, mutation='valid',
                    script=[bytes(x) for x in pre + [frame]],
                    observed=repr(exc) if exc else bytes(result),
                    verdict='the unmutated valid frame was not returned as '
                            'its payload'), key=(part, chip, n, 'valid'))
        for i, (c, f) in enumerate(special_frames(fam, code, n)):
            rsp_case(h, run, code, c, pre + [f], (part, chip, n, c, i),
                     stream=stream)
        run.outcome((part, chip, n, 'special'))
        return
    if cls == 'interleave':
        seqs, sym = interleavings(code)
        for s in seqs:
            seq = [sym[x] for x in s]
            rsp_case(h, run, code, 'interleave', seq,
                     (part, chip, 'il', s), stream=stream)
        run.sample(dict(part=part, chip=chip, interleavings=len(seqs)))
        return
    if cls == 'pairs':
        pos = pair_list(frame, len(frame) <= 16)[a:b]
        for (i, j) in pos:
            for x in PAIR_VALUES:
                for y in PAIR_VALUES:
                    if frame[i] == x and frame[j] == y:
                        continue
                    g = bytearray(frame)
                    g[i], g[j] = x, y
                    cls2 = 'pairs+postamble' if j == len(frame) - 1 \
                        else 'pairs'
                    rsp_case(h, run, code, cls2, pre + [bytes(g)],
                             (part, chip, n, 'p', i, j, x, y), stream=stream)
        return
    for i in range(a, b):
        m = mutate(frame, cls, i)
        rsp_case(h, run, code, cls, pre + [m], (part, chip, n, cls, i),
                 stream=stream)
    run.outcome((part, chip, n, cls))
    if a == 0 and cls == 'trunc' and n == 2:
        run.sample(dict(part=part, chip=chip, valid_frame=frame,
                        mutation='trunc', first=mutate(frame, cls, 0)))


# -- TTY path ------------------------------------------------------------
_script_tty = []


def script_tty():
    """The real TTY.read()/write() over a fake serial port that answers every
    write with the scripted byte stream."""
    from sim import chipsets
    import nfc.clf.transport as transport
    if not _script_tty:
        class ScriptTTY(transport.TTY):
            def __init__(self):
                self.tty = chipsets.FakeSerial()
                self.tty.on_write = self._on_write
                self.seq = []
                self.pending = []
                self.written = []

            def load(self, seq):
                self.seq = list(seq)

            def _on_write(self, data):
                self.written.append(data)
                self.tty.buf = bytearray()
                self.pending = list(self.seq)

            def read(self, timeout):
                if self.pending:
                    item = self.pending.pop(0)
                    if isinstance(item, Exception):
                        raise item
                    self.tty.buf = bytearray(item)
                else:
                    self.tty.buf = bytearray()
                return transport.TTY.read(self, timeout)

            def open(self, port, baudrate=115200):
                pass

            def close(self):
                pass
        _script_tty.append(ScriptTTY)
    return _script_tty[0]()


# ----------------------------------------------------------------------------
# part crc
# ----------------------------------------------------------------------------
def crc_items(tier):
    items = []
    maxlen = 3 if tier == 'thorough' else 2
    items.append(('crc', 'short', 0, None))
    for first in range(256):
        items.append(('crc', 'short', maxlen, first))
    for m in [b''] + [bytes([x]) for x in trailer_bytes(tier)]:
        items.append(('crc', 'trailers', 'a', m))
        items.append(('crc', 'trailers', 'b', m))
    def add(which, i):
        # slices: first flipped bit index = s (mod S)
        S = max(1, (8 * (len(long_frame(i)) + 2)) // 24)
        for sl in range(S):
            items.append(('crc', 'flips', which, i, sl, S, tier))
    for i in range(20):
        add('fn', i)
        add('tt2-pn53x', i)
        add('tt2-rcs380', i)
        add('tt1-pn532', i)
    for i in range(0, 20, 2 if tier == 'thorough' else 5):
        add('tt1-pn533', i)
    # every SEL_RES value through sense_tta + exchange (CRC check routing)
    sels = range(256) if tier == 'thorough' else (
        [v for v in range(256) if v & 0x60 == 0][::2] + [0x20, 0x24, 0x40, 0x60])
    sels = list(sels)
    for which in ('tt1-pn532', 'tt1-pn533'):
        for code in (0x02, 0x54, 0x1B):
            items.append(('crc', 'tx', which, code))
    for k in range(0, len(sels), 8):
        items.append(('crc', 'route', tuple(sels[k:k + 8])))
    for drv in ('pn533', 'pn532', 'rcs380'):
        items.append(('crc', 'route2', drv))
    return items


def trailer_bytes(tier):
    """One-byte messages whose 65536 trailers are all tried: every value in
    thorough, every 8th value plus the corner values in quick."""
    if tier == 'thorough':
        return list(range(256))
    return sorted(set(range(0, 256, 8)) | {0x01, 0x7F, 0x80, 0xFF})


def long_frame(i):
    """20 'longer' messages: lengths 1..16, 18, 32, 40, 64 bytes + data mix."""
    n = (list(range(1, 17)) + [18, 32, 40, 64])[i]
    return bytes((i * 37 + j * 11 + (j * j)) & 0xFF for j in range(n))


def crc_fail(run, what, data, observed, expected, key, exc=None):
    sig = 'crc|%s|%s' % (what, sig_exc(exc) if exc is not None else 'mismatch')
    run.fail(sig, dict(part='crc', what=what, data=bytes(data),
                       observed=observed, expected=expected,
                       item=_jsonable(_CUR_ITEM)), key=key)


_CUR_ITEM = None


def _jsonable(x):
    if isinstance(x, (tuple, list)):
        return [_jsonable(y) for y in x]
    if isinstance(x, (bytes, bytearray)):
        return {'hex': bytes(x).hex()}
    return x


def _unjson(x):
    if isinstance(x, list):
        return tuple(_unjson(y) for y in x)
    if isinstance(x, dict) and 'hex' in x:
        return bytes.fromhex(x['hex'])
    return x


def crc_dispatch(run, item):
    global _CUR_ITEM
    _CUR_ITEM = item
    if item[1] == 'short':
        work_crc_short(run, item[2], item[3])
    elif item[1] == 'trailers':
        work_crc_trailers(run, item[2], item[3])
    elif item[1] == 'tx':
        work_crc_tx(run, item[2], item[3])
    elif item[1] == 'route':
        work_crc_route(run, item[2])
    elif item[1] == 'route2':
        work_crc_route2(run, item[2])
    else:
        work_crc_flips(run, *item[2:])


def work_crc_short(run, maxlen, first):
    import nfc.clf.device as device
    D = device.Device
    if first is None:
        msgs = [b'']
    else:
        msgs = (bytes((first,) + t) for k in range(0, maxlen)
                for t in itertools.product(range(256), repeat=k))
    n = 0
    for m in msgs:
        n += 1
        a, b = refcrc.crc_a(m), refcrc.crc_b(m)
        ok = True
        if device.calculate_crc(m, len(m), 0x6363) != a:
            crc_fail(run, 'calculate_crc(0x6363)', m,
                     device.calculate_crc(m, len(m), 0x6363), a, ('cc', m))
            ok = False
        if (~device.calculate_crc(bytearray(m), len(m), 0xFFFF)) & 0xFFFF != b:
            crc_fail(run, 'calculate_crc(0xFFFF)', m, None, b, ('cc', m))
            ok = False
        fa = bytes(D.add_crc_a(bytearray(m)))
        fb = bytes(D.add_crc_b(bytearray(m)))
        if fa != refcrc.append_a(m):
            crc_fail(run, 'add_crc_a', m, fa, refcrc.append_a(m), ('aa', m))
            ok = False
        if fb != refcrc.append_b(m):
            crc_fail(run, 'add_crc_b', m, fb, refcrc.append_b(m), ('ab', m))
            ok = False
        if D.check_crc_a(bytearray(fa)) is not True:
            crc_fail(run, 'check_crc_a(valid)', fa, False, True, ('ca', m))
            ok = False
        if D.check_crc_b(bytearray(fb)) is not True:
            crc_fail(run, 'check_crc_b(valid)', fb, False, True, ('cb', m))
            ok = False
        if ok:
            run.ok(key=None)
    run.ok(key=('short', maxlen, first), n=0)
    run.count('crc_messages', n)
    run.outcome(('short', first))


def work_crc_trailers(run, kind, m):
    import nfc.clf.device as device
    chk = device.Device.check_crc_a if kind == 'a' else device.Device.check_crc_b
    good = refcrc.crc_a(m) if kind == 'a' else refcrc.crc_b(m)
    good = (good & 0xFF, good >> 8)
    buf = bytearray(m) + b'\0\0'
    bad = 0
    for lo in range(256):
        buf[-2] = lo
        for hi in range(256):
            buf[-1] = hi
            r = chk(buf)
            if r != ((lo, hi) == good):
                bad += 1
                crc_fail(run, 'check_crc_%s(trailer)' % kind, bytes(buf), r,
                         (lo, hi) == good, ('t', kind, m, lo, hi))
    run.ok(key=('trailers', kind, m), n=65536 - bad)
    run.count('crc_trailer_checks', 65536)
    run.outcome(('trailers', kind, len(m)))


def flips(nbits, sl=0, S=1, two=True):
    for i in range(sl, nbits, S):
        yield (i,)
    if two:
        for i in range(sl, nbits, S):
            for j in range(i + 1, nbits):
                yield (i, j)


def flip(frame, bits):
    f = bytearray(frame)
    for b in bits:
        f[b >> 3] ^= 1 << (b & 7)
    return bytes(f)


_devs = {}


def crc_device(which):
    """(device, tag) for the driver-side CRC verification paths."""
    d = _devs.get(which)
    if d is None:
        from sim import chipsets
        drv = {'tt2-pn53x': 'pn533', 'tt2-rcs380': 'rcs380',
               'tt1-pn532': 'acr122', 'tt1-pn533': 'pn533'}[which]
        tag = chipsets.Tag('T2' if which.startswith('tt2') else 'T1')
        tag.with_crc = True
        sim = chipsets.Sim(drv, tag=tag)
        clf = sim.clf()
        if which.startswith('tt2'):
            t = clf.sense(chipsets.sense_target('T2'))
            assert t is not None and t.sel_res == b'\x00'
            if drv == 'rcs380':
                # the set-up send_cmd_recv_rsp does before _tt2_...
                sim.device.chipset.in_set_rf('106A')
                sim.device.chipset.in_set_protocol(
                    sim.device.chipset.in_set_protocol_defaults)
                sim.device.chipset.in_set_protocol(
                    add_parity=1, check_parity=1, check_crc=0)
        d = _devs[which] = (sim, tag)
    return d


def work_crc_route(run, sel_values):
    """Type A targets of every SEL_RES value through the complete exchange
    path (sense_tta -> clf.exchange): for targets whose SEL_RES makes the
    driver switch the chip's CRC check off, the driver itself has to verify
    CRC_A; nobody may return a frame with a wrong CRC as data."""
    import nfc.clf
    from sim import chipsets
    msg = bytes(range(0x10, 0x20))
    good = refcrc.append_a(msg)
    for drv in ('pn533', 'pn532', 'rcs380'):
        for v in sel_values:
            if v & 0x04:
                continue        # cascade bit: not a final SEL_RES
            tag = chipsets.Tag('T2')
            tag.sel_res = bytearray([v])
            tag.with_crc = True
            sim = chipsets.Sim(drv, tag=tag)
            clf = sim.clf()
            t = clf.sense(chipsets.sense_target('T2'))
            if t is None or t.sel_res != bytearray([v]):
                raise RuntimeError('crc-route: target not found %r' % t)
            for what, frame in (('valid', good),
                                ('crc-bit', flip(good, (8 * 16 + 3,))),
                                ('data-bit', flip(good, (5,))),
                                ('crc-swapped', good[:-2] + good[:-3:-1])):
                tag.response = frame
                key = ('route', drv, v, what)
                try:
                    res = ('data', bytes(clf.exchange(b'\x30\x04', 0.1)))
                except nfc.clf.CommunicationError as e:
                    res = ('error', type(e).__name__)
                except Exception as e:
                    crc_fail(run, 'route-%s(%s)' % (drv, what), frame,
                             repr(e), 'CommunicationError or data', key, e)
                    continue
                run.outcome(('route', drv, v & 0x60, what, res[0]))
                if what == 'valid':
                    if res[0] != 'data' or msg not in res[1]:
                        crc_fail(run, 'route-%s(valid frame rejected|sel_res&60=%02x)'
                                 % (drv, v & 0x60), frame, res, msg, key)
                    else:
                        run.ok(key=key)
                elif res[0] == 'data':
                    crc_fail(run, 'route-%s(wrong CRC_A accepted|sel_res&60=%02x,'
                             'sel_res%s00)' % (drv, v & 0x60,
                                               '==' if v == 0 else '!='),
                             frame, res[1], 'rejected', key)
                else:
                    run.ok(key=key)
            run.count('crc_route_targets')


def work_crc_route2(run, drv):
    """Two Type A targets one after the other on ONE device object: what the
    driver set up for the first (chip CRC check off, verification in the
    driver) must not leak into the exchange with the second."""
    import nfc.clf
    from sim import chipsets
    msg = bytes(range(0x10, 0x20))
    good = refcrc.append_a(msg)
    vals = (0x00, 0x08, 0x18, 0x20, 0x40, 0x60)
    for v1 in vals:
        for v2 in vals:
            tag = chipsets.Tag('T2')
            tag.with_crc = True
            sim = chipsets.Sim(drv, tag=tag)
            clf = sim.clf()
            ok = True
            for step, v in enumerate((v1, v2)):
                tag.sel_res = bytearray([v])
                t = clf.sense(chipsets.sense_target('T2'))
                if t is None or t.sel_res != bytearray([v]):
                    raise RuntimeError('crc-route2: target not found %r' % t)
                frames = (('valid', good),) if step == 0 else (
                    ('crc-bit', flip(good, (8 * 16 + 3,))),
                    ('data-bit', flip(good, (5,))), ('valid', good))
                for what, frame in frames:
                    tag.response = frame
                    key = ('route2', drv, v1, v2, step, what)
                    try:
                        res = ('data', bytes(clf.exchange(b'\x30\x04', 0.1)))
                    except nfc.clf.CommunicationError as e:
                        res = ('error', type(e).__name__)
                    except Exception as e:
                        crc_fail(run, 'route2-%s(%s)' % (drv, what), frame,
                                 repr(e), 'CommunicationError or data', key,
                                 e)
                        continue
                    run.outcome(('route2', drv, v1 & 0x60, v2 & 0x60, what,
                                 res[0]))
                    if what == 'valid':
                        if res[0] != 'data' or msg not in res[1]:
                            crc_fail(run, 'route2-%s(valid frame rejected|'
                                     'second target)' % drv, frame, res, msg,
                                     key)
                        else:
                            run.ok(key=key)
                    elif res[0] == 'data':
                        crc_fail(run, 'route2-%s(wrong CRC_A accepted|first '
                                 'sel_res&60=%02x,second sel_res&60=%02x)'
                                 % (drv, v1 & 0x60, v2 & 0x60), frame, res[1],
                                 'rejected', key)
                    else:
                        run.ok(key=key)
            run.count('crc_route2_histories')


def work_crc_tx(run, which, code):
    """The CRC the drivers append on transmission (CRC_B for the Type 1 Tag
    commands programmed through the CIU): every frame on the air for message
    M is M || CRC_B(M), in every short history of transmissions of one and
    the same message object (the tag layer hands the same bytearray down
    again when it retries), whatever the tag answered before."""
    import nfc.clf
    import nfc.clf.device as device
    sim, tag = crc_device(which)
    dev = sim.device
    uid = b'\xB2\x56\x54\x00'
    for blk in (0, 1, 8, 15):
        for fill in (0x00, 0xA5, 0xFF):
            m0 = bytes([code, blk]) + bytes([fill]) * 8 + uid
            rsp = bytes([blk]) + bytes(range(8))
            # answers per transmission: a=answer  s=silent  c=corrupted
            for hist in itertools.product('asc', repeat=3):
                obj = bytearray(m0)
                del tag.air_log[:]
                for k, h in enumerate(hist):
                    good = refcrc.append_b(rsp)
                    tag.response = {'a': good, 's': None,
                                    'c': flip(good, (9,))}[h]
                    try:
                        res = ('data', bytes(dev._tt1_send_cmd_recv_rsp(
                            obj, 0.1)))
                    except nfc.clf.CommunicationError as e:
                        res = ('error', type(e).__name__)
                    except Exception as e:
                        crc_fail(run, 'tx-%s' % which, m0, repr(e),
                                 'data or CommunicationError',
                                 ('tx', which, m0, hist, k), e)
                        break
                    sent = tag.air_log[-1] if len(tag.air_log) == k + 1 \
                        else None
                    if sent != refcrc.append_b(m0):
                        crc_fail(run, 'tx-%s(%s frame on the air is not '
                                 'M||CRC_B(M))' % (which, 'first' if k == 0
                                                   else 'repeated'),
                                 m0, sent, refcrc.append_b(m0),
                                 ('tx', which, m0, hist, k))
                        break
                    want = ('data', rsp) if h == 'a' else ('error',)
                    if res[:len(want)] != want:
                        crc_fail(run, 'tx-%s(answer %s at transmission %d)'
                                 % (which, h, min(k, 1)), m0, res, want,
                                 ('tx', which, m0, hist, k))
                        break
                else:
                    run.ok(key=('tx', which, m0, hist))
                run.outcome(('tx', which, code, hist))
    run.count('crc_tx_histories')


def work_crc_flips(run, which, i, sl, S, tier='thorough'):
    import nfc.clf
    import nfc.clf.device as device
    msg = long_frame(i)
    n_ok = n_rej = 0
    if which == 'fn':
        for kind, app, chk in (('a', refcrc.append_a, device.Device.check_crc_a),
                               ('b', refcrc.append_b, device.Device.check_crc_b)):
            fr = app(msg)
            if chk(bytearray(fr)) is not True:
                crc_fail(run, 'check_crc_%s(valid)' % kind, fr, False, True,
                         ('fv', kind, i))
            two = tier == 'thorough' or len(fr) <= 34
            for bits in flips(8 * len(fr), sl, S, two):
                g = flip(fr, bits)
                if chk(bytearray(g)) is not False:
                    crc_fail(run, 'check_crc_%s(%d-bit flip)' % (kind, len(bits)),
                             g, True, False, ('ff', kind, i, bits))
                else:
                    n_rej += 1
        run.ok(key=('flips', which, i, sl), n=n_rej)
        run.count('crc_flip_rejected', n_rej)
        run.outcome(('flips', which, len(msg)))
        return
    sim, tag = crc_device(which)
    dev = sim.device
    tt2 = which.startswith('tt2')
    fr = refcrc.append_a(msg) if tt2 else refcrc.append_b(msg)
    if tt2:
        cmd = bytearray(b'\x30\x04')

        def call():
            return dev._tt2_send_cmd_recv_rsp(cmd, 100 if which.endswith(
                'rcs380') else 0.1)
    else:
        cmd = bytearray(b'\x02\x08' + bytes(8) + b'\xB2\x56\x54\x00')

        def call():
            return dev._tt1_send_cmd_recv_rsp(bytearray(cmd), 0.1)
    # 2-bit flips through the drivers for frames of <= 20 bytes (the
    # functions themselves get all 2-bit flips of all 20 frames above)
    two_bit = which != 'tt1-pn533' and len(fr) <= 20
    cases = itertools.chain([()], flips(8 * len(fr), sl, S, two_bit))
    for bits in cases:
        g = flip(fr, bits)
        tag.response = g
        exc = res = None
        try:
            res = call()
        except nfc.clf.TransmissionError as e:
            exc = e
        except Exception as e:
            exc = e
        key = ('fd', which, i, bits)
        if not bits:
            if exc is not None or bytes(res) != msg:
                crc_fail(run, '%s(valid frame rejected)' % which, fr,
                         repr(exc) if exc is not None else bytes(res),
                         msg, key, exc if not isinstance(
                             exc, nfc.clf.TransmissionError) else None)
            else:
                n_ok += 1
            continue
        if tt2 and len(g) <= 2:
            continue            # the drivers pass ACK/NAK sized answers up
        if isinstance(exc, nfc.clf.TransmissionError):
            n_rej += 1
        elif exc is None:
            crc_fail(run, '%s(%d-bit flip accepted)' % (which, len(bits)), g,
                     bytes(res), 'TransmissionError', key)
        else:
            crc_fail(run, '%s(%d-bit flip)' % (which, len(bits)), g, repr(exc),
                     'TransmissionError', key, exc)
    run.ok(key=('flips', which, i, sl), n=n_rej + n_ok)
    run.count('crc_driver_flip_rejected', n_rej)
    run.outcome(('flips', which, len(msg)))
    if i == 3 and sl == 0:
        run.sample(dict(part='crc', path=which, message=msg, frame=fr,
                        flips_rejected=n_rej))


# ----------------------------------------------------------------------------
def work(args):
    chunk, tier = args
    run = Run(PROP)
    for item in chunk:
        part = item[0]
        if part == 'cmd':
            work_cmd(run, item, tier)
        elif part in ('rsp', 'tty'):
            work_rsp(run, item, tier)
        elif part == 'crc':
            crc_dispatch(run, item)
    return run.export()


def enumerate_items(tier, part):
    items = []
    if part in (None, 'cmd'):
        items += cmd_items(tier)
    if part in (None, 'rsp'):
        items += rsp_items(tier, part)
    if part in (None, 'tty'):
        items += tty_items(tier)
    if part in (None, 'crc'):
        items += crc_items(tier)
    return items


def main(tier='quick', seed=0, part=None):
    run = Run(PROP, tier, seed, level='exploration')
    run.max_samples = 8
    items = enumerate_items(tier, part)
    chunks = par.chunks(par.shuffled(items, seed), 800)
    for res in par.pmap(work, [(c, tier) for c in chunks]):
        run.merge(res)
    run.rule = (
        "finite grids, fully enumerated: (cmd) chipset x command code x "
        "payload length 0..max x 3 contents; (rsp/tty) valid response frame "
        "x mutation (bit flip / truncation / 1-byte extension / insertion / "
        "byte substitution x 255 / wrong TFI / wrong code / checksum-"
        "preserving variants / all value pairs on (DCS,postamble) and "
        "(LEN,LCS) / ACK-NACK-error interleavings; thorough: pairs over "
        "{00,01,7F,80,FF}); (crc) every message up to 2 (quick) / 3 "
        "(thorough) bytes, every 16-bit trailer for the empty and 35 (quick) / "
        "256 (thorough) one-byte messages, every 1-bit and (see bounds) 2-bit "
        "flip of 20 longer frames through check_crc_* and the drivers' own "
        "verification.  distinct = distinct (part, chip, "
        "code, length, content / mutation index) for cmd/rsp/tty and one key "
        "per sweep (message, or frame x slice) for the crc sweeps, whose "
        "individual cases are counted in evaluations only; all cases are "
        "non-trivial (each is a different frame).")
    run.assumptions += [
        "frame validity is what ref/hostframe.py (written from the PN53x "
        "manuals, CCID 1.1, ACR122U API, Port-100 frame format) accepts; for "
        "responses the extended format is accepted for any length and the "
        "CCID header fields bSlot/bSeq/bStatus/bError are not judged",
        "the response oracle is one-directional: accepted implies valid; "
        "rejecting a valid frame with IOError is allowed, except for the "
        "unmutated frame which must be accepted (checked once per frame)",
        "tty part: the frame judged is the head of the byte stream per the "
        "link-layer length field (trailing bytes belong to the next frame)",
        "CRC reference: ISO/IEC 14443-3 Annex B, bitwise, MSB-first "
        "formulation, checked against the Annex B examples at import",
        "RC-S380 responses are outside the statement (only its command "
        "frames are checked)",
    ]
    run.extra['bounds'] = dict(
        tier=tier, part=part or 'all', chips=list(CHIPS),
        cmd_payload_lengths={c: [0, max_payload(c, tier)] for c in CHIPS},
        rcs380_extra_lengths=[509, 510, 511, 512, 1000] + (
            [65533] if tier == 'thorough' else []),
        contents=list(CONTENT_NAMES),
        rsp_payload_lengths=dict(pn53x=list(RSP_LENGTHS),
                                 acr122=list(ACR_LENGTHS)),
        rsp_chips=['pn533', 'acr122'] + (
            ['pn531', 'pn532', 'rcs956', 'arygonB'] if tier == 'thorough'
            else []),
        tty_payload_lengths=list(RSP_LENGTHS) if tier == 'thorough'
        else [0, 2, 254],
        tty_subst='all positions' if tier == 'thorough'
        else 'all positions for n<=2, first 12 bytes for n=254',
        pairs='thorough: all position pairs for frames <= 16 bytes, pairs '
              'with one position in the first 10 / last 3 bytes otherwise; '
              'values {00,01,7F,80,FF}' if tier == 'thorough' else 'none',
        crc_exhaustive_len=3 if tier == 'thorough' else 2,
        crc_trailers='all 65536 trailers x {A,B} x (empty message + %d '
                     'one-byte messages)' % len(trailer_bytes(tier)),
        crc_flip_frames=20,
        crc_flips='check_crc_a/b: all 1-bit flips of 20 frames of 1..64 '
                  'bytes, all 2-bit flips of ' + (
                      'all of them' if tier == 'thorough' else
                      'the 18 frames of <= 32 bytes') + '; driver paths (tt2 pn53x, tt2 rcs380, tt1 '
                  'pn532): all 1-bit flips of the 20 frames, all 2-bit flips '
                  'of those <= 20 bytes; tt1 pn533: 1-bit flips of every '
                  '%s frame' % ('2nd' if tier == 'thorough' else '5th'),
        work_items=len(items))
    return run.finish(exhaustive=True)


# ----------------------------------------------------------------------------
def replay(doc):
    d = doc['detail']
    run = Run(PROP)
    part = d['part']
    if part == 'cmd':
        chip, code = d['chip'], d['code']
        payload = bytes.fromhex(d['payload'])
        tr = Echo(family(chip))
        cs = make_chipset(chip, tr)
        try:
            v = run_cmd_case(chip, cs, tr, code, payload)
        except Exception as e:
            v = ('exception', repr(e))
        print('cmd %s code=%02X len=%d ->' % (chip, code, len(payload)), v)
        return 1 if v else 0
    if part in ('rsp', 'tty'):
        h = RspHarness(d['chip'], 'tty' if part == 'tty' else 'usb')
        seq = []
        for x in d['script']:
            if x.startswith('!'):
                seq.append(IOError(int(x.split(':')[1]), 'injected'))
            else:
                seq.append(bytes.fromhex(x))
        rsp_case(h, run, d['code'], d['mutation'], seq, 'replay',
                 stream=part == 'tty')
        for sig, f in run.failures.items():
            print('VIOLATION', sig, f.detail['verdict'], f.detail['observed'])
        if not run.failures:
            print('ok')
        return 1 if run.failures else 0
    if part == 'crc':
        import nfc.clf.device as device
        data = bytes.fromhex(d['data'])
        print('data', data.hex(), 'ref crc_a %04X crc_b %04X' % (
            refcrc.crc_a(data), refcrc.crc_b(data)))
        print('calculate_crc(0x6363) %04X' % device.calculate_crc(
            data, len(data), 0x6363))
        print('check_crc_a', device.Device.check_crc_a(bytearray(data)) if len(
            data) >= 2 else None, 'ref', refcrc.valid_a(data))
        print('check_crc_b', device.Device.check_crc_b(bytearray(data)) if len(
            data) >= 2 else None, 'ref', refcrc.valid_b(data))
        print('recorded:', d['what'], 'observed', d['observed'], 'expected',
              d['expected'])
        if d.get('item'):
            crc_dispatch(run, _unjson(d['item']))
            again = doc['signature'] in run.failures
            print('work item %r: %s' % (d['item'][:3], 'VIOLATION again' if
                                        again else 'no violation'))
            return 1 if again else 0
        return 1
    return 2
