"""C10 - Nothing sent on an LLCP link exceeds the peer's announced MIU.

Explicit-state BFS (mc.bfs) over two real LogicalLinkControllers joined by
the pair MAC (sim.llcpump): the sender A (recv MIU 2175, aggregation on/off)
and the receiver B whose announced Link MIU M is the parameter.  A history of
operations fills A's send queues in every combination; in every distinct
state the link is pumped on a copy until A is drained and *every frame A's
real collect() returns* is encoded, measured, decoded and dispatched at B.

Oracle, per frame (exactly the statement):
  1. information field = encoded length - 2 (an I PDU: - 3)  <=  M;
  2. every I / UI payload (also inside an aggregate) <= the MIU of its
     receiver (UI: B's Link MIU; I: the connection MIU B announced);
  3. len(pdu) == len(pdu.encode()) for the frame and every aggregated PDU
     (len() is what collect() budgets with);
  4. aggregation is transparent: the leaf PDUs B's dispatch() is called with
     are the PDUs A collected, same number, same order, field-wise equal.
Raw access point sockets are excepted by the statement; A has none.

Two families of searches:
  * 'full' / 'core' alphabets from the initial state (two established
    connections, nothing queued), sizes {0,1,X-delta,X+1};
  * 'deep': the same BFS started from *prepared non-initial states* (class
    DeepSpec, table PREPS) that are built with the real calls: an accepted /
    a connected data link connection that owes an acknowledgement (necessary
    or voluntary, read / unread I PDUs, RW(local) 1 and 2), receiver-busy
    toggled (RNR / RR owed), DM PDUs pending in the three places the library
    keeps them, service discovery answers / requests pending - always on a
    service access point *above* the ones that carry data - and an alphabet
    whose sizes are chosen relative to the room that the PDUs already queued
    leave in one aggregated frame (room 0..5 octets after the next PDU).
"""
import errno

from mc import bfs, par
from mc.evidence import Run, sig_exc
from sim import llcpump as lp

PROP = 'C10'

MIUS = (128, 129, 130, 131, 132, 133, 135, 248, 1024, 2175)
SNL_COUNTS = (1, 2, 31, 32, 33, 34, 40, 64)
SITE = 'nfc.llcp.llc.LogicalLinkController.collect'
SD_SITE = 'nfc.llcp.llc.ServiceDiscovery.dequeue'


class World(object):
    pass


def payload(n, tag):
    return bytes((tag + 7 * i) & 0xFF for i in range(n))


def name_of_len(n):
    if n < 12:
        return b'x' * n
    return b'urn:nfc:sn:' + b'n' * (n - 11)


class Spec(object):
    """cfg = (M, agf, delta, alphabet-name)"""
    skip = ()

    FRESH_EVERY = 50

    def __init__(self, cfg):
        self.cfg = cfg
        self.M, self.agf, self.delta, self.alpha = cfg
        self._pristine = None
        self._pristine_dg = None
        self._inits = 0
        self.fresh_inits = 0

    def init(self):
        """The initial world.  Building it takes two threaded connection
        set-ups (a few ms), so most calls return a deep copy of a pristine
        world that is never handed out itself; every FRESH_EVERY-th call
        builds a really fresh one and checks that it still has the dump of
        the pristine copy (nothing outside the world was polluted)."""
        import copy
        self._inits += 1
        if self._pristine is None:
            self._pristine = self.build()
            self._pristine_dg = bfs.state_digest(self, self._pristine)
        if self._inits % self.FRESH_EVERY == 1:
            w = self.build()
            self.fresh_inits += 1
            if bfs.state_digest(self, w) != self._pristine_dg or \
                    bfs.state_digest(self, self._pristine) != self._pristine_dg:
                raise bfs.Unsound("fresh initial world differs from pristine")
            return w
        return bfs.snapshot(self._pristine)

    # -- initial state: real activation, two real connections ----------------
    def build(self):
        import nfc.llcp
        import nfc.llcp.llc as llc
        K = lp.classes()
        M = self.M
        A, B = lp.make_pair(dict(miu=2175, agf=self.agf, sec=False),
                            dict(miu=M, agf=True, sec=False),
                            b_cls=K['RecordingLLC'])
        assert A.cfg['send-miu'] == M and A.sec is None
        w = World()
        w.A, w.B = A, B
        w.dead = False
        w.lb = B.socket(llc.LOGICAL_DATA_LINK)
        B.setsockopt(w.lb, nfc.llcp.SO_RCVBUF, 15)
        B.bind(w.lb)                                   # 32 at B
        w.rb = B.socket(llc.RAW_ACCESS_POINT)
        B.bind(w.rb, 40)                               # injects SNL/CONNECT
        w.bl, w.bc, w.c = [], [], []
        # listener 1: connection MIU 128 (default), RW 2
        # listener 2: connection MIU M (the largest B may announce), RW 1
        for i, (miu, rw) in enumerate(((None, 2), (M, 1))):
            ls = B.socket(llc.DATA_LINK_CONNECTION)
            if miu is not None:
                B.setsockopt(ls, nfc.llcp.SO_RCVMIU, miu)
            B.setsockopt(ls, nfc.llcp.SO_RCVBUF, rw)
            B.bind(ls, 'urn:nfc:sn:c%d' % (i + 1))     # 16, 17 at B
            B.listen(ls, 1)
            w.bl.append(ls)
        w.la = A.socket(llc.LOGICAL_DATA_LINK)
        A.bind(w.la)                                   # 32 at A
        self.build_more(w)                             # (deep: SAP 33)
        for i, dest in enumerate((16, 'urn:nfc:sn:c2')):
            cs = A.socket(llc.DATA_LINK_CONNECTION)
            A.setsockopt(cs, nfc.llcp.SO_RCVBUF, 2 - i)
            acc = []

            def hook(ls=w.bl[i], acc=acc):
                if len(ls.recv_queue):
                    acc.append(B.accept(ls))
            out = lp.run_blocking(lambda: A.connect(cs, dest), A, B,
                                  after_round=hook)
            if not out.done or out.exc is not None or len(acc) != 1:
                raise RuntimeError("C10 set-up: connect failed %r %r"
                                   % (out.exc, out.done))
            w.c.append(cs)
            w.bc.append(acc[0])
        self.build_done(w)
        w.m = [s.recv_miu for s in w.bc]               # connection MIUs of B
        assert w.m[:2] == [128, M], w.m
        assert [s.send_miu for s in w.c] == w.m
        assert lp.quiesce(A, B) is not None
        self.prepare(w)
        return w

    def build_more(self, w):
        pass

    def build_done(self, w):
        pass

    def prepare(self, w):
        pass

    # -- alphabet -----------------------------------------------------------------
    def sizes(self, top):
        """Boundary sizes; top + 1 must be refused by send()/sendto()."""
        return sorted(set(s for s in (0, 1, top - self.delta, top + 1)
                          if s >= 0))

    def name_lens(self):
        M = self.M
        out = set([1, 20, 254, 255])
        for n in (M - 4, M - 3, M - 2):
            if n <= 254:
                out.add(n)
        return sorted(out)

    def actions(self, w):
        if w.dead:
            return []
        core = self.alpha == 'core'
        M = self.M
        acts = []
        for s in (self.sizes(M) if not core else [1, M - self.delta, M + 1]):
            acts.append(('sendto', s))
        for i in (0, 1):
            if not w.c[i].state.ESTABLISHED:
                continue
            for s in (self.sizes(w.m[i]) if not core
                      else [1, w.m[i] - self.delta, w.m[i] + 1]):
                acts.append(('send', i, s))
            if not core or i == 0:
                acts.append(('rx', i))
                acts.append(('busy', i))
                acts.append(('close', i))
        if core:
            acts += [('resolve', min(M - 3, 254)), ('snl_in', 1),
                     ('snl_in', 33), ('snl_in', 34)]
        else:
            acts += [('resolve', n) for n in self.name_lens()]
            acts += [('snl_in', n) for n in SNL_COUNTS]
        acts += [('connect_in', 'nolisten'), ('connect_in', 'noname'),
                 ('xchg',)]
        return acts

    # -- transitions -----------------------------------------------------------
    def apply(self, w, a):
        import nfc.llcp
        import nfc.llcp.pdu as pdu
        A, B = w.A, w.B
        DW = nfc.llcp.MSG_DONTWAIT
        viol = []
        obs = Observer(self, w, viol)
        kind = a[0]
        try:
            if kind == 'sendto':
                A.sendto(w.la, payload(a[1], a[1]), w.lb.addr, DW)
            elif kind == 'send':
                A.send(w.c[a[1]], payload(a[2], a[2]), DW)
            elif kind == 'resolve':
                st = lp.seq_call(lambda: A.resolve(name_of_len(a[1])))
                assert st[0] in ('blocked', 'ok'), st
            elif kind == 'snl_in':
                req = [(i, b'urn:nfc:sn:u%03d' % i) for i in range(a[1])]
                B.sendto(w.rb, pdu.ServiceNameLookup(1, 1, sdreq=req), None, DW)
                fr = lp.xfer(B, A)
                assert fr is not None and fr.error is None
            elif kind == 'connect_in':
                if a[1] == 'nolisten':
                    p = pdu.Connect(w.la.addr, 41)
                else:
                    p = pdu.Connect(1, 42, sn=b'urn:nfc:sn:none')
                B.sendto(w.rb, p, None, DW)
                fr = lp.xfer(B, A)
                assert fr is not None and fr.error is None
            elif kind == 'rx':
                i = a[1]
                if w.bc[i].state.ESTABLISHED:
                    try:
                        B.send(w.bc[i], payload(3, 3), DW)
                    except nfc.llcp.Error as e:
                        if e.errno != errno.EWOULDBLOCK:
                            raise
                    lp.xfer(B, A)
                    if len(w.c[i].recv_queue) and \
                            w.c[i].recv_queue[0].name == 'I':
                        A.recv(w.c[i])
            elif kind == 'rd':
                A.recv(w.c[a[1]])          # enabled only with an I PDU queued
            elif kind == 'busy':
                s = w.c[a[1]]
                A.setsockopt(s, nfc.llcp.SO_RCVBSY,
                             not A.getsockopt(s, nfc.llcp.SO_RCVBSY))
            elif kind == 'close':
                st = lp.seq_call(lambda: A.close(w.c[a[1]]))
                assert st[0] == 'blocked', st     # DISC queued, DM awaited
            elif kind == 'xchg':
                self.round(w, obs)
            else:
                raise ValueError(a)
        except nfc.llcp.Error as e:
            # EWOULDBLOCK (send window full), EMSGSIZE: refused, no change
            if e.errno not in (errno.EWOULDBLOCK, errno.EMSGSIZE,
                               errno.ENOTCONN, errno.EPIPE):
                raise
        return viol

    def round(self, w, obs):
        """One link round: A -> B, B's applications receive, B -> A."""
        f = lp.xfer(w.A, w.B, obs)
        if f is not None and f.error is not None:
            w.dead = True              # the real run loop ends the link here
            return f, None
        self.b_apps(w)
        g = lp.xfer(w.B, w.A)
        return f, g

    def b_apps(self, w):
        B = w.B
        while len(w.lb.recv_queue):
            B.recvfrom(w.lb)
        for s in w.bc:
            while (s.state.ESTABLISHED or s.state.CLOSE_WAIT) \
                    and len(s.recv_queue):
                B.recv(s)

    # -- the per-state evaluation: pump a copy until A is drained ---------------
    def check_state(self, w, trace=None):
        if w.dead:
            return []
        w = bfs.snapshot(w)
        viol = []
        obs = Observer(self, w, viol, trace)
        prev, prev_dg = None, None
        for r in range(80):
            f, g = self.round(w, obs)
            if w.dead:
                break
            if f is None and g is None:
                break
            # a sender that repeats itself without changing state is drained
            # as far as it ever will be (an SDREQ that never fits the MIU
            # makes ServiceDiscovery.dequeue return an empty SNL every time)
            pair = (f.octets if f else None, g.octets if g else None)
            if pair == prev:
                dg = bfs.state_digest(self, w)
                if dg == prev_dg:
                    obs.count('drain_ended_on_repeating_frame')
                    break
                prev_dg = dg
            prev = pair
        else:
            viol.append(('C10|drain|A not drained after 80 rounds',
                         dict(cfg=self.cfg)))
        return viol


# -- prepared non-initial states ------------------------------------------------
# Sockets of the deep world at A: la = SAP 32 (logical data link), SAP 33 =
# listening socket + the connection accepted on it (index ACC), SAP 34 = c[0]
# (index C0, connected by address, RW(local) 2, connection MIU 128), SAP 35 =
# c[1] (index C1, connected by name, RW(local) 1, connection MIU M).
C0, C1, ACC = 0, 1, 2
ROOMS = (0, 1, 2, 3, 4, 5)

# (name, RW(local) of the accepted connection, preparation steps).  Steps:
#   ('rx', i, n, k)  the peer sends n I PDUs on connection i, the application
#                    at A reads k of them
#   ('busy', i)      setsockopt(SO_RCVBSY) toggled on connection i
#   ('round',)       one link round (A -> B, B's applications, B -> A)
#   ('sock36',)      a data link connection socket bound to SAP 36, never
#                    connected
#   ('pdu_in', x)    'dm35': CONNECT from an unknown SSAP to SAP 35 (DM in the
#                    service access point's own send list, not size tested);
#                    'dm36': RR to the closed socket on SAP 36 (DM in the
#                    socket's send queue);
#                    'backlog33': two CONNECT to SAP 33 (one in the backlog, DM
#                    for the second in the listening socket's send queue);
#                    'noname': CONNECT by unknown name (DM at SAP 1)
#   ('snl_in', n)    SNL with n requests received (n answers pending)
#   ('resolve', n)   resolve() of a name of n octets pending ('M-2': a request
#                    that can never be sent)
#   ('connect_out', rw, miu, dest)  connect() of a new socket with receive
#                    window rw / receive MIU miu to dest pending (CONNECT in
#                    the socket's send queue)
PREPS = (
    ('base', 1, ()),
    # (a) acknowledgement owed / I PDUs not yet read
    ('acc1.read', 1, (('rx', ACC, 1, 1),)),
    ('acc1.unread', 1, (('rx', ACC, 1, 0),)),
    ('acc2.read1of1', 2, (('rx', ACC, 1, 1),)),
    ('acc2.read2of2', 2, (('rx', ACC, 2, 2),)),
    ('acc2.read1of2', 2, (('rx', ACC, 2, 1),)),
    ('acc2.unread2', 2, (('rx', ACC, 2, 0),)),
    ('dyn1.read', 1, (('rx', C1, 1, 1),)),
    ('dyn1.unread', 1, (('rx', C1, 1, 0),)),
    ('dyn2.read2of2', 1, (('rx', C0, 2, 2),)),
    # (b) receiver busy toggled
    ('acc1.busy', 1, (('busy', ACC),)),
    ('acc1.read+busy', 1, (('rx', ACC, 1, 1), ('busy', ACC))),
    ('acc1.unbusy', 1, (('busy', ACC), ('round',), ('busy', ACC))),
    ('dyn1.busy', 1, (('busy', C1),)),
    ('dyn2.read1of1', 1, (('rx', C0, 1, 1),)),
    ('acc2.read1of1+dyn2.read1of1', 2, (('rx', ACC, 1, 1), ('rx', C0, 1, 1))),
    # (c) DM pending
    ('dm.sap35', 1, (('pdu_in', 'dm35'),)),
    ('dm.closed36', 1, (('sock36',), ('pdu_in', 'dm36'))),
    ('dm.backlog33', 1, (('pdu_in', 'backlog33'),)),
    ('dm.noname', 1, (('pdu_in', 'noname'),)),
    # (d) service discovery answers / requests pending
    ('sd.res1', 1, (('snl_in', 1),)),
    ('sd.res33', 1, (('snl_in', 33),)),
    ('sd.req20', 1, (('resolve', 20),)),
    ('sd.reqlong', 1, (('resolve', 'M-2'),)),
    ('sd.res1+req20', 1, (('snl_in', 1), ('resolve', 20))),
    # two lookups pending whose requests fit into one SNL exactly / not quite
    ('sd.req2.fit', 1, (('resolve', ('pair', 0, 0)),
                        ('resolve', ('pair', 1, 0)))),
    ('sd.req2.over1', 1, (('resolve', ('pair', 0, 1)),
                          ('resolve', ('pair', 1, 1)))),
    ('sd.req2.over2', 1, (('resolve', ('pair', 0, 2)),
                          ('resolve', ('pair', 1, 2)))),
    # (e) a connection just accepted: CC pending, receive window 0 / 1 / 2
    ('cc.pending.rw0', 0, (('pdu_in', 'connect33'), ('accept',))),
    ('cc.pending.rw1', 1, (('pdu_in', 'connect33'), ('accept',))),
    ('cc.pending.rw2', 2, (('pdu_in', 'connect33'), ('accept',))),
    ('cc.pending.rw0+dm.sap35', 0, (('pdu_in', 'connect33'), ('accept',),
                                    ('pdu_in', 'dm35'))),
    # (f) an outgoing connect() pending: CONNECT queued with RW(local) 0 / 1 /
    # 2, by address (no SN TLV), by name (SN TLV), with / without MIUX TLV
    ('conn.out.rw0', 1, (('connect_out', 0, None, 16),)),
    ('conn.out.rw1', 1, (('connect_out', 1, None, 16),)),
    ('conn.out.rw2.miux', 1, (('connect_out', 2, 1024, 16),)),
    ('conn.out.rw0.name', 1, (('connect_out', 0, None, b'urn:nfc:sn:none'),)),
    ('conn.out.rw0.miux.name', 1, (('connect_out', 0, 1024,
                                    b'urn:nfc:sn:c1'),)),
    ('conn.out.rw0+acc1.read', 1, (('connect_out', 0, None, 16),
                                   ('rx', ACC, 1, 1))),
    # (g) two / three connections accepted on ONE service access point (33),
    # each owing a voluntary acknowledgement (index 3, 4 = the further ones)
    ('sap33x2.read', 2, (('accept2',), ('rx', ACC, 1, 1), ('rx', 3, 1, 1))),
    ('sap33x3.read', 2, (('accept2',), ('accept2',), ('rx', ACC, 1, 1),
                         ('rx', 3, 1, 1), ('rx', 4, 1, 1))),
    ('sap33x2.read+dyn2.read1of1', 2, (('accept2',), ('rx', ACC, 1, 1),
                                       ('rx', 3, 1, 1), ('rx', C0, 1, 1))),
    # combinations
    ('acc1.read+dyn1.read', 1, (('rx', ACC, 1, 1), ('rx', C1, 1, 1))),
    ('acc1.read+dm.sap35', 1, (('rx', ACC, 1, 1), ('pdu_in', 'dm35'))),
    ('dyn1.read+sd.reqlong', 1, (('rx', C1, 1, 1), ('resolve', 'M-2'))),
    ('dyn1.busy+sd.res1', 1, (('busy', C1), ('snl_in', 1))),
)
PREP = dict((name, (rw, steps)) for name, rw, steps in PREPS)


class DeepSpec(Spec):
    """cfg = (M, agf, prepared-state-name, 'deep')"""

    DATA_DLCS = (ACC, C0)

    def __init__(self, cfg):
        Spec.__init__(self, (cfg[0], cfg[1], None, cfg[3]))
        self.cfg = tuple(cfg)
        self.prep = cfg[2]
        self.acc_rw, self.steps = PREP[self.prep]

    # -- the world: the basic one plus a listening socket on SAP 33 -----------
    def build_more(self, w):
        import nfc.llcp
        import nfc.llcp.llc as llc
        A, B = w.A, w.B
        w.als = A.socket(llc.DATA_LINK_CONNECTION)
        A.setsockopt(w.als, nfc.llcp.SO_RCVBUF, self.acc_rw)
        A.bind(w.als, 33)
        A.listen(w.als, 1)
        w.bcl = B.socket(llc.DATA_LINK_CONNECTION)
        B.setsockopt(w.bcl, nfc.llcp.SO_RCVMIU, self.M)
        B.setsockopt(w.bcl, nfc.llcp.SO_RCVBUF, 2)
        acc = []

        def hook():
            if len(w.als.recv_queue):
                acc.append(A.accept(w.als))
        out = lp.run_blocking(lambda: B.connect(w.bcl, 33), B, A,
                              after_round=hook)
        if not out.done or out.exc is not None or len(acc) != 1:
            raise RuntimeError("C10 set-up: accept failed %r %r"
                               % (out.exc, out.done))
        w.acc = acc[0]
        w.x36 = None
        w.xs = []

    def build_done(self, w):
        w.c.append(w.acc)
        w.bc.append(w.bcl)
        assert [s.addr for s in [w.la] + w.c] == [32, 34, 35, 33]
        assert [s.recv_win for s in w.c] == [2, 1, self.acc_rw]
        assert [s.send_win for s in w.c] == [2, 1, 2]

    def prepare(self, w):
        for st in self.steps:
            self.prep_step(w, st)

    def prep_step(self, w, st):
        import nfc.llcp
        import nfc.llcp.pdu as pdu
        A, B = w.A, w.B
        DW = nfc.llcp.MSG_DONTWAIT
        kind = st[0]
        if kind == 'rx':
            i, n, k = st[1:]
            for j in range(n):
                B.send(w.bc[i], payload(3, 3 + j), DW)
                fr = lp.xfer(B, A)
                assert fr is not None and fr.error is None \
                    and fr.sent.name == 'I', fr and fr.sent
            assert [p.name for p in w.c[i].recv_queue] == ['I'] * n
            for j in range(k):
                assert A.recv(w.c[i]) == payload(3, 3 + j)
        elif kind == 'accept2':
            # one more connection from B to the listening socket on SAP 33
            import nfc.llcp.llc as llc
            bs = B.socket(llc.DATA_LINK_CONNECTION)
            B.setsockopt(bs, nfc.llcp.SO_RCVMIU, self.M)
            B.setsockopt(bs, nfc.llcp.SO_RCVBUF, 2)
            acc = []

            def hook():
                if len(w.als.recv_queue):
                    acc.append(A.accept(w.als))
            out = lp.run_blocking(lambda: B.connect(bs, 33), B, A,
                                  after_round=hook)
            assert out.done and out.exc is None and len(acc) == 1, out.exc
            assert acc[0].addr == 33 and acc[0].recv_win == self.acc_rw
            w.c = w.c + [acc[0]]
            w.bc = w.bc + [bs]
            w.m = w.m + [bs.recv_miu]
            assert lp.quiesce(A, B) is not None
        elif kind == 'busy':
            s = w.c[st[1]]
            A.setsockopt(s, nfc.llcp.SO_RCVBSY,
                         not A.getsockopt(s, nfc.llcp.SO_RCVBSY))
        elif kind == 'round':
            viol = []
            self.round(w, Observer(self, w, viol))
            assert not viol and not w.dead, viol
        elif kind == 'sock36':
            import nfc.llcp.llc as llc
            w.x36 = A.socket(llc.DATA_LINK_CONNECTION)
            A.bind(w.x36, 36)
        elif kind == 'pdu_in':
            if st[1] == 'dm35':
                pdus = [pdu.Connect(35, 41)]
            elif st[1] == 'dm36':
                pdus = [pdu.ReceiveReady(36, 41, 0)]
            elif st[1] == 'backlog33':
                pdus = [pdu.Connect(33, 41), pdu.Connect(33, 42)]
            elif st[1] == 'connect33':
                pdus = [pdu.Connect(33, 43)]
            else:
                pdus = [pdu.Connect(1, 42, sn=b'urn:nfc:sn:none')]
            for p in pdus:
                B.sendto(w.rb, p, None, DW)
                fr = lp.xfer(B, A)
                assert fr is not None and fr.error is None
            if st[1] == 'dm35':
                assert [p.name for p in A.sap[35].send_list] == ['DM']
            elif st[1] == 'dm36':
                assert [p.name for p in w.x36.send_queue] == ['DM']
            elif st[1] == 'backlog33':
                assert [p.name for p in w.als.recv_queue] == ['CONNECT']
                assert [p.name for p in w.als.send_queue] == ['DM']
            elif st[1] == 'connect33':
                assert [p.name for p in w.als.recv_queue] == ['CONNECT']
            else:
                assert [p.name for p in A.sap[1].dmpdu] == ['DM']
        elif kind == 'accept':
            w.accepted = getattr(w, 'accepted', []) + [A.accept(w.als)]
            assert [p.name for p in w.als.send_queue] == ['CC']
            assert w.als.send_queue[0].rw == self.acc_rw
        elif kind == 'snl_in':
            req = [(i, b'urn:nfc:sn:u%03d' % i) for i in range(st[1])]
            B.sendto(w.rb, pdu.ServiceNameLookup(1, 1, sdreq=req), None, DW)
            fr = lp.xfer(B, A)
            assert fr is not None and fr.error is None
            assert len(A.sap[1].sdres) == st[1]
        elif kind == 'connect_out':
            import nfc.llcp.llc as llc
            rw, miu, dest = st[1:]
            s = A.socket(llc.DATA_LINK_CONNECTION)
            A.setsockopt(s, nfc.llcp.SO_RCVBUF, rw)
            if miu is not None:
                A.setsockopt(s, nfc.llcp.SO_RCVMIU, miu)
            r = lp.seq_call(lambda: A.connect(s, dest))
            assert r[0] == 'blocked', r
            assert [p.name for p in s.send_queue] == ['CONNECT']
            assert s.send_queue[0].rw == rw, s.send_queue[0].rw
            w.xs = w.xs + [s]
        elif kind == 'resolve':
            n = self.M - 2 if st[1] == 'M-2' else st[1]
            if isinstance(n, tuple):
                # ('pair', i, d): the i-th of two names whose SDREQ TLVs
                # (3 + length each) take M + d octets together
                total = self.M + n[2] - 6
                la = total // 2 - 1
                n = (la, total - la)[n[1]]
            r = lp.seq_call(lambda: A.resolve(name_of_len(n)))
            assert r[0] == 'blocked', r
        else:
            raise ValueError(st)

    # -- alphabet: sizes relative to the room left in an aggregated frame -----
    def queued(self, w):
        """Octets the PDUs waiting in A's socket send queues would take in
        one aggregated frame (2 octets length prefix + PDU each)."""
        t = 0
        for s in [w.la, w.als] + w.c + ([w.x36] if w.x36 else []) + w.xs:
            for p in s.send_queue:
                t += 2 + len(p)
        return t

    def fit_sizes(self, t, hdr, top):
        """Payload sizes for the next UI (hdr 2) / I (hdr 3) PDU: with t
        octets already queued the PDU leaves room r in ROOMS in an aggregate
        of everything queued (t = 0: the PDU is the first one); plus an
        empty payload, and for an empty sender two fillers and the largest
        legal payload."""
        out = set([0])
        if t == 0:
            out.update([1, self.M // 2 - 4, top])
        for r in ROOMS:
            out.add(self.M - t - 2 - hdr - r)
        return sorted(x for x in out if 0 <= x <= top)

    def actions(self, w):
        if w.dead:
            return []
        t = self.queued(w)
        acts = [('sendto', x) for x in self.fit_sizes(t, 2, self.M)]
        for i in self.DATA_DLCS:
            if w.c[i].state.ESTABLISHED:
                acts += [('send', i, x)
                         for x in self.fit_sizes(t, 3, w.m[i])]
        for i in (C0, C1, ACC):
            q = w.c[i].recv_queue
            if w.c[i].state.ESTABLISHED and len(q) and q[0].name == 'I':
                acts.append(('rd', i))
        acts.append(('xchg',))
        return acts


def make_spec(cfg):
    return DeepSpec(cfg) if cfg[3] == 'deep' else Spec(cfg)


def fields(p):
    """Field-wise view of a PDU for the transparency comparison."""
    def norm(v):
        if isinstance(v, (bytes, bytearray, memoryview)):
            return bytes(v)
        if isinstance(v, (list, tuple)):
            return tuple(norm(x) for x in v)
        return v
    return (type(p).__name__,) + tuple(
        (k, norm(v)) for k, v in sorted(vars(p).items()))


def describe(p):
    s = p.name
    if p.name == 'SNL':
        s += '(sdres=%d,sdreq=%d)' % (len(p.sdres), len(p.sdreq))
    elif p.name in ('I', 'UI'):
        s += '(%d)' % len(p.data)
    return s


class Observer(object):
    """Oracle for every frame A sends (called by sim.llcpump.xfer)."""

    def __init__(self, spec, w, viol, trace=None):
        self.spec, self.w, self.viol, self.trace = spec, w, viol, trace
        self.stats = spec.stats if hasattr(spec, 'stats') else None
        self.prev = None       # (room, kind of last PDU) of the frame before

    def count(self, k):
        if self.stats is not None:
            self.stats[k] = self.stats.get(k, 0) + 1

    def __call__(self, src, dst, fr):
        w, spec = self.w, self.spec
        if src is not w.A:
            return
        M = spec.M
        sent = fr.sent
        if fr.error is not None:
            # nothing was transmitted; not a C10 matter (recorded only)
            self.count('obs_unencodable_%s_%s' % (
                sent.name, type(fr.error).__name__))
            if self.trace is not None:
                self.trace.append(dict(frame=str(sent)[:120],
                                       error=repr(fr.error)))
            return
        leaves = fr.leaves_sent()
        info = len(fr.octets) - (3 if sent.name == 'I' else 2)
        self.count('frames')
        self.count('frames_agf' if sent.name == 'AGF' else 'frames_single')
        if info == M:
            self.count('frames_info_eq_miu')
        # how often the boundary the prepared states aim at was met (no
        # verdict depends on these)
        kinds = [self.kind(p) for p in leaves]
        unsized = ('RR', 'RNR', 'DM', 'SNL-empty')
        if kinds[0] in unsized and self.prev is not None and \
                self.prev[1] in ('UI', 'I') and 1 <= self.prev[0] <= 4:
            self.count('ack_or_dm_left_for_next_frame_room_1_4')
        self.prev = (M - info, kinds[-1]) if sent.name == 'AGF' else None
        if sent.name == 'AGF' and M - info <= 5:
            self.count('agf_room_le5')
            data = [k for k, x in enumerate(kinds) if x in ('UI', 'I')]
            if data and any(x in unsized for x in kinds[data[0] + 1:]):
                self.count('agf_room_le5_ack_or_dm_after_data')
        if self.trace is not None:
            self.trace.append(dict(
                frame=[describe(p) for p in leaves], agf=sent.name == 'AGF',
                info=info, miu=M, octets=fr.octets.hex()
                if len(fr.octets) <= 300 else fr.octets[:300].hex() + '...'))
        base = dict(cfg=spec.cfg, miu=M, info_field=info,
                    frame=[describe(p) for p in leaves],
                    aggregated=sent.name == 'AGF')
        # 1. information field of the frame
        if info > M:
            self.count('viol_frame')
            if sent.name != 'AGF':
                cls = 'single|%s' % self.kind(sent)
            else:
                # the first aggregated PDU with which the frame is too large
                # (a first PDU that is already too large once wrapped makes
                # the first *added* PDU the culprit: budget < 0)
                size, culprit, budget = 2, None, None
                for k, p in enumerate(leaves):
                    budget = M - size - 3       # what collect() had left
                    size += 2 + len(p.encode())
                    if k >= 1 and size - 2 > M:
                        culprit = (k, p)
                        break
                k, p = culprit
                cls = 'agf|added=%s|budget%s' % (
                    self.kind(p), '<0' if budget < 0 else '>=0')
            # call site: the SDRES batch loop, or the aggregation loop
            site = SD_SITE if cls.endswith('SNL+sdres') or \
                cls.endswith('SNL+sdres|budget>=0') else SITE
            self.viol.append((
                'C10|frame>linkMIU|%s|%s' % (cls, site),
                dict(base, over_by=info - M)))
        # 2. payloads against the receiver's MIU
        for p in leaves:
            if p.name == 'UI':
                lim = w.B.cfg['recv-miu']
            elif p.name == 'I':
                lim = None
                sap = w.B.sap[p.dsap]
                for s in (sap.sock_list if sap is not None and
                          hasattr(sap, 'sock_list') else ()):
                    if s.peer == p.ssap and hasattr(s, 'recv_win'):
                        lim = s.recv_miu
            else:
                continue
            self.count('payloads')
            if lim is not None and len(p.data) == lim:
                self.count('payload_eq_miu')
            if lim is not None and len(p.data) > lim:
                self.viol.append((
                    'C10|payload>MIU|%s|%s' % (p.name, SITE),
                    dict(base, payload=len(p.data), receiver_miu=lim)))
        # 3. len() used for budgeting equals the encoded length
        for p in [sent] + (leaves if sent.name == 'AGF' else []):
            if len(p) != len(p.encode()):
                self.viol.append((
                    'C10|len!=encoded|%s|nfc.llcp.pdu.%s.__len__' % (
                        p.name, type(p).__name__),
                    dict(base, pdu=str(p)[:200], len=len(p),
                         encoded=len(p.encode()))))
        # 4. transparency
        got = fr.dispatched
        if [fields(p) for p in got] != [fields(p) for p in leaves]:
            self.count('viol_transparency')
            self.viol.append((
                'C10|aggregation-not-transparent|%s|'
                'nfc.llcp.llc.LogicalLinkController.dispatch'
                % ('agf' if sent.name == 'AGF' else 'single'),
                dict(base, collected=[str(p)[:100] for p in leaves],
                     dispatched=[str(p)[:100] for p in got])))
        elif sent.name == 'AGF':
            self.count('agf_transparent_ok')

    @staticmethod
    def kind(p):
        if p.name == 'SNL':
            if p.sdres:
                return 'SNL+sdres'
            return 'SNL+sdreq' if p.sdreq else 'SNL-empty'
        return p.name


# -- enumeration ----------------------------------------------------------------
def configs(tier):
    """(cfg, depth) list.  cfg = (M, agf, delta, alphabet)."""
    out = []
    if tier == 'quick':
        d_on, d_off = (0, 7, 8, 10), (0,)
        full_depth, core_depth, core_on, core_off = 2, 3, (8,), ()
    else:
        d_on, d_off = (0, 7, 8, 9, 10, 11), (0,)
        full_depth, core_depth, core_on, core_off = 3, 4, (8,), ()
    for M in MIUS:
        for agf in (True, False):
            for delta in (d_on if agf else d_off):
                out.append(((M, agf, delta, 'full'), full_depth))
            for delta in (core_on if agf else core_off):
                out.append(((M, agf, delta, 'core'), core_depth))
    # prepared non-initial states (aggregation on)
    for M in MIUS:
        for name, _, steps in PREPS:
            depth = deep_depth(tier, M, steps)
            if depth:
                out.append(((M, True, name, 'deep'), depth))
    return out


DEEP_FOCUS = (128, 131, 133)


def deep_depth(tier, M, steps):
    """History depth from a prepared state: two PDUs (thorough: three) after
    the I PDUs that the application has not yet read were read - the rule
    is applied in full where the budget allows, see the evidence."""
    unread = sum(st[2] - st[3] for st in steps if st[0] == 'rx')
    if tier == 'quick':
        if M not in DEEP_FOCUS:
            return 0
        return 2 + (min(unread, 1) if M == 131 else 0)
    if M == 131:
        return 4
    if M in DEEP_FOCUS:
        return min(4, 3 + unread)
    return 2 + min(unread, 1)


def weight(cfg, depth):
    """Rough relative cost (load balance only)."""
    b = dict(full=32, core=15, deep=26)[cfg[3]]
    return b ** depth


def work(item):
    cfg, depth, seed = item
    run = Run(PROP)
    spec = make_spec(cfg)
    spec.stats = {}

    def on_violation(hist, sig, detail):
        d = dict(detail)
        d['history'] = [list(a) for a in hist]
        d['depth'] = depth
        run.fail(sig, d, deviations=len(hist))
    res = bfs.search(spec, depth, seed=seed, on_violation=on_violation)
    for k, v in spec.stats.items():
        run.count(k, v)
    run.outcome((cfg[0], cfg[1]))
    out = run.export()
    out['res'] = dict(cfg=cfg, depth=depth, states=res.states,
                      transitions=res.transitions,
                      depth_completed=res.depth_completed,
                      exhausted=res.exhausted, sound_checks=res.sound_checks,
                      replay_steps=res.replay_steps,
                      state_checks=res.state_checks)
    return out


def main(tier='quick', seed=0, part=None):
    run = Run(PROP, tier, seed, level='model_checking')
    items = [(cfg, depth, seed) for cfg, depth in configs(tier)]
    if part:          # debugging: a remote MIU, an alphabet or a prepared state
        items = [it for it in items
                 if part in (str(it[0][0]), it[0][3], str(it[0][2]))]
    # big configurations first for load balance; seed permutes ties only
    items = par.shuffled(items, seed)
    items.sort(key=lambda it: -weight(it[0], it[1]))
    tot = dict(states=0, transitions=0, sound_checks=0, replay_steps=0,
               state_checks=0)
    per = []
    all_done, any_exhausted = True, False
    for part_result in par.pmap(work, items):
        res = part_result.pop('res')
        run.merge(part_result)
        for k in tot:
            tot[k] += res[k]
        all_done &= res['depth_completed'] == res['depth'] or res['exhausted']
        any_exhausted |= res['exhausted']
        per.append(res)
    per.sort(key=lambda r: repr(r['cfg']))
    if not run.samples:
        for r in per[:3]:
            run.sample(r)
    run.sample(sample_trace())
    run.sample(sample_trace_deep())
    run.rule = ("state = canonical dump of both controllers, their SAPs and "
                "sockets after a history of operations; distinct = distinct "
                "dump per configuration (M, agf, delta | prepared state, alphabet); every "
                "distinct state is drained on a copy and every frame checked")
    run.assumptions += [
        "pair MAC: both controllers are activated by the real activate() with "
        "the peer's real general bytes; frames go collect->encode->decode->"
        "dispatch without NFC-DEP",
        "sizes are the boundary sets {0,1,X-delta,X+1}, one delta per "
        "configuration (X = Link MIU for sendto, connection MIU for send); "
        "payload bytes are position coded",
        "prepared states (alphabet 'deep'): built by the real calls listed in "
        "prepared_state_table on top of the initial world plus a connection "
        "accepted on SAP 33; alphabet there = sendto (SAP 32) / send on the "
        "connections of SAP 33 and 34 with sizes {0} + {the sizes that leave "
        "room 0..5 in one aggregate of everything queued} (+ {1, M/2-4, "
        "largest legal} while nothing is queued), recv of a queued I PDU, "
        "one link round",
        "no data protection (sec=False), no raw access point socket at the "
        "sender (excepted by the statement)",
        "blocking halves of resolve()/close() are not run: the caller is "
        "taken to be still waiting",
        "bounds: see coverage.bounds",
    ]
    fulls = [r for r in per if r['cfg'][3] == 'full']
    cores = [r for r in per if r['cfg'][3] == 'core']
    deeps = [r for r in per if r['cfg'][3] == 'deep']
    run.extra['bounds'] = dict(
        remote_miu=list(MIUS), aggregation=[True, False],
        configurations=len(per),
        full_alphabet=dict(
            configs=len(fulls), history_depth=fulls[0]['depth'] if fulls else 0,
            deltas=sorted(set(r['cfg'][2] for r in fulls))),
        core_alphabet=dict(
            configs=len(cores), history_depth=cores[0]['depth'] if cores else 0,
            deltas=sorted(set(r['cfg'][2] for r in cores))),
        prepared_states=dict(
            configs=len(deeps), aggregation=[True],
            remote_miu=sorted(set(r['cfg'][0] for r in deeps)),
            rooms_left_by_next_pdu=list(ROOMS),
            data_on_sap=[32, 33, 34], acknowledgements_owed_on_sap=[33, 34, 35],
            states=sum(r['states'] for r in deeps),
            transitions=sum(r['transitions'] for r in deeps),
            per_prepared_state=[dict(
                remote_miu=r['cfg'][0], prepared_state=r['cfg'][2],
                history_depth=r['depth'], depth_completed=r['depth_completed'],
                frontier_exhausted=r['exhausted'], states=r['states'],
                transitions=r['transitions']) for r in deeps]),
        depth_completed_everywhere=all_done,
        frontier_exhausted=all(r['exhausted'] for r in per),
        drain_rounds_cap=80)
    run.extra['prepared_state_table'] = [
        dict(name=n, rw_local_of_accepted_connection=rw,
             steps=[list(x) for x in st]) for n, rw, st in PREPS]
    run.extra['soundness'] = dict(snapshot_vs_replay_checks=tot['sound_checks'],
                                  replay_steps=tot['replay_steps'])
    cov = dict(states=tot['states'], transitions=tot['transitions'],
               traces_validated_against_impl=tot['transitions']
               + tot['state_checks'],
               evaluations=run.counters.get('frames', 0),
               distinct_nontrivial=tot['states'])
    print("C10 states=%d transitions=%d state_checks=%d frames=%d "
          "sound_checks=%d configs=%d" % (
              tot['states'], tot['transitions'], tot['state_checks'],
              run.counters.get('frames', 0), tot['sound_checks'], len(per)))
    return run.finish(coverage=cov, exhaustive=all_done)


def sample_trace():
    """One written-out case."""
    spec = Spec((130, True, 8, 'full'))
    hist = [('sendto', 1), ('send', 0, 1), ('rx', 0)]
    w, _ = bfs.replay(spec, hist)
    tr = []
    spec.check_state(w, trace=tr)
    return dict(cfg=spec.cfg, history=hist, frames_when_drained=tr)


def sample_trace_deep():
    """One written-out case from a prepared state: two datagrams that leave
    one octet of room, acknowledgement owed on SAP 33 (goes out next)."""
    spec = DeepSpec((131, True, 'acc1.read', 'deep'))
    hist = [('sendto', 60), ('sendto', 62)]
    w, _ = bfs.replay(spec, hist)
    tr = []
    spec.check_state(w, trace=tr)
    return dict(cfg=spec.cfg, history=hist, frames_when_drained=tr)


def replay(doc):
    d = doc['detail']
    cfg = tuple(d['cfg'])
    spec = make_spec(cfg)
    hist = [tuple(a) for a in d['history']]
    print("C10 replay cfg(M, agf, delta | prepared state, alphabet)=%r "
          "history=%r" % (cfg, hist))
    w = spec.init()
    found = []
    for a in hist:
        found += spec.apply(w, a) or []
    tr = []
    found += spec.check_state(w, trace=tr)
    for t in tr:
        print("  frame", t)
    sigs = sorted(set(s for s, _ in found))
    for s in sigs:
        print("  violation:", s)
    if doc['signature'] in sigs:
        print("REPRODUCED %s" % doc['signature'])
        return 1
    print("not reproduced")
    return 0
