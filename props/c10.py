"""C10 - Nothing sent on an LLCP link exceeds the peer's announced MIU.

Explicit-state BFS (mc.bfs) over two real LogicalLinkControllers joined by
the pair MAC (sim.llcpump): the sender A (recv MIU 2175, aggregation on/off)
and the receiver B whose announced Link MIU M is the parameter.  A history of
operations fills A's send queues in every combination; in every distinct
state the link is pumped on a copy until A is drained and *every frame A's
real collect() returns* is encoded, measured, decoded and dispatched at B.

Oracle, per frame (exactly the statement):
  1. information field = encoded length - 2 (an I PDU: - 3)  <=  M;
  2. every I / UI payload (also inside an aggregate) <= the MIU of its
     receiver (UI: B's Link MIU; I: the connection MIU B announced);
  3. len(pdu) == len(pdu.encode()) for the frame and every aggregated PDU
     (len() is what collect() budgets with);
  4. aggregation is transparent: the leaf PDUs B's dispatch() is called with
     are the PDUs A collected, same number, same order, field-wise equal.
Raw access point sockets are excepted by the statement; A has none.
"""
import errno

from mc import bfs, par
from mc.evidence import Run, sig_exc
from sim import llcpump as lp

PROP = 'C10'

MIUS = (128, 129, 130, 131, 132, 133, 135, 248, 1024, 2175)
SNL_COUNTS = (1, 2, 31, 32, 33, 34, 40, 64)
SITE = 'nfc.llcp.llc.LogicalLinkController.collect'
SD_SITE = 'nfc.llcp.llc.ServiceDiscovery.dequeue'


class World(object):
    pass


def payload(n, tag):
    return bytes((tag + 7 * i) & 0xFF for i in range(n))


def name_of_len(n):
    if n < 12:
        return b'x' * n
    return b'urn:nfc:sn:' + b'n' * (n - 11)


class Spec(object):
    """cfg = (M, agf, delta, alphabet-name)"""
    skip = ()

    FRESH_EVERY = 50

    def __init__(self, cfg):
        self.cfg = cfg
        self.M, self.agf, self.delta, self.alpha = cfg
        self._pristine = None
        self._pristine_dg = None
        self._inits = 0
        self.fresh_inits = 0

    def init(self):
        """The initial world.  Building it takes two threaded connection
        set-ups (a few ms), so most calls return a deep copy of a pristine
        world that is never handed out itself; every FRESH_EVERY-th call
        builds a really fresh one and checks that it still has the dump of
        the pristine copy (nothing outside the world was polluted)."""
        import copy
        self._inits += 1
        if self._pristine is None:
            self._pristine = self.build()
            self._pristine_dg = bfs.state_digest(self, self._pristine)
        if self._inits % self.FRESH_EVERY == 1:
            w = self.build()
            self.fresh_inits += 1
            if bfs.state_digest(self, w) != self._pristine_dg or \
                    bfs.state_digest(self, self._pristine) != self._pristine_dg:
                raise bfs.Unsound("fresh initial world differs from pristine")
            return w
        return bfs.snapshot(self._pristine)

    # -- initial state: real activation, two real connections ----------------
    def build(self):
        import nfc.llcp
        import nfc.llcp.llc as llc
        K = lp.classes()
        M = self.M
        A, B = lp.make_pair(dict(miu=2175, agf=self.agf, sec=False),
                            dict(miu=M, agf=True, sec=False),
                            b_cls=K['RecordingLLC'])
        assert A.cfg['send-miu'] == M and A.sec is None
        w = World()
        w.A, w.B = A, B
        w.dead = False
        w.lb = B.socket(llc.LOGICAL_DATA_LINK)
        B.setsockopt(w.lb, nfc.llcp.SO_RCVBUF, 15)
        B.bind(w.lb)                                   # 32 at B
        w.rb = B.socket(llc.RAW_ACCESS_POINT)
        B.bind(w.rb, 40)                               # injects SNL/CONNECT
        w.bl, w.bc, w.c = [], [], []
        # listener 1: connection MIU 128 (default), RW 2
        # listener 2: connection MIU M (the largest B may announce), RW 1
        for i, (miu, rw) in enumerate(((None, 2), (M, 1))):
            ls = B.socket(llc.DATA_LINK_CONNECTION)
            if miu is not None:
                B.setsockopt(ls, nfc.llcp.SO_RCVMIU, miu)
            B.setsockopt(ls, nfc.llcp.SO_RCVBUF, rw)
            B.bind(ls, 'urn:nfc:sn:c%d' % (i + 1))     # 16, 17 at B
            B.listen(ls, 1)
            w.bl.append(ls)
        w.la = A.socket(llc.LOGICAL_DATA_LINK)
        A.bind(w.la)                                   # 32 at A
        for i, dest in enumerate((16, 'urn:nfc:sn:c2')):
            cs = A.socket(llc.DATA_LINK_CONNECTION)
            A.setsockopt(cs, nfc.llcp.SO_RCVBUF, 2 - i)
            acc = []

            def hook(ls=w.bl[i], acc=acc):
                if len(ls.recv_queue):
                    acc.append(B.accept(ls))
            out = lp.run_blocking(lambda: A.connect(cs, dest), A, B,
                                  after_round=hook)
            if not out.done or out.exc is not None or len(acc) != 1:
                raise RuntimeError("C10 set-up: connect failed %r %r"
                                   % (out.exc, out.done))
            w.c.append(cs)
            w.bc.append(acc[0])
        w.m = [s.recv_miu for s in w.bc]               # connection MIUs of B
        assert w.m == [128, M], w.m
        assert [s.send_miu for s in w.c] == w.m
        assert lp.quiesce(A, B) is not None
        return w

    # -- alphabet -----------------------------------------------------------------
    def sizes(self, top):
        """Boundary sizes; top + 1 must be refused by send()/sendto()."""
        return sorted(set(s for s in (0, 1, top - self.delta, top + 1)
                          if s >= 0))

    def name_lens(self):
        M = self.M
        out = set([1, 20, 254, 255])
        for n in (M - 4, M - 3, M - 2):
            if n <= 254:
                out.add(n)
        return sorted(out)

    def actions(self, w):
        if w.dead:
            return []
        core = self.alpha == 'core'
        M = self.M
        acts = []
        for s in (self.sizes(M) if not core else [1, M - self.delta, M + 1]):
            acts.append(('sendto', s))
        for i in (0, 1):
            if not w.c[i].state.ESTABLISHED:
                continue
            for s in (self.sizes(w.m[i]) if not core
                      else [1, w.m[i] - self.delta, w.m[i] + 1]):
                acts.append(('send', i, s))
            if not core or i == 0:
                acts.append(('rx', i))
                acts.append(('busy', i))
                acts.append(('close', i))
        if core:
            acts += [('resolve', min(M - 3, 254)), ('snl_in', 1),
                     ('snl_in', 33), ('snl_in', 34)]
        else:
            acts += [('resolve', n) for n in self.name_lens()]
            acts += [('snl_in', n) for n in SNL_COUNTS]
        acts += [('connect_in', 'nolisten'), ('connect_in', 'noname'),
                 ('xchg',)]
        return acts

    # -- transitions -----------------------------------------------------------
    def apply(self, w, a):
        import nfc.llcp
        import nfc.llcp.pdu as pdu
        A, B = w.A, w.B
        DW = nfc.llcp.MSG_DONTWAIT
        viol = []
        obs = Observer(self, w, viol)
        kind = a[0]
        try:
            if kind == 'sendto':
                A.sendto(w.la, payload(a[1], a[1]), w.lb.addr, DW)
            elif kind == 'send':
                A.send(w.c[a[1]], payload(a[2], a[2]), DW)
            elif kind == 'resolve':
                st = lp.seq_call(lambda: A.resolve(name_of_len(a[1])))
                assert st[0] in ('blocked', 'ok'), st
            elif kind == 'snl_in':
                req = [(i, b'urn:nfc:sn:u%03d' % i) for i in range(a[1])]
                B.sendto(w.rb, pdu.ServiceNameLookup(1, 1, sdreq=req), None, DW)
                fr = lp.xfer(B, A)
                assert fr is not None and fr.error is None
            elif kind == 'connect_in':
                if a[1] == 'nolisten':
                    p = pdu.Connect(w.la.addr, 41)
                else:
                    p = pdu.Connect(1, 42, sn=b'urn:nfc:sn:none')
                B.sendto(w.rb, p, None, DW)
                fr = lp.xfer(B, A)
                assert fr is not None and fr.error is None
            elif kind == 'rx':
                i = a[1]
                if w.bc[i].state.ESTABLISHED:
                    try:
                        B.send(w.bc[i], payload(3, 3), DW)
                    except nfc.llcp.Error as e:
                        if e.errno != errno.EWOULDBLOCK:
                            raise
                    lp.xfer(B, A)
                    if len(w.c[i].recv_queue) and \
                            w.c[i].recv_queue[0].name == 'I':
                        A.recv(w.c[i])
            elif kind == 'busy':
                s = w.c[a[1]]
                A.setsockopt(s, nfc.llcp.SO_RCVBSY,
                             not A.getsockopt(s, nfc.llcp.SO_RCVBSY))
            elif kind == 'close':
                st = lp.seq_call(lambda: A.close(w.c[a[1]]))
                assert st[0] == 'blocked', st     # DISC queued, DM awaited
            elif kind == 'xchg':
                self.round(w, obs)
            else:
                raise ValueError(a)
        except nfc.llcp.Error as e:
            # EWOULDBLOCK (send window full), EMSGSIZE: refused, no change
            if e.errno not in (errno.EWOULDBLOCK, errno.EMSGSIZE,
                               errno.ENOTCONN, errno.EPIPE):
                raise
        return viol

    def round(self, w, obs):
        """One link round: A -> B, B's applications receive, B -> A."""
        f = lp.xfer(w.A, w.B, obs)
        if f is not None and f.error is not None:
            w.dead = True              # the real run loop ends the link here
            return f, None
        self.b_apps(w)
        g = lp.xfer(w.B, w.A)
        return f, g

    def b_apps(self, w):
        B = w.B
        while len(w.lb.recv_queue):
            B.recvfrom(w.lb)
        for s in w.bc:
            while (s.state.ESTABLISHED or s.state.CLOSE_WAIT) \
                    and len(s.recv_queue):
                B.recv(s)

    # -- the per-state evaluation: pump a copy until A is drained ---------------
    def check_state(self, w, trace=None):
        if w.dead:
            return []
        w = bfs.snapshot(w)
        viol = []
        obs = Observer(self, w, viol, trace)
        prev, prev_dg = None, None
        for r in range(80):
            f, g = self.round(w, obs)
            if w.dead:
                break
            if f is None and g is None:
                break
            # a sender that repeats itself without changing state is drained
            # as far as it ever will be (an SDREQ that never fits the MIU
            # makes ServiceDiscovery.dequeue return an empty SNL every time)
            pair = (f.octets if f else None, g.octets if g else None)
            if pair == prev:
                dg = bfs.state_digest(self, w)
                if dg == prev_dg:
                    obs.count('drain_ended_on_repeating_frame')
                    break
                prev_dg = dg
            prev = pair
        else:
            viol.append(('C10|drain|A not drained after 80 rounds',
                         dict(cfg=self.cfg)))
        return viol


def fields(p):
    """Field-wise view of a PDU for the transparency comparison."""
    def norm(v):
        if isinstance(v, (bytes, bytearray, memoryview)):
            return bytes(v)
        if isinstance(v, (list, tuple)):
            return tuple(norm(x) for x in v)
        return v
    return (type(p).__name__,) + tuple(
        (k, norm(v)) for k, v in sorted(vars(p).items()))


def describe(p):
    s = p.name
    if p.name == 'SNL':
        s += '(sdres=%d,sdreq=%d)' % (len(p.sdres), len(p.sdreq))
    elif p.name in ('I', 'UI'):
        s += '(%d)' % len(p.data)
    return s


class Observer(object):
    """Oracle for every frame A sends (called by sim.llcpump.xfer)."""

    def __init__(self, spec, w, viol, trace=None):
        self.spec, self.w, self.viol, self.trace = spec, w, viol, trace
        self.stats = spec.stats if hasattr(spec, 'stats') else None

    def count(self, k):
        if self.stats is not None:
            self.stats[k] = self.stats.get(k, 0) + 1

    def __call__(self, src, dst, fr):
        w, spec = self.w, self.spec
        if src is not w.A:
            return
        M = spec.M
        sent = fr.sent
        if fr.error is not None:
            # nothing was transmitted; not a C10 matter (recorded only)
            self.count('obs_unencodable_%s_%s' % (
                sent.name, type(fr.error).__name__))
            if self.trace is not None:
                self.trace.append(dict(frame=str(sent)[:120],
                                       error=repr(fr.error)))
            return
        leaves = fr.leaves_sent()
        info = len(fr.octets) - (3 if sent.name == 'I' else 2)
        self.count('frames')
        self.count('frames_agf' if sent.name == 'AGF' else 'frames_single')
        if info == M:
            self.count('frames_info_eq_miu')
        if self.trace is not None:
            self.trace.append(dict(
                frame=[describe(p) for p in leaves], agf=sent.name == 'AGF',
                info=info, miu=M, octets=fr.octets.hex()
                if len(fr.octets) <= 300 else fr.octets[:300].hex() + '...'))
        base = dict(cfg=spec.cfg, miu=M, info_field=info,
                    frame=[describe(p) for p in leaves],
                    aggregated=sent.name == 'AGF')
        # 1. information field of the frame
        if info > M:
            self.count('viol_frame')
            if sent.name != 'AGF':
                cls = 'single|%s' % self.kind(sent)
            else:
                # the first aggregated PDU with which the frame is too large
                # (a first PDU that is already too large once wrapped makes
                # the first *added* PDU the culprit: budget < 0)
                size, culprit, budget = 2, None, None
                for k, p in enumerate(leaves):
                    budget = M - size - 3       # what collect() had left
                    size += 2 + len(p.encode())
                    if k >= 1 and size - 2 > M:
                        culprit = (k, p)
                        break
                k, p = culprit
                cls = 'agf|added=%s|budget%s' % (
                    self.kind(p), '<0' if budget < 0 else '>=0')
            # call site: the SDRES batch loop, or the aggregation loop
            site = SD_SITE if cls.endswith('SNL+sdres') or \
                cls.endswith('SNL+sdres|budget>=0') else SITE
            self.viol.append((
                'C10|frame>linkMIU|%s|%s' % (cls, site),
                dict(base, over_by=info - M)))
        # 2. payloads against the receiver's MIU
        for p in leaves:
            if p.name == 'UI':
                lim = w.B.cfg['recv-miu']
            elif p.name == 'I':
                lim = None
                sap = w.B.sap[p.dsap]
                for s in (sap.sock_list if sap is not None and
                          hasattr(sap, 'sock_list') else ()):
                    if s.peer == p.ssap and hasattr(s, 'recv_win'):
                        lim = s.recv_miu
            else:
                continue
            self.count('payloads')
            if lim is not None and len(p.data) == lim:
                self.count('payload_eq_miu')
            if lim is not None and len(p.data) > lim:
                self.viol.append((
                    'C10|payload>MIU|%s|%s' % (p.name, SITE),
                    dict(base, payload=len(p.data), receiver_miu=lim)))
        # 3. len() used for budgeting equals the encoded length
        for p in [sent] + (leaves if sent.name == 'AGF' else []):
            if len(p) != len(p.encode()):
                self.viol.append((
                    'C10|len!=encoded|%s|nfc.llcp.pdu.%s.__len__' % (
                        p.name, type(p).__name__),
                    dict(base, pdu=str(p)[:200], len=len(p),
                         encoded=len(p.encode()))))
        # 4. transparency
        got = fr.dispatched
        if [fields(p) for p in got] != [fields(p) for p in leaves]:
            self.count('viol_transparency')
            self.viol.append((
                'C10|aggregation-not-transparent|%s|'
                'nfc.llcp.llc.LogicalLinkController.dispatch'
                % ('agf' if sent.name == 'AGF' else 'single'),
                dict(base, collected=[str(p)[:100] for p in leaves],
                     dispatched=[str(p)[:100] for p in got])))
        elif sent.name == 'AGF':
            self.count('agf_transparent_ok')

    @staticmethod
    def kind(p):
        if p.name == 'SNL':
            if p.sdres:
                return 'SNL+sdres'
            return 'SNL+sdreq' if p.sdreq else 'SNL-empty'
        return p.name


# -- enumeration ----------------------------------------------------------------
def configs(tier):
    """(cfg, depth) list.  cfg = (M, agf, delta, alphabet)."""
    out = []
    if tier == 'quick':
        d_on, d_off = (0, 7, 8, 10), (0,)
        full_depth, core_depth, core_on, core_off = 2, 3, (8,), ()
    else:
        d_on, d_off = (0, 7, 8, 9, 10, 11), (0,)
        full_depth, core_depth, core_on, core_off = 3, 4, (8,), ()
    for M in MIUS:
        for agf in (True, False):
            for delta in (d_on if agf else d_off):
                out.append(((M, agf, delta, 'full'), full_depth))
            for delta in (core_on if agf else core_off):
                out.append(((M, agf, delta, 'core'), core_depth))
    return out


def work(item):
    cfg, depth, seed = item
    run = Run(PROP)
    spec = Spec(cfg)
    spec.stats = {}

    def on_violation(hist, sig, detail):
        d = dict(detail)
        d['history'] = [list(a) for a in hist]
        d['depth'] = depth
        run.fail(sig, d, deviations=len(hist))
    res = bfs.search(spec, depth, seed=seed, on_violation=on_violation)
    for k, v in spec.stats.items():
        run.count(k, v)
    run.outcome((cfg[0], cfg[1]))
    out = run.export()
    out['res'] = dict(cfg=cfg, depth=depth, states=res.states,
                      transitions=res.transitions,
                      depth_completed=res.depth_completed,
                      exhausted=res.exhausted, sound_checks=res.sound_checks,
                      replay_steps=res.replay_steps,
                      state_checks=res.state_checks)
    return out


def main(tier='quick', seed=0, part=None):
    run = Run(PROP, tier, seed, level='model_checking')
    items = [(cfg, depth, seed) for cfg, depth in configs(tier)]
    if part:
        items = [it for it in items if str(it[0][0]) == part]
    # big configurations first for load balance; seed permutes ties only
    items = par.shuffled(items, seed)
    items.sort(key=lambda it: -(it[1] * 10 + (it[0][3] == 'full')))
    tot = dict(states=0, transitions=0, sound_checks=0, replay_steps=0,
               state_checks=0)
    per = []
    all_done, any_exhausted = True, False
    for part_result in par.pmap(work, items):
        res = part_result.pop('res')
        run.merge(part_result)
        for k in tot:
            tot[k] += res[k]
        all_done &= res['depth_completed'] == res['depth'] or res['exhausted']
        any_exhausted |= res['exhausted']
        per.append(res)
    per.sort(key=lambda r: repr(r['cfg']))
    if not run.samples:
        for r in per[:3]:
            run.sample(r)
    run.sample(sample_trace())
    run.rule = ("state = canonical dump of both controllers, their SAPs and "
                "sockets after a history of operations; distinct = distinct "
                "dump per configuration (M, agf, delta, alphabet); every "
                "distinct state is drained on a copy and every frame checked")
    run.assumptions += [
        "pair MAC: both controllers are activated by the real activate() with "
        "the peer's real general bytes; frames go collect->encode->decode->"
        "dispatch without NFC-DEP",
        "sizes are the boundary sets {0,1,X-delta,X+1}, one delta per "
        "configuration (X = Link MIU for sendto, connection MIU for send); "
        "payload bytes are position coded",
        "no data protection (sec=False), no raw access point socket at the "
        "sender (excepted by the statement)",
        "blocking halves of resolve()/close() are not run: the caller is "
        "taken to be still waiting",
        "bounds: see coverage.bounds",
    ]
    fulls = [r for r in per if r['cfg'][3] == 'full']
    cores = [r for r in per if r['cfg'][3] == 'core']
    run.extra['bounds'] = dict(
        remote_miu=list(MIUS), aggregation=[True, False],
        configurations=len(per),
        full_alphabet=dict(
            configs=len(fulls), history_depth=fulls[0]['depth'] if fulls else 0,
            deltas=sorted(set(r['cfg'][2] for r in fulls))),
        core_alphabet=dict(
            configs=len(cores), history_depth=cores[0]['depth'] if cores else 0,
            deltas=sorted(set(r['cfg'][2] for r in cores))),
        depth_completed_everywhere=all_done,
        frontier_exhausted=all(r['exhausted'] for r in per),
        drain_rounds_cap=80)
    run.extra['soundness'] = dict(snapshot_vs_replay_checks=tot['sound_checks'],
                                  replay_steps=tot['replay_steps'])
    cov = dict(states=tot['states'], transitions=tot['transitions'],
               traces_validated_against_impl=tot['transitions']
               + tot['state_checks'],
               evaluations=run.counters.get('frames', 0),
               distinct_nontrivial=tot['states'])
    print("C10 states=%d transitions=%d state_checks=%d frames=%d "
          "sound_checks=%d configs=%d" % (
              tot['states'], tot['transitions'], tot['state_checks'],
              run.counters.get('frames', 0), tot['sound_checks'], len(per)))
    return run.finish(coverage=cov, exhaustive=all_done)


def sample_trace():
    """One written-out case."""
    spec = Spec((130, True, 8, 'full'))
    hist = [('sendto', 1), ('send', 0, 1), ('rx', 0)]
    w, _ = bfs.replay(spec, hist)
    tr = []
    spec.check_state(w, trace=tr)
    return dict(cfg=spec.cfg, history=hist, frames_when_drained=tr)


def replay(doc):
    d = doc['detail']
    cfg = tuple(d['cfg'])
    spec = Spec(cfg)
    hist = [tuple(a) for a in d['history']]
    print("C10 replay cfg(M, agf, delta, alphabet)=%r history=%r" % (cfg, hist))
    w = spec.init()
    found = []
    for a in hist:
        found += spec.apply(w, a) or []
    tr = []
    found += spec.check_state(w, trace=tr)
    for t in tr:
        print("  frame", t)
    sigs = sorted(set(s for s, _ in found))
    for s in sigs:
        print("  violation:", s)
    if doc['signature'] in sigs:
        print("REPRODUCED %s" % doc['signature'])
        return 1
    print("not reproduced")
    return 0
