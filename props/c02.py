"""C02 - an interrupted NDEF write never leaves a corrupt message on the tag.

For every (layout, old message, new message) a fault-free write on the real
tag class counts the n state-changing commands the simulator executed; then
for every k in 0..n the same write is repeated on a copy of the pre-image with
"the tag leaves the field after the k-th state-changing command" (every later
command times out; whatever the writer raises is ignored).  The tag is brought
back into the field and a fresh activation evaluates `tag.ndef`.

Oracle (exactly the statement): the fresh reader sees ndef None, or
is_readable False, or length 0, or octets == old, or octets == new.  Anything
else - in particular a non-zero length whose content is neither - is a
violation; so is an exception out of the fresh reader.

Part 'retry' (props/tagretry.py): the write is not the first thing that
happens to the tag object.  Attempt 1 of `nd.octets = new` fails because the
link is disturbed from the j-th command on (kind timeout / transmission /
protocol, command lost or response lost); the application repeats the
assignment on the SAME ndef object and the tag leaves the field after the k-th
state-changing command of that retry, for every k.  Same oracle, with
'previous message' = the message before attempt 1; a state that a single
interrupted write old -> new leaves as well is judged by the part above only.
"""
import time

from mc.evidence import Run, sig_exc
from mc import par
from props import tagcases as tc
from props import tagretry as tr

from props import c01

PROP = 'C02'
CASES = {}

OLD_TLV = (0, 1, 254, 255, 300)
NEW_TLV = (0, 1, 254, 255, 256, 300, 'cap')
OLD_T3 = (0, 1, 16, 17, 80)
NEW_T3 = (0, 1, 15, 16, 17, 33, 64, 80)
OLD_T4 = (0, 1, 254, 255, 300)
NEW_T4 = (0, 1, 11, 12, 25, 50, 254, 255, 256, 300, 'cap')
CONTENTS = (('old', 'new'), ('tlv', 'ff'))
KINDS = ('T1', 'T2', 'T3', 'T3emu', 'T4')

# retry histories: (old lengths, new lengths) per tag family, content pair 0
RETRY = {
    'quick': dict(tlv=((0, 20, 300), (0, 1, 30, 254, 255, 260, 'cap')),
                  t3=((0, 17, 80), (0, 1, 16, 17, 33, 80)),
                  t4=((0, 12, 300), (0, 1, 12, 25, 50, 255, 300, 'cap'))),
    'thorough': dict(tlv=(OLD_TLV, NEW_TLV + (30,)), t3=(OLD_T3, NEW_T3),
                     t4=(OLD_T4, NEW_T4)),
}
# Type 2 Tags with two 1K sectors (SECTOR SELECT inside the write):
# (data area size, NULL TLVs in front of the NDEF TLV, old lengths, new lengths)
RETRY_2SECTOR = {
    'quick': ((1016, 3, (20, 900), (700, 'cap')),
              (2040, 3, (20, 1500), (1100, 'cap'))),
    'thorough': ((1016, 0, (20, 900), (700, 'cap')),
                 (1016, 1, (20, 900), (700, 'cap')),
                 (1016, 2, (20, 900), (700, 'cap')),
                 (1016, 3, (0, 20, 300, 900), (30, 300, 700, 'cap')),
                 (2040, 0, (20, 1500), (1100, 'cap')),
                 (2040, 1, (20, 1500), (1100, 'cap')),
                 (2040, 2, (20, 1500), (1100, 'cap')),
                 (2040, 3, (0, 20, 300, 1500), (30, 300, 1100, 1500, 'cap'))),
}


def layouts(tier):
    """(case, old lengths, new lengths)"""
    out = []
    t2 = [(48, 'ntag210'), (144, 'ntag213'), (504, 'ntag215')]
    rsvs = ['none']
    if tier == 'thorough':
        t2 += [(888, 'ntag216'), (1016, 'generic')]
        rsvs += ['early', 'mid']
    for D, prod in t2:
        for rsv in rsvs:
            for nulls in range(4):              # NDEF TLV offset 0..3 mod 4
                out.append((tc.t2_case(D, prod, nulls, rsv, 2), OLD_TLV, NEW_TLV))
    # two 1K sectors: the old message reaches into the second one, so the
    # reader has selected sector 1 before the write starts in sector 0
    for nulls in ((0, 3) if tier == 'thorough' else (3,)):
        out.append((tc.t2_case(1136, 'generic', nulls, 'none', 2),
                    (20, 1100), (30, 1100)))
    t1 = [(120, 0x48, 1), (512, 0x4C, 8)]
    if tier == 'thorough':
        t1 += [(256, 0x00, 8)]
    for size, hr1, aligns in t1:
        for rsv in rsvs:
            for nulls in range(aligns):         # offset 0..7 mod 8 (dynamic)
                out.append((tc.t1_case(size, hr1, nulls, rsv, 2), OLD_TLV, NEW_TLV))
    for nbw in range(1, 5):
        out.append((tc.T3Case(4, nbw, 5), OLD_T3, NEW_T3))
        if tier == 'thorough' or nbw in (1, 3):
            out.append((tc.T3Case(4, nbw, 5, emulated=True, spare=0),
                        OLD_T3, NEW_T3))
    for mapping in (0x20, 0x30):
        for mlc in (1, 2, 4, 13, 52, 255, 256):
            techs = 'AB' if tier == 'thorough' else 'A'
            for tech in techs:
                out.append((tc.T4Case(mapping, 255, mlc, 310, 8 if tech == 'A' else 2,
                                      tech), OLD_T4, NEW_T4))
        # a frame size well below MLc: one UPDATE BINARY is chained over
        # many ISO-DEP blocks (and stays one command)
        for mlc in (52, 255, 256):
            for fsci in ((0, 2, 5) if tier == 'thorough' else (0, 5)):
                out.append((tc.T4Case(mapping, 255, mlc, 310, fsci, 'A'),
                            (0, 20, 300), (0, 12, 50, 60, 254, 300)))
    return out


def retry_layouts(tier):
    """(case, old lengths, new lengths) of the retry part: the layouts of
    the cut part plus two-sector Type 2 Tags."""
    out = []
    g = RETRY[tier]
    for case, _, _ in layouts(tier):
        fam = {'T1': 'tlv', 'T2': 'tlv', 'T4': 't4'}.get(case.kind, 't3')
        out.append((case, g[fam][0], g[fam][1]))
    for D, nulls, olds, news in RETRY_2SECTOR[tier]:
        out.append((tc.t2_case(D, 'generic', nulls, 'none', 2), olds, news))
    return out


def expand(case, olds, news):
    cap = case.ref_capacity()
    o = {x for x in olds if x <= cap}
    n = {(cap if x == 'cap' else x) for x in news if x == 'cap' or x <= cap}
    if case.kind in ('T1', 'T2'):
        # message (and terminator) ending exactly at a 16-byte boundary of
        # the tag memory - where a reader's next READ / block load starts -
        # as old and as new length (same-length rewrites included)
        off = case.lay0.ndef_off
        for b in (off + 2 + 15) // 16 * 16, (off + 2 + 15) // 16 * 16 + 16:
            L = b - off - 2
            if 0 < L <= min(cap, 254):
                o.add(L)
                n.add(L)
    return sorted(o), sorted(n)


def messages(cid, old_len, new_len):
    po, pn = CONTENTS[cid]
    return tc.content(po, old_len, 3), tc.content(pn, new_len, 9)


def one_write(case, old, new, k):
    """Run the write with a cut after k state-changing commands (k None: no
    cut).  Returns (sim, number of state-changing commands of the write,
    exception raised by the writer or None)."""
    sim = case.new_sim()
    sim.keep_log = False
    if old:
        case.preload(sim, old)
    clf, tag = case.activate(sim)
    nd = tag.ndef
    if nd is None or nd.octets != old:
        raise AssertionError("harness: pre-image not readable: %s" % case.name)
    mark = sim.n_state
    if k is not None:
        sim.arm_cut(k)
    exc = None
    try:
        nd.octets = new
    except Exception as e:
        exc = e
    return sim, sim.n_state - mark, exc


def observe(case, sim):
    """What a fresh reader sees: (class, octets or None)"""
    sim.enter_field()
    try:
        clf, tag = case.activate(sim)
        nd = tag.ndef if tag is not None else None
        if nd is None:
            return 'none', None
        if not nd.is_readable:
            return 'not-readable', None
        if nd.length == 0:
            return 'empty', b''
        return 'data', nd.octets
    except Exception as e:
        return 'reader-exception:' + sig_exc(e), None


def pclass(case, old_len, new_len):
    """Parameter class of a failing case: what decides where the commit point
    (length field / NLEN / attribute block) lands in the command sequence."""
    if case.kind in ('T1', 'T2'):
        return 'new%s,o%%%d=%d' % ('<255' if new_len < 255 else '>=255',
                                   case.unit, case.pc['o'] % case.unit)
    if case.kind == 'T4':
        nl = case.c.nlen_size
        return 'MLc%s,%s' % ('<nlen_size' if case.mlc < nl else (
            '>255' if case.mlc > 255 else '>=nlen_size'),
            'new+nlen<=MLc' if new_len + nl <= case.mlc else 'new+nlen>MLc')
    return 'nbw=%d' % case.nbw


def check(case, old_len, new_len, cid, only_k=None):
    """All cut points of one (layout, old, new, content).  Returns
    (results [(k, outcome class, violation signature or None, detail)], n)"""
    old, new = messages(cid, old_len, new_len)
    sim, n, exc = one_write(case, old, new, None)
    full = observe(case, sim)
    out = []
    ks = range(0, n + 1) if only_k is None else [only_k]
    for k in ks:
        sim, done, wexc = one_write(case, old, new, k)
        cls, octets = observe(case, sim)
        sig = None
        if cls == 'data':
            if octets == new:
                cls = 'new'
            elif octets == old:
                cls = 'old'
            else:
                cls = 'mixture'
                sig = '%s|write-cut|%s|mixed-content' % (
                    case.kind, pclass(case, old_len, new_len))
        elif cls.startswith('reader-exception'):
            sig = '%s|write-cut|%s|%s' % (case.kind,
                                          pclass(case, old_len, new_len), cls)
        detail = None
        if sig:
            detail = dict(spec=list(case.spec), case=case.name, old_len=old_len,
                          new_len=new_len, content=cid, k=k, n=n,
                          seen_len=None if octets is None else len(octets),
                          seen=None if octets is None else octets[:48],
                          old=old[:24], new=new[:24],
                          writer_exception=repr(wexc),
                          complete_write_exception=repr(exc))
        out.append((k, cls, sig, detail))
    return out, n, full[0]


def check_retry(case, old_len, new_len, cid, tier, only=None):
    """Retry histories of one (layout, old, new, content) -> (info,
    [(CutResult, signature or None, detail or None)])"""
    old, new = messages(cid, old_len, new_len)
    info, results = tr.c02_retry(case, old, new, tier, observe, only=only)
    out = []
    for r in results:
        sig = detail = None
        if r.bad:
            k, cls, octets = r.bad[0]
            what = 'mixed-content' if cls == 'mixture' else cls
            sig = '%s|retry-cut|%s|%s:%s|%s' % (
                case.kind, pclass(case, old_len, new_len), r.name,
                r.fault[2], what)
            detail = dict(part='retry', spec=list(case.spec), case=case.name,
                          old_len=old_len, new_len=new_len, content=cid,
                          tier=tier, fault=list(r.fault), command=r.name, k=k,
                          n2=r.n2, bad_cuts=[b[0] for b in r.bad][:20],
                          seen_len=None if octets is None else len(octets),
                          seen=None if octets is None else octets[:48],
                          old=old[:24], new=new[:24],
                          attempt1=repr(r.exc1), retry=repr(r.exc2))
        out.append((r, sig, detail))
    return info, out


def work_retry(item):
    _, ci, old_len, new_len, cid, tier = item
    case, _, _ = CASES['retry'][ci]
    run = Run(PROP)
    t0 = time.process_time()
    info, results = check_retry(case, old_len, new_len, cid, tier)
    for r, sig, detail in results:
        key = (case.name, 'retry', old_len, new_len, cid, r.fault)
        if sig is None:
            run.ok(key=key, n=len(r.classes))
        else:
            run.fail(sig, detail, key=key, deviations=2)
            run.ok(n=len(r.classes) - 1)
        for cls in r.classes:
            c = cls.split('@')[0].split(':')[0]
            run.count('retry:seen:' + c)
            run.outcome((case.kind, 'retry', c))
        run.count('retry:histories:' + case.kind)
        run.count('retry:cut-points:' + case.kind, len(r.classes))
        run.count('retry:attempt1:' + tr.exc_class(r.exc1))
        run.count('retry:second-attempt:' + tr.exc_class(r.exc2))
        run.count('retry:fault:%s:%s' % (r.fault[1], r.fault[2]))
    run.count('retry:writes:' + case.kind)
    run.count('retry:distinct-memory-images-read-by-a-fresh-reader',
              info['images'])
    run.count('retry:cuts-replayed-for-real', info['cross'])
    run.count('retry:exempt:timeout-where-the-tag-answers-with-silence',
              info['exempt'])
    if info['thinned']:
        run.count('retry:writes-with-thinned-positions')
    if info.get('unsafe'):
        run.count('retry:writes-unsafe-under-a-single-cut(not-judged-again)')
    if info['complete'] != 'completed':
        run.count('retry:complete-write-raises:' + info['complete'])
    run.count('cpu_ms', int((time.process_time() - t0) * 1000))
    if results:
        r = results[len(results) // 2][0]
        run.sample(dict(part='retry', case=case.name, old_len=old_len,
                        new_len=new_len, commands_of_write=info['n'],
                        fault=list(r.fault), faulted_command=r.name,
                        attempt1=tr.exc_class(r.exc1),
                        second_attempt=tr.exc_class(r.exc2),
                        seen_per_cut_of_retry=r.classes[:40]))
    return run.export()


def work(item):
    if item[0] == 'retry':
        return work_retry(item)
    _, ci, old_len, new_len, cid = item
    case, _, _ = CASES['list'][ci]
    run = Run(PROP)
    t0 = time.process_time()
    results, n, full = check(case, old_len, new_len, cid)
    for k, cls, sig, detail in results:
        key = (case.name, old_len, new_len, cid, k)
        if sig is None:
            run.ok(key=key, nontrivial=(0 < k))
        else:
            run.fail(sig, detail, key=key, deviations=1)
        run.count('seen:' + cls.split(':')[0])
        run.outcome((case.kind, cls.split('@')[0]))
    run.count('writes:' + case.kind)
    run.count('cut-points:' + case.kind, n + 1)
    if full not in ('data',):
        run.count('complete-write-not-new:' + full.split(':')[0])
    run.count('cpu_ms', int((time.process_time() - t0) * 1000))
    run.sample(dict(case=case.name, old_len=old_len, new_len=new_len,
                    content=cid, state_changing_commands=n,
                    seen_per_cut=[r[1].split('@')[0] for r in results][:40]))
    return run.export()


def main(tier='quick', seed=0, part=None):
    run = Run(PROP, tier, seed, level='fault_enumeration')
    tokens = set(part.split(',')) if part else set()
    kinds = (tokens & set(KINDS)) or set(KINDS)
    parts = (tokens & {'cut', 'retry'}) or {'cut', 'retry'}
    lays = [x for x in layouts(tier) if x[0].kind in kinds]
    CASES['list'] = lays
    items = []
    if 'cut' in parts:
        for ci, (case, olds, news) in enumerate(lays):
            o, n = expand(case, olds, news)
            for a in o:
                for b in n:
                    for cid in range(len(CONTENTS)):
                        items.append(('cut', ci, a, b, cid))
    n_cut = len(items)
    rlays = [x for x in retry_layouts(tier) if x[0].kind in kinds]
    CASES['retry'] = rlays
    if 'retry' in parts:
        for ci, (case, olds, news) in enumerate(rlays):
            o, n = expand(case, olds, news)
            for a in o:
                for b in n:
                    items.append(('retry', ci, a, b, 0, tier))
    for res in par.pmap(work, par.shuffled(items, seed), chunksize=2):
        run.merge(res)
    run.rule = ("one case = (layout, old length, new length, content pair, cut "
                "point k); k ranges over 0..n where n is the number of "
                "state-changing commands the simulator executed in the "
                "fault-free write; cases with k>0 (at least one command "
                "executed before the cut) count as non-trivial.  Part 'retry': "
                "one history = (layout, old length, new length, faulted "
                "position j of the command sequence of the fault-free write, "
                "error kind timeout/transmission/protocol, command lost / "
                "response lost): attempt 1 of `ndef.octets = new` runs with "
                "every exchange from the j-th on failing (a burst beyond every "
                "retry budget), then the assignment is repeated on the same "
                "ndef object and cut after the k-th state-changing command for "
                "every k = 0..n2; j = every position for sequences up to %d "
                "commands, else first, second, middle, last, every SECTOR "
                "SELECT packet and the first/last occurrence of every command "
                "name%s; every (history, k) is one evaluation, distinct "
                "histories are counted as non-trivial cases; the tag memory "
                "after each cut is recorded in one execution of the retry and "
                "read by a fresh reader once per distinct memory image "
                "(counters retry:*), one cut per history is replayed for real "
                "and must agree" % (
                    tr.SMALL[tier], ' (+ third, last but one, quartiles, both '
                    'sides of every command name change)'
                    if tier == 'thorough' else ''))
    run.assumptions += [
        "a cut happens between commands: a command is either executed "
        "completely by the tag or not at all (no torn page writes)",
        "after the cut every command times out until the tag is brought back "
        "into the field (sim.enter_field)",
        "simulators sim/t?t.py are the trusted base",
        "retry part: the disturbance of attempt 1 lasts until that attempt "
        "returns; a timeout where the tag answers with silence anyway (second "
        "SECTOR SELECT packet) is not a fault; a write whose single "
        "interruption already leaves a mixture (reported by the cut part) is "
        "not judged again under retry",
    ]
    by_kind, rby_kind = {}, {}
    for c, _, _ in lays:
        by_kind[c.kind] = by_kind.get(c.kind, 0) + 1
    for c, _, _ in rlays:
        rby_kind[c.kind] = rby_kind.get(c.kind, 0) + 1
    run.extra['bounds'] = dict(
        layouts=by_kind, writes=n_cut,
        t12=dict(old=OLD_TLV, new=NEW_TLV, align='T2 offset 0..3 mod 4; T1 '
                 'dynamic offset 0..7 mod 8'),
        t3=dict(old=OLD_T3, new=NEW_T3, nbw='1..4', nmaxb=5),
        t4=dict(old=OLD_T4, new=NEW_T4, mlc=[1, 2, 4, 13, 52, 255, 256],
                mapping=['2.0', '3.0'], mfs=310),
        contents=[list(c) for c in CONTENTS], part=part,
        retry=dict(layouts=rby_kind, writes=len(items) - n_cut,
                   lengths={k: dict(old=v[0], new=v[1])
                            for k, v in RETRY[tier].items()},
                   two_sector_type2=[dict(data_area=D, nulls=nulls, old=o,
                                          new=n)
                                     for D, nulls, o, n in RETRY_2SECTOR[tier]],
                   kinds=list(tr.KINDS), variants=list(tr.VARIANTS),
                   all_positions_up_to=tr.SMALL[tier], content_pair=0),
        not_covered='FeliCa Lite-S write_with_mac path')
    return run.finish(exhaustive=(part is None))


def replay(doc):
    d = doc['detail']
    case = tc.from_spec(d['spec'])
    if d.get('part') == 'retry':
        info, results = check_retry(case, d['old_len'], d['new_len'],
                                    d['content'], d.get('tier', 'quick'),
                                    only=(tuple(d['fault']), d['k']))
        rc, sigs = 0, []
        for r, sig, detail in results:
            print('attempt 1 disturbed from command %d (%s) on, %s, %s: %s; '
                  'retry on the same ndef object cut after %d of %d '
                  'state-changing commands (%s): fresh reader sees %s' % (
                      r.fault[0], r.name, r.fault[1], r.fault[2],
                      tr.exc_class(r.exc1), d['k'], r.n2,
                      tr.exc_class(r.exc2), r.classes[0]))
            if sig:
                print('VIOLATION %s' % sig)
                print('  %r' % (detail,))
                sigs.append(sig)
        return c01._verdict(doc, sigs)
    results, n, full = check(case, d['old_len'], d['new_len'], d['content'],
                             only_k=d['k'])
    sigs = []
    for k, cls, sig, detail in results:
        print('cut after %d of %d state-changing commands: reader sees %s' % (
            k, n, cls))
        if sig:
            print('VIOLATION %s' % sig)
            print('  %r' % (detail,))
            sigs.append(sig)
    return c01._verdict(doc, sigs)
