"""C02 - an interrupted NDEF write never leaves a corrupt message on the tag.

For every (layout, old message, new message) a fault-free write on the real
tag class counts the n state-changing commands the simulator executed; then
for every k in 0..n the same write is repeated on a copy of the pre-image with
"the tag leaves the field after the k-th state-changing command" (every later
command times out; whatever the writer raises is ignored).  The tag is brought
back into the field and a fresh activation evaluates `tag.ndef`.

Oracle (exactly the statement): the fresh reader sees ndef None, or
is_readable False, or length 0, or octets == old, or octets == new.  Anything
else - in particular a non-zero length whose content is neither - is a
violation; so is an exception out of the fresh reader.
"""
import time

from mc.evidence import Run, sig_exc
from mc import par
from props import tagcases as tc

PROP = 'C02'
CASES = {}

OLD_TLV = (0, 1, 254, 255, 300)
NEW_TLV = (0, 1, 254, 255, 256, 300, 'cap')
OLD_T3 = (0, 1, 16, 17, 80)
NEW_T3 = (0, 1, 15, 16, 17, 33, 64, 80)
OLD_T4 = (0, 1, 254, 255, 300)
NEW_T4 = (0, 1, 11, 12, 25, 50, 254, 255, 256, 300, 'cap')
CONTENTS = (('old', 'new'), ('tlv', 'ff'))


def layouts(tier):
    """(case, old lengths, new lengths)"""
    out = []
    t2 = [(48, 'ntag210'), (144, 'ntag213'), (504, 'ntag215')]
    rsvs = ['none']
    if tier == 'thorough':
        t2 += [(888, 'ntag216'), (1016, 'generic')]
        rsvs += ['early', 'mid']
    for D, prod in t2:
        for rsv in rsvs:
            for nulls in range(4):              # NDEF TLV offset 0..3 mod 4
                out.append((tc.t2_case(D, prod, nulls, rsv, 2), OLD_TLV, NEW_TLV))
    t1 = [(120, 0x48, 1), (512, 0x4C, 8)]
    if tier == 'thorough':
        t1 += [(256, 0x00, 8)]
    for size, hr1, aligns in t1:
        for rsv in rsvs:
            for nulls in range(aligns):         # offset 0..7 mod 8 (dynamic)
                out.append((tc.t1_case(size, hr1, nulls, rsv, 2), OLD_TLV, NEW_TLV))
    for nbw in range(1, 5):
        out.append((tc.T3Case(4, nbw, 5), OLD_T3, NEW_T3))
        if tier == 'thorough' or nbw in (1, 3):
            out.append((tc.T3Case(4, nbw, 5, emulated=True, spare=0),
                        OLD_T3, NEW_T3))
    for mapping in (0x20, 0x30):
        for mlc in (1, 2, 4, 13, 52, 255, 256):
            techs = 'AB' if tier == 'thorough' else 'A'
            for tech in techs:
                out.append((tc.T4Case(mapping, 255, mlc, 310, 8 if tech == 'A' else 2,
                                      tech), OLD_T4, NEW_T4))
    return out


def expand(case, olds, news):
    cap = case.ref_capacity()
    o = sorted({x for x in olds if x <= cap})
    n = sorted({(cap if x == 'cap' else x) for x in news
                if x == 'cap' or x <= cap})
    return o, n


def messages(cid, old_len, new_len):
    po, pn = CONTENTS[cid]
    return tc.content(po, old_len, 3), tc.content(pn, new_len, 9)


def one_write(case, old, new, k):
    """Run the write with a cut after k state-changing commands (k None: no
    cut).  Returns (sim, number of state-changing commands of the write,
    exception raised by the writer or None)."""
    sim = case.new_sim()
    sim.keep_log = False
    if old:
        case.preload(sim, old)
    clf, tag = case.activate(sim)
    nd = tag.ndef
    if nd is None or nd.octets != old:
        raise AssertionError("harness: pre-image not readable: %s" % case.name)
    mark = sim.n_state
    if k is not None:
        sim.arm_cut(k)
    exc = None
    try:
        nd.octets = new
    except Exception as e:
        exc = e
    return sim, sim.n_state - mark, exc


def observe(case, sim):
    """What a fresh reader sees: (class, octets or None)"""
    sim.enter_field()
    try:
        clf, tag = case.activate(sim)
        nd = tag.ndef if tag is not None else None
        if nd is None:
            return 'none', None
        if not nd.is_readable:
            return 'not-readable', None
        if nd.length == 0:
            return 'empty', b''
        return 'data', nd.octets
    except Exception as e:
        return 'reader-exception:' + sig_exc(e), None


def pclass(case, old_len, new_len):
    """Parameter class of a failing case: what decides where the commit point
    (length field / NLEN / attribute block) lands in the command sequence."""
    if case.kind in ('T1', 'T2'):
        return 'new%s,o%%%d=%d' % ('<255' if new_len < 255 else '>=255',
                                   case.unit, case.pc['o'] % case.unit)
    if case.kind == 'T4':
        nl = case.c.nlen_size
        return 'MLc%s,%s' % ('<nlen_size' if case.mlc < nl else (
            '>255' if case.mlc > 255 else '>=nlen_size'),
            'new+nlen<=MLc' if new_len + nl <= case.mlc else 'new+nlen>MLc')
    return 'nbw=%d' % case.nbw


def check(case, old_len, new_len, cid, only_k=None):
    """All cut points of one (layout, old, new, content).  Returns
    (results [(k, outcome class, violation signature or None, detail)], n)"""
    old, new = messages(cid, old_len, new_len)
    sim, n, exc = one_write(case, old, new, None)
    full = observe(case, sim)
    out = []
    ks = range(0, n + 1) if only_k is None else [only_k]
    for k in ks:
        sim, done, wexc = one_write(case, old, new, k)
        cls, octets = observe(case, sim)
        sig = None
        if cls == 'data':
            if octets == new:
                cls = 'new'
            elif octets == old:
                cls = 'old'
            else:
                cls = 'mixture'
                sig = '%s|write-cut|%s|mixed-content' % (
                    case.kind, pclass(case, old_len, new_len))
        elif cls.startswith('reader-exception'):
            sig = '%s|write-cut|%s|%s' % (case.kind,
                                          pclass(case, old_len, new_len), cls)
        detail = None
        if sig:
            detail = dict(spec=list(case.spec), case=case.name, old_len=old_len,
                          new_len=new_len, content=cid, k=k, n=n,
                          seen_len=None if octets is None else len(octets),
                          seen=None if octets is None else octets[:48],
                          old=old[:24], new=new[:24],
                          writer_exception=repr(wexc),
                          complete_write_exception=repr(exc))
        out.append((k, cls, sig, detail))
    return out, n, full[0]


def work(item):
    ci, old_len, new_len, cid = item
    case, _, _ = CASES['list'][ci]
    run = Run(PROP)
    t0 = time.process_time()
    results, n, full = check(case, old_len, new_len, cid)
    for k, cls, sig, detail in results:
        key = (case.name, old_len, new_len, cid, k)
        if sig is None:
            run.ok(key=key, nontrivial=(0 < k))
        else:
            run.fail(sig, detail, key=key, deviations=1)
        run.count('seen:' + cls.split(':')[0])
        run.outcome((case.kind, cls.split('@')[0]))
    run.count('writes:' + case.kind)
    run.count('cut-points:' + case.kind, n + 1)
    if full not in ('data',):
        run.count('complete-write-not-new:' + full.split(':')[0])
    run.count('cpu_ms', int((time.process_time() - t0) * 1000))
    run.sample(dict(case=case.name, old_len=old_len, new_len=new_len,
                    content=cid, state_changing_commands=n,
                    seen_per_cut=[r[1].split('@')[0] for r in results][:40]))
    return run.export()


def main(tier='quick', seed=0, part=None):
    run = Run(PROP, tier, seed, level='fault_enumeration')
    lays = layouts(tier)
    if part:
        lays = [x for x in lays if x[0].kind in part.split(',')]
    CASES['list'] = lays
    items = []
    for ci, (case, olds, news) in enumerate(lays):
        o, n = expand(case, olds, news)
        for a in o:
            for b in n:
                for cid in range(len(CONTENTS)):
                    items.append((ci, a, b, cid))
    for res in par.pmap(work, par.shuffled(items, seed), chunksize=2):
        run.merge(res)
    run.rule = ("one case = (layout, old length, new length, content pair, cut "
                "point k); k ranges over 0..n where n is the number of "
                "state-changing commands the simulator executed in the "
                "fault-free write; cases with k>0 (at least one command "
                "executed before the cut) count as non-trivial")
    run.assumptions += [
        "a cut happens between commands: a command is either executed "
        "completely by the tag or not at all (no torn page writes)",
        "after the cut every command times out until the tag is brought back "
        "into the field (sim.enter_field)",
        "simulators sim/t?t.py are the trusted base",
    ]
    by_kind = {}
    for c, _, _ in lays:
        by_kind[c.kind] = by_kind.get(c.kind, 0) + 1
    run.extra['bounds'] = dict(
        layouts=by_kind, writes=len(items),
        t12=dict(old=OLD_TLV, new=NEW_TLV, align='T2 offset 0..3 mod 4; T1 '
                 'dynamic offset 0..7 mod 8'),
        t3=dict(old=OLD_T3, new=NEW_T3, nbw='1..4', nmaxb=5),
        t4=dict(old=OLD_T4, new=NEW_T4, mlc=[1, 2, 4, 13, 52, 255, 256],
                mapping=['2.0', '3.0'], mfs=310),
        contents=[list(c) for c in CONTENTS], part=part,
        not_covered='FeliCa Lite-S write_with_mac path')
    return run.finish(exhaustive=(part is None))


def replay(doc):
    d = doc['detail']
    case = tc.from_spec(d['spec'])
    results, n, full = check(case, d['old_len'], d['new_len'], d['content'],
                             only_k=d['k'])
    rc = 0
    for k, cls, sig, detail in results:
        print('cut after %d of %d state-changing commands: reader sees %s' % (
            k, n, cls))
        if sig:
            print('VIOLATION %s' % sig)
            print('  %r' % (detail,))
            rc = 1
    return rc
