"""C15 - The frontend never lets two threads drive the device at once.

Real ContactlessFrontend on a recording driver proxy.  Two (thorough: also
three) application threads run one public entry point each; every schedule
with <= P preemptions is executed.  On every driver call the proxy asserts:
the caller owns clf.lock, no other thread is inside a driver method, the
driver instance has not been closed.  A scheduling point inside every driver
method lets an overlapping call actually be scheduled.
"""
import ast
import itertools
import os
import sys

from mc.evidence import Run, sig_exc
from mc import par, sched, explore, shims

PROP = 'C15'

T2_MEM = bytes.fromhex(
    "04a1b29f" "c3d4e5f6" "00480000" "e1100600"      # uid, lock, CC (48 byte)
    "0300fe00" + "00000000" * 11)


class Violation(Exception):
    pass


class Proxy(object):
    """Stands for a device driver (nfc.clf.device.Device interface)."""
    vendor_name = "Verif"
    product_name = "Proxy"
    path = "proxy:0"

    def __init__(self, rec):
        self.rec = rec
        self.closed = False
        self.inside = None

    def _enter(self, name):
        rec = self.rec
        me = sched.cur()
        fr = sys._getframe(2)
        site = (os.path.basename(fr.f_code.co_filename), fr.f_lineno)
        while fr is not None and not fr.f_code.co_filename.endswith(
                'clf/__init__.py'):
            fr = fr.f_back
        if fr is not None:
            site = ('clf/__init__.py', fr.f_lineno)
        rec['sites'].add((name, site_function(site[1])))
        owner = rec['clf'].lock.owner
        who = me.name if me is not None else 'main'
        locked = owner is me if me is not None else owner == 'main'
        if not locked:
            rec['bad'].append(('unlocked', name, who, site[1]))
        # (who is inside the driver is kept per frontend, not per driver
        # object: device.connect() of a re-open runs the new driver's
        # initialisation on the same hardware)
        inside = rec.get('inside_proxy')
        if inside is not None and inside[0] != who:
            # two threads inside the driver: when one of them came without
            # the lock that call site is the culprit (reported above);
            # both holding the lock would mean the lock itself is broken
            if locked and inside[1]:
                rec['bad'].append(('overlap', name, who, site[1]))
        if self.closed:
            rec['bad'].append(('use-after-close', name, who, site[1]))
        rec['calls'] += 1
        prev, rec['inside_proxy'] = inside, (who, locked)
        try:
            if sched.S is not None:
                sched.S.point('driver', name)
        finally:
            rec['inside_proxy'] = prev

    # -- driver interface ---------------------------------------------------
    def close(self):
        self._enter('close')
        self.closed = True

    def mute(self):
        self._enter('mute')

    def sense_tta(self, target):
        import nfc.clf
        self._enter('sense_tta')
        if not self.rec['tag']:
            return None
        return nfc.clf.RemoteTarget(
            "106A", sens_res=bytearray.fromhex("4400"),
            sel_res=bytearray.fromhex("00"),
            sdd_res=bytearray.fromhex("04a1b2c3d4e5f6"))

    def sense_ttb(self, target):
        self._enter('sense_ttb')
        return None

    def sense_ttf(self, target):
        self._enter('sense_ttf')
        return None

    def sense_dep(self, target):
        self._enter('sense_dep')
        return None

    def listen_tta(self, target, timeout):
        self._enter('listen_tta')
        return None

    def listen_ttb(self, target, timeout):
        self._enter('listen_ttb')
        return None

    def listen_ttf(self, target, timeout):
        import nfc.clf
        self._enter('listen_ttf')
        if not self.rec['reader']:
            return None
        t = nfc.clf.LocalTarget("212F", sensf_res=target.sensf_res)
        t.sensf_req = bytearray.fromhex("00ffff0000")
        idm = bytes(target.sensf_res[1:9])
        t.tt3_cmd = bytearray([0x06]) + idm + bytearray.fromhex(
            "010b00018000")                     # Read w/o enc, block 0
        t.tt3_cmd = bytearray([len(t.tt3_cmd) + 1]) + t.tt3_cmd
        return t

    def listen_dep(self, target, timeout):
        self._enter('listen_dep')
        return None

    def _current(self, name, target):
        # (recorded for C18 part 'race', not judged here: the target handed
        # to the driver is the one the frontend holds at this moment)
        if target is not self.rec['clf'].target:
            self.rec.setdefault('stale', []).append(name)

    def send_cmd_recv_rsp(self, target, data, timeout):
        import nfc.clf
        self._enter('send_cmd_recv_rsp')
        self._current('send_cmd_recv_rsp', target)
        if data and data[0] == 0x30 and len(data) == 2 and data[1] < 16:
            off = 4 * data[1]
            return bytearray((T2_MEM + T2_MEM)[off:off + 16])
        raise nfc.clf.TimeoutError("no answer")

    def send_rsp_recv_cmd(self, target, data, timeout):
        import nfc.clf
        self._enter('send_rsp_recv_cmd')
        self._current('send_rsp_recv_cmd', target)
        raise nfc.clf.BrokenLinkError("reader went away")

    def get_max_send_data_size(self, target):
        self._enter('get_max_send_data_size')
        return 290

    def get_max_recv_data_size(self, target):
        self._enter('get_max_recv_data_size')
        return 290

    def turn_on_led_and_buzzer(self):
        self._enter('turn_on_led_and_buzzer')

    def turn_off_led_and_buzzer(self):
        self._enter('turn_off_led_and_buzzer')


# -- public entry points ------------------------------------------------------
def ep_open(clf, rec):
    return clf.open('proxy')


def ep_close(clf, rec):
    return clf.close()


def ep_exit(clf, rec):
    with clf:
        pass


def ep_exit_kbd(clf, rec):
    try:
        with clf:
            raise KeyboardInterrupt()
    except KeyboardInterrupt:
        pass


def ep_exit_err(clf, rec):
    try:
        with clf:
            raise ValueError("application error inside the with block")
    except ValueError:
        pass


def ep_sense1(clf, rec):
    import nfc.clf
    return clf.sense(nfc.clf.RemoteTarget('106A'))


def ep_sense2(clf, rec):
    import nfc.clf
    return clf.sense(nfc.clf.RemoteTarget('106B'),
                     nfc.clf.RemoteTarget('212F'), iterations=2,
                     interval=0.01)


def ep_listen(clf, rec):
    import nfc.clf
    return clf.listen(nfc.clf.LocalTarget(
        '212F', sensf_res=bytearray.fromhex(
            "0102fe010203040506ffffffffffffffff12fc")), 0.1)


def ep_listen_a(clf, rec):
    import nfc.clf
    return clf.listen(nfc.clf.LocalTarget(
        '106A', sens_res=bytearray.fromhex("0101"),
        sdd_res=bytearray.fromhex("08010203"),
        sel_res=bytearray.fromhex("00")), 0.1)


def ep_listen_b(clf, rec):
    import nfc.clf
    return clf.listen(nfc.clf.LocalTarget('106B'), 0.1)


def ep_exchange(clf, rec):
    return clf.exchange(b'\x30\x00', 0.1)


def ep_max_send(clf, rec):
    return clf.max_send_data_size


def ep_max_recv(clf, rec):
    return clf.max_recv_data_size


def _until(n):
    calls = [0]

    def terminate():
        calls[0] += 1
        return calls[0] > n
    return terminate


def ep_connect_rdwr(clf, rec):
    return clf.connect(rdwr={'targets': ['106A'], 'iterations': 1,
                             'interval': 0.01,
                             'on-connect': lambda tag: True},
                       terminate=_until(2))


def ep_connect_llcp(clf, rec):
    return clf.connect(llcp={'role': None, 'lto': 100, 'sec': False},
                       terminate=_until(1))


def ep_connect_card(clf, rec):
    import nfc.clf

    def on_startup(target):
        target.brty = '212F'
        target.sensf_res = bytearray.fromhex(
            "0102fe010203040506ffffffffffffffff12fc")
        return target
    return clf.connect(card={'on-startup': on_startup, 'timeout': 0.1,
                             'on-connect': lambda tag: True},
                       terminate=_until(2))


EPS = dict((f.__name__[3:], f) for f in [
    ep_open, ep_close, ep_exit, ep_exit_kbd, ep_exit_err, ep_sense1, ep_sense2, ep_listen, ep_listen_a,
    ep_listen_b, ep_exchange,
    ep_max_send, ep_max_recv, ep_connect_rdwr, ep_connect_llcp,
    ep_connect_card])


def execute_driver(cfg, chooser, want_trace=False):
    """The same entry points on a real driver (acr122, pn533, rcs380) over the
    simulated reader of sim/chipsets: every transfer on the host link must be
    made by a thread that holds the frontend lock, and never while another
    thread is inside a transfer (a driver that hands work to a thread of its
    own drives the device outside the lock)."""
    import nfc.clf
    from sim import chipsets
    s = sched.Sched(chooser, max_steps=20000, timer_deviations=False,
                    trace=want_trace)
    rec = dict(bad=[], sites=set(), calls=0, tag=True, reader=True, clf=None,
               results={}, inside=None)
    tag = chipsets.Tag('T2')
    sim = chipsets.Sim(cfg['driver'], tag=tag)
    clf = sim.clf()
    rec['clf'] = clf

    def hook(op, transport):
        me = sched.cur()
        if me is None:
            return                      # set-up on the controller thread
        who = me.name
        owner = clf.lock.owner
        cls = 'app-thread' if who[:1] == 't' and ':' in who else \
            'thread-started-by-driver'
        if owner is not me:
            rec['bad'].append(('unlocked', 'transport.' + op, cls, None))
        if rec['inside'] is not None and rec['inside'] != who:
            rec['bad'].append(('overlap', 'transport.' + op, cls, None))
        rec['calls'] += 1
        prev, rec['inside'] = rec['inside'], who
        try:
            s.point('driver', 'transport.' + op)
        finally:
            rec['inside'] = prev
    sim.transport.io_hook = hook

    def body(i, name):
        def run():
            try:
                rec['results'][i] = ('ret', EPS[name](clf, rec))
            except (IOError, nfc.clf.Error) as e:
                rec['results'][i] = ('err', type(e).__name__)
            except sched.Abort:
                raise
            except BaseException as e:
                rec['results'][i] = ('exc', e)
        return run
    for i, name in enumerate(cfg['eps']):
        s.spawn(body(i, name), 't%d:%s' % (i, name))
    s.run()
    return s, rec


def execute(cfg, chooser, want_trace=False):
    import nfc.clf
    import nfc.clf.device
    if cfg.get('driver'):
        return execute_driver(cfg, chooser, want_trace)
    eps = cfg['eps']
    s = sched.Sched(chooser, max_steps=4000, timer_deviations=False,
                    trace=want_trace)
    rec = dict(bad=[], sites=set(), calls=0, tag=True, reader=True, clf=None,
               results={})
    real_connect = nfc.clf.device.connect

    def proxy_connect(path):
        # device.connect() opens the transport and runs the driver's
        # initialisation commands: a driver call like any other
        p = Proxy(rec)
        p._enter('connect')
        return p
    nfc.clf.device.connect = proxy_connect
    try:
        clf = nfc.clf.ContactlessFrontend()
        rec['clf'] = clf
        clf.open('proxy')
        if cfg.get('target') == 'tag':
            clf.sense(nfc.clf.RemoteTarget('106A'))
        rec['calls'] = 0

        def body(i, name):
            def run():
                try:
                    rec['results'][i] = ('ret', EPS[name](clf, rec))
                except (IOError, nfc.clf.Error) as e:
                    rec['results'][i] = ('err', type(e).__name__)
                except sched.Abort:
                    raise
                except BaseException as e:
                    rec['results'][i] = ('exc', e)
            return run
        for i, name in enumerate(eps):
            s.spawn(body(i, name), 't%d:%s' % (i, name))
        s.run()
    finally:
        nfc.clf.device.connect = real_connect
    return s, rec


def judge(cfg, s, rec):
    bad = []
    for kind, name, who, line in rec['bad']:
        if line is None:        # host-link transfer of a real driver
            bad.append(('%s|%s|%s|%s' % (kind, name, cfg['driver'], who),
                        dict(thread=who)))
            continue
        bad.append(('%s|device.%s|clf/__init__.py:%s' % (
            kind, name, site_function(line)), dict(thread=who, line=line)))
    if s.verdict in ('deadlock', 'horizon'):
        bad.append(('harness|%s' % s.verdict, dict(stuck=s.stuck())))
    return bad


_FUNCS = []


def site_function(line):
    """Name of the frontend method containing a line (stable signature)."""
    if not _FUNCS:
        src = os.path.join(shims.SRC, 'nfc', 'clf', '__init__.py')
        tree = ast.parse(open(src).read())
        for node in ast.walk(tree):
            if isinstance(node, ast.FunctionDef):
                _FUNCS.append((node.lineno, node.end_lineno, node.name))
    best = None
    for lo, hi, name in _FUNCS:
        if lo <= line <= hi and (best is None or lo > best[0]):
            best = (lo, name)
    return best[1] if best else '?'


def static_sites():
    """Every syntactic call self.device.<m>(...) / bound-method use in the
    frontend (coverage cross-check, not a verdict)."""
    src = os.path.join(shims.SRC, 'nfc', 'clf', '__init__.py')
    tree = ast.parse(open(src).read())
    out = set()
    for node in ast.walk(tree):
        if isinstance(node, ast.Attribute) and isinstance(
                node.value, ast.Attribute) and node.value.attr == 'device' \
                and isinstance(node.value.value, ast.Name) \
                and node.value.value.id == 'self':
            out.add((node.attr, site_function(node.lineno)))
    return out


def run_cfg(arg):
    cfg, bound, cap = arg
    run = Run(PROP)
    stats = explore.Stats()
    sites = set()

    def visit(ch, res):
        s, rec = res
        sites.update(rec['sites'])
        bad = judge(cfg, s, rec)
        key = (repr(cfg), tuple(ch.choices))
        run.outcome((tuple(sorted((i, r[0]) for i, r in
                                  rec['results'].items())), rec['calls'] > 0))
        if not bad:
            run.ok(key, nontrivial=rec['calls'] > 0)
        seen = set()
        for sig, detail in bad:
            if sig in seen:
                continue
            seen.add(sig)
            run.fail(sig, dict(detail, cfg=cfg, choices=ch.choices), key,
                     deviations=ch.cost)
        if len(seen) > 1:
            run.evaluations -= len(seen) - 1

    explore.explore(lambda ch: execute(cfg, ch), bound, visit, max_execs=cap,
                    stats=stats)
    run.count('executions', stats.executions)
    run.count('choice_points', stats.choice_points)
    run.count('capped_configs', 1 if stats.capped else 0)
    if cfg['eps'] == ['exchange', 'close'] and not cfg.get('driver'):
        run.sample(dict(cfg=cfg, executions=stats.executions,
                        max_choice_points=stats.max_depth))
    out = run.export()
    out['sites'] = sites
    return out


def configs(tier):
    out = []
    names = sorted(EPS)
    for target in ('none', 'tag'):
        for a, b in itertools.product(names, repeat=2):
            out.append(dict(eps=[a, b], target=target))
    # real drivers over the simulated reader (host-link transfers)
    for drv in ('acr122', 'pn533', 'rcs380'):
        for eps in (['connect_rdwr'], ['connect_rdwr', 'exchange'],
                    ['connect_rdwr', 'close'], ['sense1', 'exchange'],
                    ['sense1', 'max_recv'], ['exchange', 'close']):
            out.append(dict(eps=eps, target='tag', driver=drv, bound=1))
    if tier == 'thorough':
        trio = ['close', 'exchange', 'sense1', 'connect_rdwr', 'open',
                'max_send']
        for a, b, c in itertools.product(trio, repeat=3):
            out.append(dict(eps=[a, b, c], target='tag', bound=2))
    return out


def main(tier='quick', seed=0, part=None):
    run = Run(PROP, tier, seed, level='model_checking')
    bound = 3 if tier == 'thorough' else 2
    cap = 200000 if tier == 'thorough' else 20000
    cfgs = configs(tier)
    if part:
        cfgs = [c for c in cfgs if part in repr(c)]
    sites = set()
    for res in par.pmap(run_cfg, [(c, c.get('bound', bound), cap)
                                  for c in par.shuffled(cfgs, seed)]):
        sites |= res.pop('sites')
        run.merge(res)
    static = static_sites()
    reached = set()
    for n, f in sites:
        reached.add((n, f))
        if f == 'exchange':      # bound method fetched, then called
            reached.add((n, 'exchange'))
    unreached = sorted(x for x in static if x not in reached)
    capped = run.counters.get('capped_configs', 0)
    run.rule = (
        "scenario = ordered pair%s of public entry points %s x initial "
        "target {none, tag}; per scenario every schedule with <= %d "
        "preemptions (points: lock acquire, sleeps, inside every driver "
        "method); distinct = (scenario, choice list); non-trivial = at least "
        "one driver call made; plus %d scenarios on the real acr122 / pn533 "
        "/ rcs380 drivers over the simulated reader (1 preemption), where "
        "every host-link transfer is checked" % (
            ' (and triple)' if tier == 'thorough' else '', sorted(EPS), bound,
            len([c for c in cfgs if c.get('driver')])))
    run.assumptions += [
        "the driver is a recording proxy; driver calls are made through the "
        "real ContactlessFrontend code paths, tag activation and card "
        "emulation use the real nfc.tag code on canned answers",
        "participants: 2 (thorough also 3) application threads; in the real "
        "driver scenarios also any thread the driver itself starts"]
    return run.finish(coverage=dict(
        states=run.counters.get('choice_points', 0),
        transitions=run.counters.get('choice_points', 0),
        traces_validated_against_impl=run.counters.get('executions', 0),
        scenarios=len(cfgs), preemption_bound_completed=bound,
        scenarios_capped=capped,
        syntactic_device_call_sites=len(static),
        call_sites_reached=len([x for x in static if x in reached]),
        call_sites_unreached=unreached), exhaustive=capped == 0)


def replay(doc):
    d = doc['detail']
    out = []
    for _ in range(2):
        s, rec = execute(d['cfg'], sched.Chooser(d['choices']), True)
        out.append((sorted(set(b[0] for b in judge(d['cfg'], s, rec))),
                    s.trace))
    if out[0] != out[1]:
        print("replay: NOT deterministic")
        return 2
    print("replay:", out[0][0])
    return 1 if doc['signature'] in out[0][0] else 0
