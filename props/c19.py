"""C19 - Peer-to-peer activation negotiates limits both sides then obey.

Two complete stacks (sim/stack.py: real connect(llcp=...) -> real nfc.clf.udp
driver on in-memory sockets -> real NFC-DEP ATR/PSL -> real LLC PAX) for every
point of the option grid; then three link exchanges with a maximal UI PDU each
way.  Every datagram on the virtual air is logged, so bit rate and NFC-DEP
frame sizes are observed directly.
"""
import itertools

from mc.evidence import Run, sig_exc
from mc import par
from sim import stack

PROP = 'C19'
LR = (64, 128, 192, 254)


def clamp(v, lo, hi):
    return min(max(lo, v), hi)


def run_case(case):
    import nfc.llcp.pdu as pdu
    ini, tgt = dict(case['ini']), dict(case['tgt'])
    ini.setdefault('sec', False)
    tgt.setdefault('sec', False)
    nad = ini.pop('nad', None)
    did = ini.pop('did', None)
    s, ctx, net = stack.run_pair(ini, tgt, horizon=20.0)
    seen = dict(ini=[], tgt=[])

    def agg_round(llc, first):
        """Queue three datagrams whose aggregate is d octets off the exact fit
        and exchange what collect() returns; every collected frame must fit
        the peer's MIU (the information field is the encoding minus the
        2-octet header)."""
        import nfc.llcp
        m = llc.cfg['send-miu']
        socks = []
        for addr in (40, 42, 43):
            sock = nfc.llcp.Socket(llc, nfc.llcp.LOGICAL_DATA_LINK)
            sock.bind(addr)
            socks.append(sock)
        a = (m - 12) // 3
        p = first
        # the three datagrams wait on one access point, then on three
        for d, spread in ((d, k) for k in (0, 1) for d in (-1, 0, 1, 2)):
            for i, n in enumerate((a, a, m - 12 - 2 * a + d)):
                socks[i * spread].sendto(bytes([0x30 + d & 0xFF]) * n, 41,
                                         nfc.llcp.MSG_DONTWAIT)
            for _ in range(3):
                frame = llc.collect() or pdu.Symmetry()
                size = len(pdu.encode(frame)) - 2
                agg['max'] = max(agg['max'], size)
                agg['agf'] += frame.name == 'AGF'
                if size > m:
                    agg['bad'].append((llc.cfg['send-miu'], d, size,
                                       frame.name + ('|several-saps' if spread
                                                     else '')))
                p = llc.exchange(frame, 1.0)
        return p
    agg = dict(max=0, agf=0, bad=[])

    def sdp_round(llc):
        """Two name lookups pending at once whose requests take d octets
        more than the peer's MIU together: what collect() returns must fit
        (the link is down already, the lookups end with the shutdown)."""
        m = llc.cfg['send-miu']
        sdp = llc.sap[1]
        if sdp is None or m > 480:      # names are at most 255 octets
            return
        for d in (0, 1, 2):
            total = m + d - 6
            la = total // 2 - 1
            names = [b'urn:nfc:sn:' + b'%c' % (0x61 + i) * (n - 11)
                     for i, n in enumerate((la, total - la))]
            for k, name in enumerate(names):
                sdp.sdreq.append((0x40 + 2 * d + k, name))
            for _ in range(3):
                frame = llc.collect() or pdu.Symmetry()
                size = len(pdu.encode(frame)) - 2
                if size > m:
                    agg['bad'].append((m, d, size, frame.name + '|lookups'))
            sdp.sdreq.clear()

    def after_ini(clf, ctx):
        llc = ctx['llc']['ini']
        n = llc.cfg['send-miu']
        sdp_round(llc)
        if llc.cfg['send-agf']:
            agg_round(llc, None)
        for k in range(3):
            p = llc.exchange(pdu.UnnumberedInformation(
                32, 33, data=bytes([0x40 + k]) * n), 1.0)
            seen['ini'].append(None if p is None else (p.name, len(
                getattr(p, 'data', b''))))
        ctx['stop'] = True

    def after_tgt(clf, ctx):
        llc = ctx['llc']['tgt']
        n = llc.cfg['send-miu']
        p = llc.exchange(None, 2.0)
        if ctx['llc']['ini'].cfg['send-agf']:
            # the initiator runs 24 aggregation exchanges first
            if llc.cfg['send-agf']:
                p = agg_round(llc, p)
            else:
                for _ in range(24):
                    p = llc.exchange(pdu.Symmetry(), 1.0)
        elif llc.cfg['send-agf']:
            pass      # nothing to answer: aggregation is checked on the
            #           initiator side only when it is enabled there
        for k in range(3):
            seen['tgt'].append(None if p is None else (p.name, len(
                getattr(p, 'data', b''))))
            p = llc.exchange(pdu.UnnumberedInformation(
                33, 32, data=bytes([0x60 + k]) * n), 1.0)
        ctx['stop'] = True

    ctx['after_ini'], ctx['after_tgt'] = after_ini, after_tgt
    stack.NAD[0] = nad
    stack.DID[0] = did
    try:
        s.run()
    finally:
        stack.NAD[0] = None
        stack.DID[0] = None
    bad, outcome = judge(case, s, ctx, net, seen)
    for miu, d, size, name in agg['bad'][:1]:
        bad.append(('traffic|llc-frame-exceeds-miu|%s' % name,
                    dict(send_miu=miu, offset_from_exact_fit=d, size=size)))
    if not isinstance(outcome, tuple):
        outcome = (outcome,)
    return bad, outcome + (agg['agf'] > 0,)


def run_mute_case(case):
    """The Target's data responses are lost from some point on while it still
    answers attention requests: the Initiator's exchange must end within the
    link timeout the Target announced (plus one attention round), whatever
    recovery it attempts - "all later traffic stays within those limits"."""
    import nfc.llcp.pdu as pdu
    import nfc.clf
    ini, tgt = dict(case['ini']), dict(case['tgt'])
    ini.setdefault('sec', False)
    tgt.setdefault('sec', False)
    state = dict(mute=False, dropped=0)

    def fate(net, src, dst, data):
        if not state['mute'] or src != stack.PORT:
            return data
        parts = data.split()
        if len(parts) != 2:
            return data
        f = bytes.fromhex(parts[1].decode())
        body = f[1:] if parts[0] == b'106A' else f
        if bytes(body[1:3]) == b'\xd5\x07' and body[3] & 0xE0 == 0x00:
            state['dropped'] += 1
            return None                  # an information PDU response: lost
        return data
    s, ctx, net = stack.run_pair(ini, tgt, horizon=60.0, fate=fate)
    out = {}

    def after_ini(clf, ctx):
        llc = ctx['llc']['ini']
        for k in range(2):
            llc.exchange(pdu.Symmetry(), 1.0)
        state['mute'] = True
        t0 = s.now
        try:
            # (the receive timeout of the Initiator run loop)
            r = llc.exchange(pdu.Symmetry(),
                             1E-3 * (llc.cfg['recv-lto'] + 10))
            out['res'] = ('ret', None if r is None else r.name)
        except nfc.clf.CommunicationError as e:
            out['res'] = ('err', type(e).__name__)
        out['elapsed'] = s.now - t0
        out['lto'] = llc.cfg['recv-lto'] / 1000.0
        out['rwt'] = llc.mac.rwt
        ctx['stop'] = True

    def after_tgt(clf, ctx):
        llc = ctx['llc']['tgt']
        p = llc.exchange(None, 2.0)
        try:
            while p is not None and not ctx['stop']:
                p = llc.exchange(pdu.Symmetry(), 2.0)
        except nfc.clf.CommunicationError:
            pass
        ctx['stop'] = True
    ctx['after_ini'], ctx['after_tgt'] = after_ini, after_tgt
    s.run()
    bad = []
    for name in ('ini', 'tgt'):
        if name in ctx['error']:
            e = ctx['error'][name]
            bad.append(('mute|raises|%s|%s' % (name, sig_exc(e)),
                        dict(error=repr(e))))
    if s.verdict != 'finished':
        bad.append(('mute|stuck|%s' % s.verdict, dict(stuck=s.stuck())))
    if not bad and 'elapsed' in out:
        limit = out['lto'] + 0.010 + 3 * out['rwt'] + 0.05
        if out['res'][0] == 'ret' and out['res'][1] is not None:
            bad.append(('mute|exchange-returned-a-pdu-that-was-never-received',
                        dict(out)))
        elif out['elapsed'] > limit:
            bad.append(('mute|initiator-waits-beyond-link-timeout',
                        dict(elapsed=round(out['elapsed'], 4),
                             announced_lto=out['lto'], rwt=round(out['rwt'], 4),
                             limit=round(limit, 4), dropped=state['dropped'])))
    elif not bad:
        bad.append(('mute|no-activation', dict(result=repr(ctx['result']))))
    return bad, ('mute', out.get('res'), state['dropped'] > 0)



def judge(case, s, ctx, net, seen):
    """-> (list of (signature, detail), outcome)"""
    import nfc.llcp.llc
    ini, tgt = case['ini'], case['tgt']
    bad = []
    for name in ('ini', 'tgt'):
        if name in ctx['error']:
            e = ctx['error'][name]
            bad.append(('raises|%s|%s' % (name, sig_exc(e)),
                        dict(error=repr(e))))
    if s.verdict != 'finished':
        bad.append(('stuck|%s' % s.verdict, dict(stuck=s.stuck())))
    A, B = ctx['llc'].get('ini'), ctx['llc'].get('tgt')
    if bad:
        return bad, 'error'
    if A is None or B is None or not isinstance(
            ctx['result'].get('ini'), nfc.llcp.llc.LogicalLinkController) \
            or not isinstance(ctx['result'].get('tgt'),
                              nfc.llcp.llc.LogicalLinkController):
        return [('no-activation', dict(result=repr(ctx['result'])))], 'noact'
    exp = []
    # LLCP parameters: what each side sends is limited by what the peer announced
    exp.append(('ini.send-miu', A.cfg['send-miu'], B.cfg['recv-miu']))
    exp.append(('tgt.send-miu', B.cfg['send-miu'], A.cfg['recv-miu']))
    exp.append(('ini.send-miu=opt', A.cfg['send-miu'], tgt.get('miu', 248)))
    exp.append(('tgt.send-miu=opt', B.cfg['send-miu'], ini.get('miu', 248)))
    exp.append(('ini.recv-lto', A.cfg['recv-lto'], tgt.get('lto', 500)))
    exp.append(('tgt.recv-lto', B.cfg['recv-lto'], ini.get('lto', 500)))
    exp.append(('ini.send-wks', A.cfg['send-wks'], 3))
    exp.append(('tgt.send-wks', B.cfg['send-wks'], 3))
    exp.append(('ini.send-lsc', A.cfg['send-lsc'], tgt.get('lsc', 3)))
    exp.append(('tgt.send-lsc', B.cfg['send-lsc'], ini.get('lsc', 3)))
    # NFC-DEP
    lri = clamp(ini.get('lri', 3), 0, 3)
    lrt = clamp(tgt.get('lrt', 3), 0, 3)
    rwt = clamp(tgt.get('rwt', 8), 0, 14)
    brs = clamp(ini.get('brs', 2), 0, 2)
    mi, mt = A.mac, B.mac
    if ini.get('nad') is None:
        hdr = 3 + (ini.get('did') is not None)      # the DID octet counts
        exp.append(('ini.dep.miu', mi.miu, LR[lrt] - hdr))
        exp.append(('tgt.dep.miu', mt.miu, LR[lri] - hdr))
    # (with a node address in use the frame size oracle below decides)
    exp.append(('ini.dep.rwt', round(mi.rwt, 9),
                round(4096 / 13.56E6 * 2 ** rwt, 9)))
    # the Initiator's target object says at which rate it sends and listens
    # (drivers program the radio from both values)
    tgt_obj = getattr(mi, 'target', None)
    if tgt_obj is not None and hasattr(tgt_obj, 'brty_send'):
        exp.append(('ini.target.brty_recv=brty_send', tgt_obj.brty_recv,
                    tgt_obj.brty_send))
    for what, got, want in exp:
        if got != want:
            bad.append(('negotiation|%s' % what, dict(got=got, want=want)))
    # air: bit rate after PSL and frame sizes
    frames = stack.parse_air(net.log)
    dep = [(src, brty, f) for src, dst, brty, f in frames
           if dep_code(brty, f) in (b'\xd4\x06', b'\xd5\x07')]
    want_brty = ('106A', '212F', '424F')[brs]
    # initiator starts at 106A (passive search order 106A, then 212F)
    rates = sorted(set(b for _, b, _ in dep))
    if not dep:
        bad.append(('air|no-dep-frames', {}))
    first_brty = frames[0][2] if frames else None
    start_idx = ('106A', '212F', '424F').index(dep_start(frames)) \
        if dep_start(frames) else 0
    if brs > start_idx:
        ok_rate = rates == [want_brty]
    else:
        ok_rate = rates == [dep_start(frames)]
    if dep and not ok_rate:
        bad.append(('air|bitrate', dict(rates=rates, brs=brs,
                                        start=dep_start(frames))))
    n_max = 0
    for src, brty, f in dep:
        body = f[1:] if brty == '106A' else f
        ln = body[0]
        if ln != len(body):
            bad.append(('air|len-byte', dict(frame=f)))
            break
        to_target = src != stack.PORT
        limit = LR[lrt] if to_target else LR[lri]
        n_max = max(n_max, ln - 1)
        if ln - 1 > limit:
            bad.append(('air|frame-exceeds-LR|%s' % (
                'to-target' if to_target else 'to-initiator'),
                dict(transport_bytes=ln - 1, LR=limit, frame=f[:16])))
            break
    # the maximal UI PDUs crossed intact
    n_i, n_t = A.cfg['send-miu'], B.cfg['send-miu']
    if seen['tgt'] != [('UI', n_i)] * 3:
        bad.append(('traffic|ini->tgt', dict(seen=seen['tgt'], size=n_i)))
    if seen['ini'] != [('UI', n_t)] * 3:
        bad.append(('traffic|tgt->ini', dict(seen=seen['ini'], size=n_t)))
    return bad, ('ok', rates[0] if rates else None, mi.miu, mt.miu)


def dep_code(brty, f):
    body = f[1:] if brty == '106A' else f
    return bytes(body[1:3])


def dep_start(frames):
    """bit rate at which ATR_REQ was sent"""
    for src, dst, brty, f in frames:
        if dep_code(brty, f) == b'\xd4\x00':
            return brty
    return None


def work(chunk):
    run = Run(PROP)
    for case in chunk:
        bad, outcome = run_mute_case(case) if case.get('mute') \
            else run_case(case)
        key = repr(case)
        run.outcome(outcome)
        if not bad:
            run.ok(key)
        seen = set()
        for sig, detail in bad:
            sig = '%s|%s' % (sig, case_class(case))
            if sig not in seen:
                seen.add(sig)
                run.fail(sig, dict(detail, case=case), key)
        if len(seen) > 1:
            run.evaluations -= len(seen) - 1
    run.sample(chunk[0])
    return run.export()


def case_class(case):
    """Smallest parameter class for signatures: which options are out of the
    default/range."""
    i, t = case['ini'], case['tgt']
    cls = []
    if i.get('brs', 2) not in (0, 1, 2) or i.get('lri', 3) not in range(4) \
            or t.get('lrt', 3) not in range(4) or t.get('rwt', 8) not in range(15):
        cls.append('out-of-range-option')
    if i.get('miu', 248) > 2175 or t.get('miu', 248) > 2175:
        cls.append('miu>2175')
    if i.get('miu', 248) < 128 or t.get('miu', 248) < 128:
        cls.append('miu<128')
    return ','.join(cls) or 'in-range'


def cases(tier):
    thorough = tier == 'thorough'
    out = []
    rwts = range(15) if thorough else (0, 8, 14)
    mius = (128, 129, 248, 1024, 2175) if thorough else (128, 2175)
    ltos = (100, 500, 2550) if thorough else (100, 500)
    for brs, lri, lrt, rwt in itertools.product(range(3), range(4), range(4),
                                                rwts):
        for mi, mt in itertools.product(mius, repeat=2):
            for lto_i, lto_t in (itertools.product(ltos, repeat=2)
                                 if not thorough else
                                 [(a, b) for a in ltos for b in ltos]):
                agf = (brs + lri + lrt) % 2 == 0
                lsc = (rwt + lri) % 4
                out.append(dict(
                    ini=dict(brs=brs, lri=lri, miu=mi, lto=lto_i, agf=agf,
                             lsc=(lsc + 1) % 4),
                    tgt=dict(lrt=lrt, rwt=rwt, miu=mt, lto=lto_t,
                             agf=not agf, lsc=lsc)))
    # no role given on the side that becomes Initiator: connect() tries the
    # Target role first (nobody polls), then the Initiator role - with the
    # same options
    for brs, lri, lrt in itertools.product(range(3), range(4), range(4)):
        out.append(dict(
            ini=dict(role=None, brs=brs, lri=lri, lrt=(lrt + 1) % 4, rwt=9,
                     miu=1024, agf=True),
            tgt=dict(lrt=lrt, rwt=8, miu=2175, agf=True)))
    # the Initiator uses a node address (NAD): one octet more in its frames
    # (and in the Target's, if it echoes the NAD) - the frames on the air
    # stay within the announced length reduction values
    for brs, lri, lrt in itertools.product((0, 2), range(4), range(4)):
        out.append(dict(ini=dict(nad=1, brs=brs, lri=lri, miu=2175, agf=True),
                        tgt=dict(lrt=lrt, rwt=8, miu=2175, agf=True)))
    # the Initiator assigns a device identifier (DID): one octet more in the
    # frames of both sides, the payload limits shrink by one
    for did in (1, 14):
        for brs, lri, lrt in itertools.product((0, 2), range(4), range(4)):
            out.append(dict(ini=dict(did=did, brs=brs, lri=lri, miu=2175,
                                     agf=True),
                            tgt=dict(lrt=lrt, rwt=8, miu=2175, agf=True)))
    # data responses lost for good while attention is still answered: the
    # Initiator gives up within the link timeout the Target announced
    for rwt in (4, 8, 12):
        for lto in (100, 500, 1500):
            for brs in (0, 2):
                out.append(dict(mute=True, ini=dict(brs=brs, miu=248, lto=500),
                                tgt=dict(rwt=rwt, miu=248, lto=lto)))
    # out-of-range option values are clamped
    for brs, lri, lrt, rwt in ((3, -1, 4, 15), (-1, 4, -1, -1), (5, 3, 3, 20)):
        out.append(dict(ini=dict(brs=brs, lri=lri), tgt=dict(lrt=lrt, rwt=rwt)))
    # all four lsc values on both sides, agf both ways
    for li, lt in itertools.product(range(4), repeat=2):
        for agf in (True, False):
            out.append(dict(ini=dict(lsc=li, agf=agf), tgt=dict(lsc=lt,
                                                                agf=agf)))
    return out


def main(tier='quick', seed=0, part=None):
    run = Run(PROP, tier, seed, level='exploration')
    cs = cases(tier)
    for res in par.pmap(work, par.chunks(par.shuffled(cs, seed), 128)):
        run.merge(res)
    run.rule = (
        "full grid brs 0..2 x lri 0..3 x lrt 0..3 x rwt %s x miu %s per side x "
        "lto %s per side (agf, lsc derived so that all values occur), plus "
        "out-of-range option values, all lsc pairs, and brs x lri x lrt with no "
        "role given on the side that ends up as Initiator, and rwt x lto x brs "
        "with the Target's data responses lost for good while attention is "
        "still answered (the Initiator gives up within the announced link "
        "timeout + 3 RWT); one whole-stack "
        "activation + 3 maximal UI exchanges per point; distinct = distinct "
        "option pair; all are non-trivial (a link is activated)" % (
            'all 15' if tier == 'thorough' else '{0,8,14}',
            '{128,129,248,1024,2175}' if tier == 'thorough' else '{128,2175}',
            '{100,500,2550}' if tier == 'thorough' else '{100,500}'))
    run.assumptions += [
        "the radio is the virtual air under the unmodified nfc.clf.udp driver "
        "(passive activation at 106A); default schedule, no faults",
        "both devices run nfcpy"]
    return run.finish(exhaustive=True)


def replay(doc):
    case = doc['detail']['case']
    bad, outcome = run_mute_case(case) if case.get('mute') else run_case(case)
    print('replay:', [b[0] for b in bad], outcome)
    return 1 if bad else 0
