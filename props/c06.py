"""C06 - SNEP and handover carry NDEF messages intact through fragmentation.

Two complete stacks (sim/stack.py) from connect() down to the (virtual) radio
frames: a real SnepServer/HandoverServer thread on one device, the real
SnepClient/HandoverClient on the other.  For every point of the size/MIU grid
the octets seen by the server application and returned to the client are
compared with what was sent; with an acceptable length below the message
size the protocol's error must come back and the application must not see
any part of the message.
"""
import itertools

from mc.evidence import Run, sig_exc
from mc import par, sched
from sim import stack

PROP = 'C06'
BIG = 0x100000


def filler(n, k=0):
    return bytes(((i * 13 + 7 * k) & 0x7F) | 0x01 for i in range(n))


def make_octets(size, k=0):
    """A canonical NDEF message of exactly `size` octets (size >= 3)."""
    import ndef
    if 3 <= size <= 258:
        recs = [ndef.Record('unknown', '', filler(size - 3, k))]
    elif size >= 262:
        recs = [ndef.Record('unknown', '', filler(size - 6, k))]
    else:
        recs = [ndef.Record('unknown', '', filler(100, k)),
                ndef.Record('unknown', '', filler(size - 106, k + 1))]
    octets = b''.join(ndef.message_encoder(recs))
    assert len(octets) == size, (size, len(octets))
    return octets


def make_handover(size, kind, k=0, split=None):
    """Hr/Hs message of exactly `size` octets: the handover record plus a
    filler record.  split=n: the records in front of the last one take
    exactly n octets (a fragment boundary that is a record boundary)."""
    import ndef
    head = (ndef.HandoverRequestRecord('1.2', 0x1234 + k) if kind == 'Hr'
            else ndef.HandoverSelectRecord('1.2'))
    base = len(b''.join(ndef.message_encoder([head])))
    if split is not None:
        def rec(n, j):
            return ndef.Record('unknown', '', filler(
                n - 3 if n <= 258 else n - 6, j))
        mid, last = split - base, size - split
        if not (3 <= mid and 3 <= last) or 258 < mid < 262 or 258 < last < 262:
            raise ValueError((size, split))
        octets = b''.join(ndef.message_encoder(
            [head, rec(mid, k), rec(last, k + 1)]))
        first = b''.join(list(ndef.message_encoder(
            [head, rec(mid, k), rec(last, k + 1)]))[:2])
        assert len(octets) == size and len(first) == split
        return octets
    rest = size - base
    if rest < 3:
        raise ValueError(size)
    if rest <= 258:
        recs = [head, ndef.Record('unknown', '', filler(rest - 3, k))]
    elif rest >= 262:
        recs = [head, ndef.Record('unknown', '', filler(rest - 6, k))]
    else:
        recs = [head, ndef.Record('unknown', '', filler(100, k)),
                ndef.Record('unknown', '', filler(rest - 106, k + 1))]
    octets = b''.join(ndef.message_encoder(recs))
    assert len(octets) == size, (size, len(octets))
    return octets


def run_case(case):
    import ndef
    import nfc.snep
    import nfc.handover
    import nfc.llcp
    kind, size = case['kind'], case['size']
    srv_role = 'tgt' if case['client'] == 'ini' else 'ini'
    obs = dict(put=[], get=[], hreq=[], client=None, responses=[])
    limit = case.get('limit', BIG)

    if kind in ('put', 'get'):
        msg = make_octets(size)
    else:
        msg = make_handover(size, 'Hr', split=case.get('split'))
        msg2 = make_handover(size + 1, 'Hr', 3, split=case.get('split'))
    resp_octets = {}
    if kind == 'get':
        resp_octets[0] = make_octets(size, 5)
    if kind in ('ho', 'ho2'):
        resp_octets[0] = make_handover(max(size - 2, 30), 'Hs', 9)
        resp_octets[1] = make_handover(max(size - 1, 30), 'Hs', 11)
        if case.get('rsplit'):
            # a select message in which a record ends exactly with the
            # k-th fragment the client receives
            resp_octets[0] = make_handover(case['rsplit'] + case['rtail'],
                                           'Hs', 9, split=case['rsplit'])

    class Snep(nfc.snep.SnepServer):
        def process_put_request(self, records):
            obs['put'].append(b''.join(ndef.message_encoder(records)))
            return 0x81

        def process_get_request(self, records):
            obs['get'].append(b''.join(ndef.message_encoder(records)))
            return list(ndef.message_decoder(resp_octets[0], known_types={}))

    class Ho(nfc.handover.HandoverServer):
        def process_handover_request_message(self, records):
            n = len(obs['hreq'])
            obs['hreq'].append(b''.join(ndef.message_encoder(records)))
            return list(ndef.message_decoder(resp_octets[min(n, 1)]))

    slow = {'llc': None}
    orig_recv = nfc.llcp.Socket.recv

    def slow_recv(self):
        # a slow consumer: the application thread of one side takes its time
        # before every recv() while the link keeps running
        if self.llc is slow['llc']:
            sched.vsleep(0.03)
        return orig_recv(self)

    class Snep2(nfc.snep.SnepServer):
        def process_put_request(self, records):
            obs['put2'].append(b''.join(ndef.message_encoder(records)))
            return 0x81
    obs['put2'] = []

    def srv_startup(llc):
        if case.get('slow') == 'server':
            slow['llc'] = llc
        if kind in ('put', 'get'):
            obs['srv'] = Snep(llc, max_acceptable_length=(
                limit if kind == 'put' else BIG),
                recv_miu=case['srv_miu'], recv_buf=case['srv_rw'])
            if case.get('reuse'):
                obs['srv2'] = Snep2(llc, 'urn:nfc:xsn:verif.example:snep',
                                    recv_miu=case['srv_miu'],
                                    recv_buf=case['srv_rw'])
        else:
            obs['srv'] = Ho(llc, recv_miu=case['srv_miu'],
                            recv_buf=case['srv_rw'])
        return llc

    def srv_app(llc, ctx):
        obs['srv'].start()
        if 'srv2' in obs:
            obs['srv2'].start()
        return True

    def cli_app(llc, ctx):
        if case.get('slow') == 'client':
            slow['llc'] = llc

        def work():
            try:
                if kind == 'put' and case.get('reuse'):
                    # ONE client object: requests over temporary connections
                    # to the default server and over an explicit connection
                    # to a second service, in the order given
                    c = nfc.snep.SnepClient(llc)
                    r = []
                    for i, step in enumerate(case['reuse']):
                        if step == 'connect2':
                            c.connect('urn:nfc:xsn:verif.example:snep')
                        elif step == 'close':
                            c.close()
                        else:
                            r.append(c.put_octets(make_octets(size + i, i)))
                    if c.socket is not None:
                        c.close()
                    obs['client'] = ('ret', r)
                elif kind == 'put':
                    c = nfc.snep.SnepClient(llc)
                    obs['client'] = ('ret', c.put_octets(msg))
                elif kind == 'get' and case.get('other_miu'):
                    # a second connection to the same server (another
                    # receive MIU, kept open and idle) while the Get runs
                    c = nfc.snep.SnepClient(
                        llc, max_ndef_msg_recv_size=limit)
                    other = nfc.llcp.Socket(llc,
                                            nfc.llcp.DATA_LINK_CONNECTION)
                    other.setsockopt(nfc.llcp.SO_RCVMIU, case['other_miu'])
                    if case['order'] == 'other-first':
                        other.connect('urn:nfc:sn:snep')
                        c.connect('urn:nfc:sn:snep')
                    else:
                        c.connect('urn:nfc:sn:snep')
                        other.connect('urn:nfc:sn:snep')
                    r = c.get_octets(make_octets(12, 2))
                    c.close()
                    other.close()
                    obs['client'] = ('ret', r)
                elif kind == 'get':
                    c = nfc.snep.SnepClient(
                        llc, max_ndef_msg_recv_size=limit)
                    obs['client'] = ('ret', c.get_octets(make_octets(12, 2)))
                else:
                    h = nfc.handover.HandoverClient(llc)
                    h.connect(recv_miu=case['cli_miu'], recv_buf=case['cli_rw'])
                    r = [h.send_octets(msg), h.recv_octets(timeout=3.0)]
                    if kind == 'ho2':
                        r += [h.send_octets(msg2), h.recv_octets(timeout=3.0)]
                    h.close()
                    obs['client'] = ('ret', r)
            except nfc.snep.SnepError as e:
                obs['client'] = ('SnepError', e.errno)
            except nfc.llcp.Error as e:
                obs['client'] = ('llcp.Error', e.errno)
            except sched.Abort:
                raise
            except BaseException as e:
                obs['client'] = ('exc', e)
            finally:
                ctx['stop'] = True
        sched.VThread(target=work, name='client').start()
        return True

    side_opts = dict(
        ini=dict(miu=case['miu_i'], agf=case['agf'], sec=False, lto=500),
        tgt=dict(miu=case['miu_t'], agf=case['agf'], sec=False, lto=500))
    side_opts[srv_role]['on-startup'] = srv_startup
    apps = {srv_role: srv_app, case['client']: cli_app}
    s, ctx, net = stack.run_pair(side_opts['ini'], side_opts['tgt'],
                                 ini_app=apps['ini'], tgt_app=apps['tgt'],
                                 horizon=120.0, max_steps=2000000)
    if case.get('slow'):
        nfc.llcp.Socket.recv = slow_recv
    stack.DID[0] = case.get('did')
    try:
        s.run()
    finally:
        nfc.llcp.Socket.recv = orig_recv
        stack.DID[0] = None
    return judge(case, s, ctx, net, obs, msg,
                 msg2 if kind == 'ho2' else None, resp_octets)


def judge(case, s, ctx, net, obs, msg, msg2, resp):
    kind, size = case['kind'], case['size']
    limit = case.get('limit', BIG)
    bad = []
    for name, e in ctx['error'].items():
        bad.append(('connect-raises|%s|%s' % (name, sig_exc(e)),
                    dict(error=repr(e))))
    if s.verdict != 'finished':
        bad.append(('stuck|%s' % s.verdict, dict(stuck=s.stuck())))
    for t in s.threads:
        if t.exc is not None and not isinstance(t.exc, sched.Abort):
            bad.append(('thread-dies|%s' % sig_exc(t.exc),
                        dict(thread=t.name, error=repr(t.exc))))
    c = obs['client']
    if c is None:
        bad.append(('client-not-run', dict(result=repr(ctx['result']))))
        return bad, 'norun'
    if c[0] == 'exc':
        bad.append(('client-raises|%s|%s' % (kind, sig_exc(c[1])),
                    dict(error=repr(c[1]))))
        return bad, 'exc'
    outcome = (kind, c[0])
    if kind == 'put' and case.get('reuse'):
        # every put goes to the service the client is connected to at that
        # moment (no explicit connection: the default SNEP server)
        want1, want2, where = [], [], 1
        for i, step in enumerate(case['reuse']):
            if step == 'connect2':
                where = 2
            elif step == 'close':
                where = 1
            else:
                (want1 if where == 1 else want2).append(
                    make_octets(size + i, i))
        if obs['put'] != want1 or obs['put2'] != want2:
            bad.append(('put|reuse|delivered-to-another-service',
                        dict(default_server=[len(x) for x in obs['put']],
                             second_server=[len(x) for x in obs['put2']],
                             expected=[[len(x) for x in want1],
                                       [len(x) for x in want2]])))
        if c != ('ret', [True] * len(want1 + want2)):
            bad.append(('put|reuse|result', dict(client=repr(c))))
    elif kind == 'put':
        if limit >= size:
            if obs['put'] != [msg]:
                bad.append(('put|delivery|%s' % dclass(obs['put'], msg),
                            dict(n=len(obs['put']),
                                 got=[x[:24] for x in obs['put']])))
            if c != ('ret', True):
                bad.append(('put|result', dict(client=c)))
        else:
            outcome = (kind, 'refused', c[0])
            if obs['put']:
                bad.append(('put|delivered-beyond-limit',
                            dict(limit=limit, size=size)))
            if not (c == ('ret', False) or c[0] == 'SnepError'):
                bad.append(('put|no-error-beyond-limit', dict(client=c)))
    elif kind == 'get':
        if len(obs['get']) != 1:
            bad.append(('get|request-count', dict(n=len(obs['get']))))
        if limit >= size:
            if c != ('ret', bytearray(resp[0])) and c != ('ret', resp[0]):
                what = 'none' if c[1] is None else (
                    'differs' if c[0] == 'ret' else
                    '%s:%s' % (c[0], hex(c[1]) if isinstance(c[1], int)
                               else c[1]))
                bad.append(('get|response|%s' % what, dict(
                    client=(c[0], len(c[1]) if isinstance(
                        c[1], (bytes, bytearray)) else c[1]))))
        else:
            outcome = (kind, 'refused', c[0])
            if c[0] == 'ret' and c[1] is not None:
                bad.append(('get|delivered-beyond-limit',
                            dict(limit=limit, size=size, n=len(c[1]))))
    else:
        want_req = [msg] + ([msg2] if msg2 is not None else [])
        if obs['hreq'] != want_req:
            bad.append(('handover|requests|%s' % dclass_list(
                obs['hreq'], want_req), dict(
                n=len(obs['hreq']), sizes=[len(x) for x in obs['hreq']],
                want_sizes=[len(x) for x in want_req])))
        r = c[1]
        want = [True, resp[0]] + ([True, resp[1]] if msg2 is not None else [])
        if c[0] != 'ret':
            # the link is healthy and every message is valid: an error to the
            # handover client means a message was not carried
            import errno as _errno
            bad.append(('handover|client-error|%s:%s' % (
                c[0], _errno.errorcode.get(c[1], c[1])), dict(client=repr(c))))
        elif r != want:
            bad.append(('handover|responses|%s' % (
                'first' if r[:2] != want[:2] else 'second'),
                dict(got=[x if isinstance(x, bool) or x is None else len(x)
                          for x in r])))
    # every NFC-DEP frame on the air within the receiver's LR (254)
    for src, dst, brty, f in stack.parse_air(net.log):
        body = f[1:] if brty == '106A' else f
        if len(body) >= 3 and bytes(body[1:3]) in (b'\xd4\x06', b'\xd5\x07'):
            if body[0] - 1 > 254 or body[0] != len(body):
                bad.append(('air|dep-frame-size', dict(frame=f[:8])))
                break
    return bad, outcome


def dclass(got, msg):
    if not got:
        return 'missing'
    if len(got) > 1:
        return 'duplicate'
    return 'truncated' if len(got[0]) < len(msg) else (
        'extended' if len(got[0]) > len(msg) else 'corrupt')


def dclass_list(got, want):
    if len(got) < len(want):
        return 'missing'
    if len(got) > len(want):
        return 'extra'
    if got[0] != want[0]:
        return 'first-differs'
    return 'second-differs'


def sizes_for(m, overhead, tier):
    """message sizes whose request length lies around k*m"""
    out = set(range(3, 13))
    for k in (1, 2, 3):
        ds = range(-7, 8)
        for d in ds:
            out.add(k * m - overhead + d)
    return sorted(x for x in out if x >= 3)


def cases(tier):
    thorough = tier == 'thorough'
    out = []
    if thorough:
        miu_pairs = list(itertools.product((128, 129, 248, 1024, 2175),
                                           repeat=2))
        socks = ((128, 1), (248, 2), (1984, 15))
    else:
        miu_pairs = list(itertools.product((128, 248, 2175), repeat=2)) + [
            (2175, 129)]
        socks = ((128, 1), (248, 2), (1984, 15))
    n = 0
    for (mi, mt), (sm, srw) in itertools.product(miu_pairs, socks):
        for client in ('ini', 'tgt'):
            srv_link = mt if client == 'ini' else mi     # server's own miu
            cli_link = mi if client == 'ini' else mt
            m_up = min(sm, srv_link)                     # client -> server
            base = dict(miu_i=mi, miu_t=mt, srv_miu=sm, srv_rw=srw,
                        client=client, cli_miu=248, cli_rw=2)
            for kind in ('put', 'get', 'ho', 'ho2'):
                if kind == 'put':
                    ss = sizes_for(m_up, 6, tier)
                elif kind == 'get':
                    ss = sizes_for(128, 6, tier)         # client socket MIU 128
                else:
                    ss = [x for x in sizes_for(m_up, 0, tier) if x >= 40]
                for sz in ss:
                    n += 1
                    out.append(dict(base, kind=kind, size=sz, agf=n % 2 == 0))
            # the initiator assigns a device identifier (one octet more in
            # every NFC-DEP frame, in both directions)
            for kind in ('put', 'get', 'ho'):
                for sz in (40, 3 * m_up + 5):
                    out.append(dict(base, kind=kind, size=sz, did=1,
                                    agf=sz > 40))
            # handover requests whose k-th fragment ends with a record
            for kind in ('ho', 'ho2'):
                for k in (1, 2):
                    for tail in (9, 140):
                        out.append(dict(base, kind=kind, split=k * m_up,
                                        size=k * m_up + tail, agf=k == 1))
            # a slow consumer on either side (the receive window fills up)
            for kind in ('put', 'get', 'ho2'):
                for slow in ('server', 'client'):
                    # (the last size needs more than 16 fragments: the
                    # sequence numbers wrap while the window is closed)
                    for sz in (3 * m_up + 5, 5 * 128 + 9,
                               18 * min(m_up, 248) + 11):
                        out.append(dict(base, kind=kind, size=sz, slow=slow,
                                        agf=sz % 2 == 0))
            # one SnepClient object used for several requests: temporary
            # connections to the default server, an explicit connection to
            # a second service, and back
            for reuse in (('put', 'connect2', 'put', 'put'),
                          ('connect2', 'put', 'close', 'put', 'put'),
                          ('put', 'put', 'connect2', 'put', 'close', 'put')):
                for sz in (40, 2 * m_up + 3):
                    out.append(dict(base, kind='put', size=sz, reuse=reuse,
                                    agf=sz > 40))
            # handover select messages in which a record ends exactly with
            # the k-th fragment the client receives
            m_down = min(base['cli_miu'], cli_link)
            for k in (1, 2):
                for tail in (9, 140):
                    out.append(dict(base, kind='ho', size=60,
                                    rsplit=k * m_down, rtail=tail, agf=k == 1))
            # two connections to the SNEP server at the same time, with
            # different receive MIUs; the Get runs on the one with MIU 128
            for om in (248, 1024):
                if om <= cli_link:
                    for order in ('other-first', 'other-later'):
                        for sz in (100, 2 * 128 + 9, 700):
                            out.append(dict(base, kind='get', size=sz,
                                            other_miu=om, order=order,
                                            agf=order == 'other-later'))
            # acceptable length at its extremes: a Get client that accepts
            # up to 2^31 / 2^32-1 octets, a server that accepts only the
            # empty message
            for lim in (0x7FFFFFFF, 0x80000000, 0xFFFFFFFF):
                out.append(dict(base, kind='get', size=325, limit=lim,
                                agf=True))
            for sz in (3, 40):
                out.append(dict(base, kind='put', size=sz, limit=0, agf=True))
            # acceptable length around the message size
            for kind in ('put', 'get'):
                m = m_up if kind == 'put' else 128
                for sz in (m - 6, 2 * m - 5, 40):
                    for lim in (sz - 1, sz, sz + 1):
                        out.append(dict(base, kind=kind, size=sz, limit=lim,
                                        agf=True))
    return out


def work(chunk):
    run = Run(PROP)
    for case in chunk:
        try:
            bad, outcome = run_case(case)
        except sched.HarnessError as e:
            bad, outcome = [('harness|%s' % type(e).__name__,
                             dict(error=repr(e)))], 'harness'
        key = repr(sorted(case.items()))
        run.outcome(outcome)
        if not bad:
            run.ok(key)
        seen = set()
        for sig, detail in bad:
            if sig not in seen:
                seen.add(sig)
                run.fail(sig, dict(detail, case=case), key)
        if len(seen) > 1:
            run.evaluations -= len(seen) - 1
    run.sample(chunk[0])
    return run.export()


def main(tier='quick', seed=0, part=None):
    run = Run(PROP, tier, seed, level='exploration')
    cs = cases(tier)
    if part:
        cs = [c for c in cs if c['kind'] == part]
    for res in par.pmap(work, par.chunks(par.shuffled(cs, seed), 256)):
        run.merge(res)
    run.rule = (
        "grid: link MIU pair x server socket MIU/RW x client role x kind "
        "{put, get, handover, two handover requests on one connection} x "
        "message sizes 3..12 and k*m-7..k*m+7 around multiples of the "
        "negotiated connection MIU (k=1..3) x aggregation on/off, plus "
        "acceptable-length limits s-1, s, s+1, plus a slow consumer (30 ms "
        "before every recv) on the server or client side for multi-fragment "
        "messages, plus one SnepClient object used for several Puts over "
        "temporary and explicit connections to two services, handover select "
        "messages whose k-th fragment ends with a record, Get with a second idle connection (receive MIU 248 / "
        "1024, made before / after) to the same server; one whole-stack run "
        "per point; "
        "distinct = distinct grid point (all non-trivial: a message crosses "
        "the link)")
    run.assumptions += [
        "whole stack over the virtual air (unmodified udp driver), default "
        "schedule, no faults; both devices run nfcpy",
        "messages are canonical ndeflib encodings with position-coded payload"]
    return run.finish(exhaustive=True)


def replay(doc):
    bad, outcome = run_case(doc['detail']['case'])
    print('replay:', [b[0] for b in bad], outcome)
    return 1 if bad else 0
