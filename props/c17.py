"""C17 - LLCP addressing: binding, discovery and delivery reach the right socket.

Explicit-state BFS (mc.bfs) over two real LogicalLinkControllers joined by
the pair MAC (sim.llcpump).  A is the controller under test: sockets are
created, bound, put into listen mode and closed on it; B is the peer that
resolves names, connects by name / by address and sends datagrams.  Every
transition is a macro step that ends with a quiet link.  The reference is
ref.addrtable.AddrTable (written from the statement).

Oracle (exactly the statement):
  * bind: well-known names -> fixed address, other names -> a free address in
    16-31, None -> a free address in 32-63, explicit 32-63 -> that address;
    otherwise nfc.llcp.Error with EADDRINUSE / EACCES / EFAULT / EAGAIN as the
    rule demands; a bound socket cannot be bound again; an address is never
    handed out while it is held; getsockname() agrees with the table; closing
    the last socket frees the address.
  * resolve(name) at the peer returns the address bound under the name or 0.
  * connect-by-name is accepted by exactly the listening socket bound under
    the name, or refused.
  * a datagram arrives only at the socket bound at its DSAP, payload,
    boundaries and SSAP intact.
"""
import errno

from mc import bfs, par, sched
from mc.evidence import Run, sig_exc
from ref import addrtable
from sim import llcpump as lp

PROP = 'C17'

SNEP, NAME_A, NAME_B = 'urn:nfc:sn:snep', 'urn:nfc:sn:a', 'urn:nfc:xsn:b.c'
BIND_ARGS = (None, 0, 1, 4, 15, 16, 31, 32, 63, 64, -1,
             SNEP, NAME_A, NAME_B, 'urn:nfc:sn:sdp', 'urn:nfc:sn:', 'foo', 3.5)
REBIND_ARGS = (None, 33, NAME_A)
RESOLVE_NAMES = (SNEP, NAME_A, NAME_B, 'urn:nfc:sn:ab', 'urn:nfc:sn:')
# several lookups in one SNL PDU: all ordered pairs, and triples a-x-b
_R = (SNEP, NAME_A, NAME_B, 'urn:nfc:sn:ab')
RESOLVE_MANY = tuple((a, b) for a in _R for b in _R if a != b) + (
    (NAME_A, 'urn:nfc:sn:ab', NAME_B), ('urn:nfc:sn:ab', SNEP, 'urn:nfc:sn:'))
# a second lookup issued while the answer to the first is still on its way
RESOLVE_LATE = ((NAME_A, NAME_B), (NAME_B, 'urn:nfc:sn:ab'),
                ('urn:nfc:sn:ab', NAME_A), (SNEP, NAME_A))
CONNECT_NAMES = (SNEP, NAME_A, NAME_B)
CONNECT_ADDRS = (4, 16, 32)
KEEP_NAMES = (NAME_A, NAME_B)      # connect and keep the connection open
SENDTO_ADDRS = (1, 4, 16, 17, 32, 33)
KINDS = (addrtable.LDL, addrtable.DLC, addrtable.RAW)
DGRAMS = (b'\x11\x22\x33', b'\x44')

PREPS = ('init', 'named15', 'named16', 'dyn31', 'dyn32', 'closedname',
         'reused', 'wks')


class World(object):
    pass


class Slot(object):
    def __init__(self, kind, sock):
        self.kind, self.sock = kind, sock


def as_bytes(name):
    return name.encode('latin') if isinstance(name, str) else bytes(name)


def errname(e):
    return errno.errorcode.get(e, str(e))


class Spec(object):
    """cfg = (prep, nslots)"""
    skip = ()

    def __init__(self, cfg):
        self.cfg = cfg
        self.prep, self.nslots = cfg
        self.stats = {}

    def count(self, k, n=1):
        self.stats[k] = self.stats.get(k, 0) + n

    # -- initial / prepared states ------------------------------------------------
    def init(self):
        import nfc.llcp
        import nfc.llcp.llc as llc
        pre = {}

        def a_setup(a):
            # prepared state 'wks': a service bound under a well-known name
            # before the link comes up (announced in the WKS list of the PAX
            # parameters)
            s = a.socket(llc.DATA_LINK_CONNECTION)
            a.bind(s, SNEP)
            a.listen(s, 1)
            pre[id(a)] = s
        A, B = lp.make_pair(dict(miu=248, sec=False), dict(miu=248, sec=False),
                            a_setup=a_setup if self.prep == 'wks' else None)
        w = World()
        w.A, w.B = A, B
        w.model = addrtable.AddrTable()
        w.slots = [None] * self.nslots
        w.bg = []                      # background sockets of prepared states
        w.bg_closable = None
        w.closed_names = set()         # names whose last socket was closed
        w.diverged = False
        w.bkeep = None                 # peer end of a connection kept open
        w.lb = B.socket(llc.LOGICAL_DATA_LINK)      # peer datagram socket
        B.bind(w.lb)                                # 32 at B
        w.rb = B.socket(llc.RAW_ACCESS_POINT)       # scripted peer endpoint
        B.bind(w.rb, 50)
        B.setsockopt(w.rb, nfc.llcp.SO_RCVBUF, 4)
        if self.prep == 'wks':
            s = pre[id(A)]
            assert A.getsockname(s) == 4 and B.cfg['send-wks'] & 0x10
            assert w.model.commit_bind('bg0', addrtable.DLC, SNEP, 4) is None
            w.bg.append(Slot(addrtable.DLC, s))
            w.bg_closable = 0
        else:
            getattr(self, 'prep_' + self.prep)(w)
        assert lp.quiesce(A, B) is not None
        v = self.invariants(w)
        assert not v, v
        return w

    def prep_init(self, w):
        pass

    def _bg(self, w, arg, kind=addrtable.LDL, close=False):
        """A background socket created and bound through the real calls,
        mirrored in the table (the implementation's choice is validated)."""
        key = 'bg%d' % len(w.bg)
        s = w.A.socket(self.socktype(kind))
        exp = w.model.expect_bind(key, kind, arg)
        if kind == addrtable.LDL:
            import nfc.llcp
            w.A.setsockopt(s, nfc.llcp.SO_RCVBUF, 2)
        w.A.bind(s, arg)
        addr = w.A.getsockname(s)
        assert (exp.fixed == addr) or (
            exp.free_in and exp.free_in[0] <= addr <= exp.free_in[1]
            and w.model.is_free(addr)), (exp, addr)
        assert w.model.commit_bind(key, kind, arg, addr) is None
        w.bg.append(Slot(kind, s))
        return key, s

    def prep_named15(self, w, n=15):
        for i in range(n):
            self._bg(w, 'urn:nfc:sn:bg%02d' % i)
        w.bg_closable = 4              # the one at address 20

    def prep_named16(self, w):
        self.prep_named15(w, 16)

    def prep_dyn31(self, w, n=31):
        for i in range(n):
            self._bg(w, None)
        w.bg_closable = 8              # the one at address 40

    def prep_dyn32(self, w):
        self.prep_dyn31(w, 32)

    def prep_closedname(self, w):
        """'urn:nfc:sn:a' was bound (address 16) and its socket closed."""
        key, s = self._bg(w, NAME_A, addrtable.DLC)
        w.A.listen(s, 1)
        w.A.close(s)
        w.model.close(key)
        w.bg.pop()
        w.closed_names.add(as_bytes(NAME_A))

    def prep_reused(self, w):
        """... and address 16 was then given to another service, listening."""
        self.prep_closedname(w)
        key, s = self._bg(w, NAME_B, addrtable.DLC)
        assert w.A.getsockname(s) == 16
        w.A.listen(s, 1)

    @staticmethod
    def socktype(kind):
        import nfc.llcp.llc as llc
        return {addrtable.RAW: llc.RAW_ACCESS_POINT,
                addrtable.LDL: llc.LOGICAL_DATA_LINK,
                addrtable.DLC: llc.DATA_LINK_CONNECTION}[kind]

    # -- alphabet --------------------------------------------------------------------
    def actions(self, w):
        if w.diverged:
            return []
        acts = []
        free = [i for i, s in enumerate(w.slots) if s is None]
        if free:
            acts += [('socket', free[0], k) for k in KINDS]
        for i, s in enumerate(w.slots):
            if s is None:
                continue
            bound = i in w.model.addr_of
            for arg in (REBIND_ARGS if bound else BIND_ARGS):
                acts.append(('bind', i, arg))
            if s.kind == addrtable.DLC and s.sock.state.CLOSED:
                acts.append(('listen', i))
            acts.append(('close', i))
        if w.bg_closable is not None:
            acts.append(('close_bg',))
        acts += [('resolve', n) for n in RESOLVE_NAMES]
        acts += [('resolve_many',) + ns for ns in RESOLVE_MANY]
        acts += [('resolve_late',) + ns for ns in RESOLVE_LATE]
        acts += [('resolve_threads',) + ns for ns in RESOLVE_LATE]
        acts += [('connect', d) for d in CONNECT_NAMES + CONNECT_ADDRS]
        if free and w.bkeep is None:
            acts += [('connect_keep', d) for d in KEEP_NAMES]
        if free:
            acts += [('connect_lazy', d) for d in KEEP_NAMES]
        acts += [('sendto', a) for a in SENDTO_ADDRS]
        return acts

    # -- all sockets the harness knows on A ----------------------------------------------
    def known(self, w):
        out = [(i, s) for i, s in enumerate(w.slots) if s is not None]
        out += [('bg%d' % i, s) for i, s in enumerate(w.bg) if s is not None]
        return out

    # -- transitions ---------------------------------------------------------------------
    def apply(self, w, a):
        viol = []
        getattr(self, 'op_' + a[0])(w, viol, *a[1:])
        viol += self.invariants(w)
        for sig, d in viol:
            d.setdefault('cfg', self.cfg)
        return viol

    def op_socket(self, w, viol, i, kind):
        import nfc.llcp
        s = w.A.socket(self.socktype(kind))
        if kind == addrtable.LDL:
            w.A.setsockopt(s, nfc.llcp.SO_RCVBUF, 2)   # room for 2 datagrams
        w.slots[i] = Slot(kind, s)

    def op_bind(self, w, viol, i, arg):
        import nfc.llcp
        s = w.slots[i]
        m = w.model
        exp = m.expect_bind(i, s.kind, arg)
        before = w.A.getsockname(s.sock)
        try:
            w.A.bind(s.sock, arg)
            got, err = w.A.getsockname(s.sock), None
        except nfc.llcp.Error as e:
            got, err = None, e.errno
        except Exception as e:
            viol.append(('C17|bind|%s|%s' % (self.argclass(w, s, arg),
                                             sig_exc(e)),
                         dict(arg=arg, expected=repr(exp), error=repr(e))))
            return
        cls = self.argclass(w, s, arg)
        self.count('bind_' + cls.split('|')[0])
        detail = dict(arg=arg, kind=s.kind, expected=repr(exp),
                      got=('address %r' % got) if err is None
                      else errname(err), table=self.table(w))
        if err is not None:
            if exp.must_fail:
                if exp.any_error or err in exp.errnos:
                    self.count('bind_refused_as_expected')
                    return
                if exp.errnos == (errno.EAGAIN,) and \
                        exp.why.startswith('no free address in 16-31'):
                    # DESIGN C17: compared leniently, recorded
                    self.count('obs_named_range_full_errno_%s' % errname(err))
                    return
            elif err in exp.also_error:
                return
            viol.append(('C17|bind|%s|expected %s|got %s|'
                         'nfc.llcp.llc.LogicalLinkController.bind' % (
                             cls, self.expclass(exp), errname(err)), detail))
            return
        # success
        ok = (exp.fixed is not None and got == exp.fixed) or (
            exp.free_in is not None and exp.free_in[0] <= got <= exp.free_in[1]
            and m.is_free(got))
        if ok:
            m.commit_bind(i, s.kind, arg, got)
            self.count('bind_ok')
            return
        twice = (got is not None and not m.is_free(got))
        viol.append(('C17|bind|%s|expected %s|got %s|'
                     'nfc.llcp.llc.LogicalLinkController.bind' % (
                         cls, self.expclass(exp),
                         'address held by another socket' if twice
                         else 'address %s' % self.addrclass(got)), detail))
        w.diverged = True          # table and implementation disagree now

    def argclass(self, w, s, arg):
        m = w.model
        slot = w.slots.index(s)
        if slot in m.addr_of:
            return 'rebind'
        if arg is None:
            return 'none' + ('|range full' if not m.free_in(32, 63) else '')
        if isinstance(arg, int):
            if arg < 0 or arg > 63:
                return 'addr out of range'
            c = 'addr %s' % self.addrclass(arg)
            if s.kind == addrtable.RAW:
                c = 'raw ' + c
            if not m.is_free(arg):
                c += '|in use'
            return c
        if not isinstance(arg, (str, bytes)):
            return 'bad type'
        name = as_bytes(arg)
        if not addrtable.valid_name(name):
            return 'malformed name'
        c = 'wks name' if name in addrtable.WELL_KNOWN else 'name'
        if name in m.names:
            return c + '|name bound'
        if name in w.closed_names:
            c += '|name of closed socket'
        if name in addrtable.WELL_KNOWN:
            a = addrtable.WELL_KNOWN[name]
            if not m.is_free(a):
                kinds = sorted(set(m.kind.get(k, '?')
                                   for k in m.sockets_at(a)))
                c += '|address held by %s socket' % '/'.join(kinds)
        elif not m.free_in(16, 31):
            c += '|range full'
        return c

    @staticmethod
    def addrclass(a):
        if a is None:
            return 'None'
        if a < 0 or a > 63:
            return 'out of range'
        return '0-15' if a < 16 else '16-31' if a < 32 else '32-63'

    @staticmethod
    def expclass(exp):
        if exp.fixed is not None:
            return 'that address'
        if exp.free_in is not None:
            return 'free %d-%d' % exp.free_in
        if exp.any_error:
            return 'error'
        return '/'.join(errname(e) for e in exp.errnos)

    def op_listen(self, w, viol, i):
        import nfc.llcp
        s = w.slots[i]
        was_bound = i in w.model.addr_of
        try:
            w.A.listen(s.sock, 1)
        except nfc.llcp.Error:
            return
        if not was_bound:
            # listen() binds an unbound socket like bind(None)
            exp = w.model.expect_bind(i, s.kind, None)
            got = w.A.getsockname(s.sock)
            if exp.free_in and got is not None and \
                    exp.free_in[0] <= got <= exp.free_in[1] and \
                    w.model.is_free(got):
                w.model.commit_bind(i, s.kind, None, got)
            else:
                viol.append(('C17|listen|implicit bind|expected %s|got %r' % (
                    self.expclass(exp), got), dict(table=self.table(w))))
                w.diverged = True

    def op_close(self, w, viol, i):
        s = w.slots[i]
        self._close(w, viol, i, s)
        w.slots[i] = None

    def op_close_bg(self, w, viol):
        k = w.bg_closable
        self._close(w, viol, 'bg%d' % k, w.bg[k])
        w.bg[k] = None
        w.bg_closable = None

    def _close(self, w, viol, key, s):
        m = w.model
        addr = m.addr_of.get(key)
        name = m.name_of(addr) if addr is not None else None
        if s.kind == addrtable.DLC and s.sock.state.ESTABLISHED:
            # the kept connection: close() sends DISC and waits for the DM
            o = lp.run_blocking(lambda: w.A.close(s.sock), w.A, w.B)
            assert o.done and o.exc is None, (o.done, o.exc)
            if w.bkeep is not None:
                w.B.close(w.bkeep)
                w.bkeep = None
        else:
            w.A.close(s.sock)
        m.close(key)
        if addr is not None and m.is_free(addr) and name is not None:
            w.closed_names.add(name)
        lp.quiesce(w.A, w.B)

    # .. peer operations .............................................................
    def op_resolve(self, w, viol, name):
        B = w.B
        bname = as_bytes(name)
        cached = bname in B.sap[1].snl
        truth = w.model.resolve(bname)
        st = lp.seq_call(lambda: B.resolve(name))
        if st[0] == 'blocked':
            # first half done: SDREQ queued.  Pump, then the waiting caller
            # would wake up and return snl[name]: a second call returns
            # exactly that value from the same table.
            lp.quiesce(w.A, B)
            if bname not in B.sap[1].snl:
                viol.append(('C17|resolve|no answer|'
                             'nfc.llcp.llc.ServiceDiscovery.resolve',
                             dict(name=name, table=self.table(w))))
                return
            st = lp.seq_call(lambda: B.resolve(name))
        if st[0] != 'ok':
            raise RuntimeError("resolve: %r" % (st,))
        got = st[1]
        if cached:
            # the peer's cache answers; LLCP lets a peer cache SDP answers
            self.count('resolve_cached')
            if got != truth:
                self.count('obs_peer_cache_differs_from_table')
            return
        self.count('resolve_uncached')
        if got == truth:
            self.count('resolve_ok_%s' % ('absent' if truth == 0 else 'bound'))
            return
        if truth == 0:
            cls = ('name of closed socket' if bname in w.closed_names
                   else 'unbound name') + '|got address, expected 0'
            holder = w.model.name_of(got)
            if holder is not None:
                cls += '|address now bound under another name'
        elif got == 0:
            cls = 'bound name|got 0'
        else:
            cls = 'bound name|got another address'
        viol.append(('C17|resolve|%s|nfc.llcp.llc.ServiceDiscovery.enqueue'
                     % cls, dict(name=name, got=got, expected=truth,
                                 table=self.table(w))))

    def op_resolve_many(self, w, viol, *names):
        """The peer asks for several names at once: its resolve() calls
        queue their SDREQs before the link runs, so they travel in one SNL
        PDU.  (The peer forgets earlier answers for these names first.)"""
        B = w.B
        sd = B.sap[1]
        saved = (dict(sd.snl), list(sd.tids), dict(sd.sent))
        try:
            self._resolve_many(w, viol, names)
        finally:
            # the peer's cache is left as it was: the action observes A only
            sd.snl.clear()
            sd.snl.update(saved[0])
            sd.tids[:] = saved[1]
            sd.sent.clear()
            sd.sent.update(saved[2])

    def op_resolve_late(self, w, viol, n1, n2):
        """The peer asks for n1; its request is on the wire but the answer
        has not come back when it asks for n2.  Which transaction identifier
        its random source draws is an environment choice: the adversarial one
        is the identifier of the outstanding request, if it can be drawn."""
        from mc import shims
        B = w.B
        sd = B.sap[1]
        saved = (dict(sd.snl), list(sd.tids), dict(sd.sent))
        try:
            for name in (n1, n2):
                sd.snl.pop(as_bytes(name), None)
            st = lp.seq_call(lambda: B.resolve(n1))
            if st[0] == 'ok':
                self._judge_value(w, viol, n1, st[1],
                                  'answered without a lookup')
                return
            if st[0] != 'blocked':
                raise RuntimeError("resolve_late: %r" % (st,))
            fr = lp.xfer(B, w.A)
            if fr is None or fr.error or fr.sent.name != 'SNL':
                raise RuntimeError("resolve_late: SNL not sent")
            out = [t for t, n in sd.sent.items() if n == as_bytes(n1)]
            shims.set_choice(lambda seq: out[0] if out and out[0] in seq
                             else seq[0])
            try:
                st = lp.seq_call(lambda: B.resolve(n2))
            finally:
                shims.set_choice(None)
            if st[0] == 'ok':
                self._judge_value(w, viol, n2, st[1],
                                  'answered without a lookup')
                lp.quiesce(w.A, B)
                return
            if st[0] != 'blocked':
                raise RuntimeError("resolve_late: %r" % (st,))
            # the second request goes out as well before any answer arrives
            # (the answering side took one exchange longer)
            fr = lp.xfer(B, w.A)
            if fr is None or fr.error or fr.sent.name != 'SNL':
                raise RuntimeError("resolve_late: second SNL not sent")
            lp.quiesce(w.A, B)
            self.count('resolve_late')
            self._judge_many(w, viol, (n1, n2), 'second lookup while the '
                             'first is outstanding')
        finally:
            sd.snl.clear()
            sd.snl.update(saved[0])
            sd.tids[:] = saved[1]
            sd.sent.clear()
            sd.sent.update(saved[2])

    def op_resolve_threads(self, w, viol, n1, n2):
        """Two application threads of the peer in resolve(): the second
        call is made while the request of the first is on the wire; the
        answers come back in two SNL PDUs, so the answer to the first wakes
        the second caller as well.  Judged: the values the two calls
        RETURN (the other resolve actions look at the answers recorded)."""
        B, A = w.B, w.A
        sd = B.sap[1]
        saved = (dict(sd.snl), list(sd.tids), dict(sd.sent))
        for name in (n1, n2):
            sd.snl.pop(as_bytes(name), None)
        s = sched.Sched(sched.Chooser(), timer_deviations=False,
                        max_steps=200000)
        res, gate = {}, [False]

        def caller(k, name):
            def body():
                if k == 2:
                    sched.S.block(lambda: gate[0], None, 'wait', 'gate')
                try:
                    res[k] = ('ret', B.resolve(name))
                except sched.Abort:
                    raise
                except Exception as e:
                    res[k] = ('exc', e)
            return body

        def pump():
            sched.vsleep(0.001)             # caller 1 waits for its answer
            f = lp.xfer(B, A)               # SDREQ for n1 on the wire
            if f is None or f.error or f.sent.name != 'SNL':
                res['skip'] = 'first request not sent'
                return
            gate[0] = True
            sched.vsleep(0.001)             # caller 2 queued its request
            lp.xfer(A, B)                   # answer for n1 only
            sched.vsleep(0.001)
            for _ in range(6):              # request / answer for n2, ...
                f1 = lp.xfer(B, A)
                f2 = lp.xfer(A, B)
                sched.vsleep(0.001)
                if f1 is None and f2 is None:
                    break
        try:
            s.spawn(caller(1, n1), 'resolve1')
            s.spawn(caller(2, n2), 'resolve2')
            s.spawn(pump, 'pump')
            s.run()
            pt = s.thread('pump')
            if pt.exc is not None and not isinstance(pt.exc, sched.Abort):
                raise pt.exc
            if 'skip' in res:
                # (n1 was answered from the well-known service list or so:
                # nothing was outstanding, the single resolve action covers it)
                self.count('resolve_threads_skipped')
                return
            self.count('resolve_threads')
            for k, name in ((1, n1), (2, n2)):
                r = res.get(k)
                truth = w.model.resolve(as_bytes(name))
                if r is None:
                    viol.append(('C17|resolve|no answer|caller %d of two '
                                 'threads still waits|nfc.llcp.llc.'
                                 'ServiceDiscovery.resolve' % k,
                                 dict(names=(n1, n2), name=name,
                                      table=self.table(w))))
                elif r[0] == 'exc':
                    viol.append(('C17|resolve|raises %s|two threads|nfc.llcp.'
                                 'llc.ServiceDiscovery.resolve' % sig_exc(r[1]),
                                 dict(names=(n1, n2), error=repr(r[1]))))
                else:
                    self._judge_value(w, viol, name, r[1], 'two threads, '
                                      'caller %d, answers in two SNL PDUs' % k)
        finally:
            lp.quiesce(A, B)
            sd.snl.clear()
            sd.snl.update(saved[0])
            sd.tids[:] = saved[1]
            sd.sent.clear()
            sd.sent.update(saved[2])

    def _resolve_many(self, w, viol, names):
        B = w.B
        for name in names:
            B.sap[1].snl.pop(as_bytes(name), None)
        pending = []
        for name in names:
            st = lp.seq_call(lambda: B.resolve(name))
            if st[0] == 'ok':
                # answered without asking the peer (the entry was removed
                # from the cache): judged like any other answer
                self._judge_value(w, viol, name, st[1],
                                  'answered without a lookup')
                continue
            if st[0] != 'blocked':
                raise RuntimeError("resolve_many: %r" % (st,))
            pending.append(name)
        if len(B.sap[1].sdreq) < len(pending):
            # (more: a call that returned without its answer - judged above -
            # left its request behind)
            raise RuntimeError("resolve_many: requests not queued together")
        lp.quiesce(w.A, B)
        self.count('resolve_many')
        self._judge_many(w, viol, pending, 'several names in one SNL')

    def _judge_value(self, w, viol, name, got, how):
        bname = as_bytes(name)
        truth = w.model.resolve(bname)
        if got == truth:
            return
        if truth == 0:
            cls = ('name of closed socket' if bname in w.closed_names
                   else 'unbound name') + '|got address, expected 0'
        elif got == 0:
            cls = 'bound name|got 0'
        else:
            cls = 'bound name|got another address'
        viol.append(('C17|resolve|%s|%s|nfc.llcp.llc.LogicalLinkController.'
                     'resolve' % (cls, how),
                     dict(name=name, got=got, expected=truth,
                          table=self.table(w))))

    def _judge_many(self, w, viol, names, how):
        B = w.B
        for k, name in enumerate(names):
            bname = as_bytes(name)
            truth = w.model.resolve(bname)
            if bname not in B.sap[1].snl:
                viol.append(('C17|resolve|no answer|%s|'
                             'nfc.llcp.llc.ServiceDiscovery.resolve' % how,
                             dict(names=names, name=name,
                                  table=self.table(w))))
                continue
            got = B.sap[1].snl[bname]
            if got == truth:
                self.count('resolve_many_ok_%s' % (
                    'absent' if truth == 0 else 'bound'))
                continue
            if truth == 0:
                cls = ('name of closed socket' if bname in w.closed_names
                       else 'unbound name') + '|got address, expected 0'
            elif got == 0:
                cls = 'bound name|got 0'
            else:
                cls = 'bound name|got another address'
            viol.append(('C17|resolve|%s|%s|'
                         'nfc.llcp.llc.ServiceDiscovery.enqueue' % (cls, how),
                         dict(names=names, name=name, position=k, got=got,
                              expected=truth, table=self.table(w))))

    def listeners_at(self, w, addr):
        """Known sockets at addr that are listening right now with room in
        the backlog (implementation state is read only for 'is listening',
        which is not the subject of C17)."""
        out = []
        for key, s in self.known(w):
            if w.model.addr_of.get(key) == addr and s.kind == addrtable.DLC \
                    and s.sock.state.LISTEN \
                    and len(s.sock.recv_queue) < s.sock.recv_buf:
                out.append(key)
        return out

    def op_connect_keep(self, w, viol, dest):
        """connect by name; the accepted socket stays open in a free slot
        (it shares the listener's address: 'closing the last socket')."""
        self.op_connect(w, viol, dest, keep=True)

    def op_connect_lazy(self, w, viol, dest):
        """connect by name, the client disconnects at once; the server
        application has not closed its accepted socket yet (it stays in a
        free slot, sharing the listener's address, until a 'close')."""
        self.op_connect(w, viol, dest, lazy=True)

    def op_connect(self, w, viol, dest, keep=False, lazy=False):
        import nfc.llcp
        import nfc.llcp.llc as llc
        A, B = w.A, w.B
        m = w.model
        byname = isinstance(dest, str)
        addr = m.resolve(as_bytes(dest)) if byname else dest
        targets = self.listeners_at(w, addr) if addr else []
        holders = m.sockets_at(addr) if addr else []
        accepted = []          # (key of listening socket, client socket)

        def hook():
            for key, s in self.known(w):
                if s.kind == addrtable.DLC and s.sock.state.LISTEN \
                        and len(s.sock.recv_queue):
                    accepted.append((key, A.accept(s.sock)))

        if byname:
            # the real client side: connect() by service name in a thread
            cs = B.socket(llc.DATA_LINK_CONNECTION)

            def op():
                B.connect(cs, dest)
                peer = B.getpeername(cs)
                if not keep:
                    B.close(cs)        # DISC, waits for the DM
                return peer
            out = lp.run_blocking(op, B, A, after_round=hook)
            if out.link_error is not None or out.capped:
                raise RuntimeError("connect macro: %r" % out.link_error)
            if out.blocked:
                result = ('blocked', None)
                B.close(cs)
            elif isinstance(out.exc, nfc.llcp.ConnectRefused):
                result = ('refused', out.exc.reason)
                B.close(cs)
            elif out.exc is not None:
                raise out.exc
            else:
                result = ('connected', out.result)
        else:
            # scripted peer on a raw access point: CONNECT, then DISC
            import nfc.llcp.pdu as pdu
            DW = nfc.llcp.MSG_DONTWAIT
            B.sendto(w.rb, pdu.Connect(dest, w.rb.addr), None, DW)
            lp.quiesce(B, A, after_round=hook)
            answers = []
            while len(w.rb.recv_queue):
                answers.append(B.recvfrom(w.rb)[0])
            if not answers:
                result = ('blocked', None)
            elif answers[0].name == 'CC':
                result = ('connected', answers[0].ssap)
                B.sendto(w.rb, pdu.Disconnect(answers[0].ssap, w.rb.addr),
                         None, DW)
                lp.quiesce(B, A)
                while len(w.rb.recv_queue):
                    B.recvfrom(w.rb)
            elif answers[0].name == 'DM':
                result = ('refused', answers[0].reason)
            else:
                raise RuntimeError("connect: answer %s" % answers[0])
        lp.quiesce(A, B)
        kept = False
        if keep and result[0] == 'connected' and len(accepted) == 1 \
                and accepted[0][0] in targets:
            # the connection stays: the accepted socket takes a free slot
            key, client = accepted[0]
            slot = [i for i, s in enumerate(w.slots) if s is None][0]
            w.slots[slot] = Slot(addrtable.DLC, client)
            m.attach(slot, addrtable.DLC, m.addr_of[key])
            w.bkeep = cs
            kept = True
            self.count('connection_kept')
        elif keep and result[0] == 'connected':
            o = lp.run_blocking(lambda: B.close(cs), B, A)
            assert o.done and o.exc is None, o.exc
        if lazy and result[0] == 'connected' and len(accepted) == 1 \
                and accepted[0][0] in targets:
            key, client = accepted[0]
            assert not client.state.ESTABLISHED, client.state
            slot = [i for i, s in enumerate(w.slots) if s is None][0]
            w.slots[slot] = Slot(addrtable.DLC, client)
            m.attach(slot, addrtable.DLC, m.addr_of[key])
            kept = True
            self.count('accepted_socket_left_open')
        for key, client in accepted:
            if kept:
                break
            if client.state.ESTABLISHED:
                # peer never disconnected (it blocked): tear down from here
                o = lp.run_blocking(lambda: A.close(client), A, B)
            else:
                A.close(client)
        lp.quiesce(A, B)
        for key, s in self.known(w):       # raw access points see the PDUs
            if s.kind == addrtable.RAW:
                while len(s.sock.recv_queue):
                    A.recvfrom(s.sock)
        kind = 'connect-by-name' if byname else 'connect-by-addr'
        self.count(kind)
        got_keys = [k for k, _ in accepted]
        detail = dict(dest=dest, result=result, accepted_by=got_keys,
                      expected_listeners=targets, table=self.table(w))
        ncls = 'bound name' if byname else 'bound addr'
        if byname and not addr:
            ncls = ('name of closed socket' if as_bytes(dest) in
                    w.closed_names else 'unbound name')
        elif not holders:
            ncls = 'unbound addr' if not byname else ncls
        site = 'nfc.llcp.llc.LogicalLinkController.dispatch'
        wrong = [k for k in got_keys if k not in targets]
        if wrong:
            viol.append(('C17|%s|%s|accepted by a socket not bound there|%s'
                         % (kind, ncls, site), detail))
            return
        if targets:
            if result[0] == 'connected' and len(got_keys) == 1:
                if result[1] != addr and not byname:
                    viol.append(('C17|%s|%s|CC from another address|%s' % (
                        kind, ncls, site), detail))
                self.count('connect_accepted_by_right_socket')
            else:
                viol.append(('C17|%s|%s|listening socket not reached (%s)|%s'
                             % (kind, ncls, result[0], site), detail))
            return
        # nobody is listening under that name/address: absence is reported
        if result[0] == 'refused':
            self.count('connect_refused_as_expected')
        elif result[0] == 'blocked':
            if byname and not holders:
                viol.append(('C17|%s|%s|no answer (absence not reported)|%s'
                             % (kind, ncls, site), detail))
            else:
                # raw access point at the address (gets the CONNECT itself)
                # or connect by address to an unbound SAP: outside the
                # statement, recorded
                self.count('obs_%s_%s_no_answer' % (kind, ncls.replace(
                    ' ', '_')))
        else:
            viol.append(('C17|%s|%s|connected though nothing listens|%s'
                         % (kind, ncls, site), detail))

    def op_sendto(self, w, viol, addr):
        import nfc.llcp
        A, B = w.A, w.B
        DW = nfc.llcp.MSG_DONTWAIT
        for d in DGRAMS:
            B.sendto(w.lb, d, addr, DW)
        lp.quiesce(B, A)
        lp.quiesce(A, B)
        while len(w.lb.recv_queue):          # FRMR and the like: ignored
            B.recvfrom(w.lb)
        src = w.lb.addr
        want = {}
        for key in w.model.sockets_at(addr):
            want[key] = [(d, src) for d in DGRAMS]
        self.count('sendto_%s' % ('bound' if want else 'unbound'))
        site = 'nfc.llcp.llc.ServiceAccessPoint.enqueue'
        for key, s in self.known(w):
            got = []
            q = s.sock.recv_queue
            if s.kind == addrtable.LDL:
                while len(q):
                    got.append(tuple(A.recvfrom(s.sock)))
            elif s.kind == addrtable.RAW:
                while len(q):
                    p = A.recvfrom(s.sock)[0]
                    got.append((bytes(p.data), p.ssap) if p.name == 'UI'
                               else (p.name, None))
            else:
                got = [(bytes(p.data), p.ssap) for p in q if p.name == 'UI']
            exp = want.get(key, [])
            detail = dict(dsap=addr, socket=key, kind=s.kind, got=got,
                          expected=exp, table=self.table(w))
            if s.kind == addrtable.LDL:
                if got != exp:
                    cls = 'not bound at DSAP|datagram delivered' \
                        if not exp else 'bound at DSAP|payload, boundaries ' \
                        'or SSAP differ'
                    viol.append(('C17|sendto|LDL %s|%s' % (cls, site), detail))
                elif exp:
                    self.count('datagrams_delivered_intact', len(exp))
            elif s.kind == addrtable.RAW:
                # a raw access point sees PDUs; it has room for one
                if got and (not exp or any(g not in exp for g in got)):
                    viol.append(('C17|sendto|RAW not bound at DSAP|PDU '
                                 'delivered|%s' % site, detail))
            elif got:
                viol.append(('C17|sendto|DLC|datagram queued as data|%s'
                             % site, detail))

    # -- table vs implementation after every step ----------------------------------------
    def invariants(self, w):
        A, m = w.A, w.model
        viol = []
        if w.diverged:
            return viol
        for key, s in self.known(w):
            got, exp = A.getsockname(s.sock), m.addr_of.get(key)
            if got != exp:
                viol.append(('C17|getsockname|differs from table|'
                             'nfc.llcp.llc.LogicalLinkController.getsockname',
                             dict(socket=key, got=got, expected=exp,
                                  table=self.table(w))))
        for addr in range(2, 64):
            used = A.sap[addr] is not None
            if used and m.is_free(addr):
                viol.append(('C17|close|address not freed after the last '
                             'socket closed|nfc.llcp.llc.ServiceAccessPoint.'
                             'remove_socket', dict(addr=addr,
                                                   table=self.table(w))))
            elif not used and not m.is_free(addr):
                viol.append(('C17|address table|address lost while a socket '
                             'holds it|nfc.llcp.llc.LogicalLinkController',
                             dict(addr=addr, table=self.table(w))))
        return viol

    @staticmethod
    def table(w):
        m = w.model
        return dict(names={n.decode('latin'): a for n, a in m.names.items()},
                    holders={a: [str(k) for k in h]
                             for a, h in m.holders.items() if a > 1},
                    closed_names=sorted(n.decode('latin')
                                        for n in w.closed_names))


# -- enumeration -------------------------------------------------------------------
def plan(tier):
    """[(cfg, depth)]; cfg = (prep, nslots)."""
    if tier == 'quick':
        return [(('init', 2), 5), (('named15', 2), 4), (('named16', 1), 3),
                (('dyn31', 2), 4), (('dyn32', 1), 3),
                (('closedname', 2), 4), (('reused', 1), 4), (('wks', 1), 3)]
    return [(('init', 2), 6), (('init', 3), 5),
            (('named15', 2), 5), (('named16', 2), 4),
            (('dyn31', 2), 5), (('dyn32', 2), 4),
            (('closedname', 2), 5), (('reused', 2), 5), (('wks', 2), 4)]


def main(tier='quick', seed=0, part=None):
    run = Run(PROP, tier, seed, level='model_checking')
    bounds = []
    tot = dict(states=0, transitions=0, sound_checks=0, replay_steps=0)
    all_done = True
    for cfg, depth in plan(tier):
        if part and cfg[0] != part:
            continue
        spec = Spec(cfg)

        def on_violation(hist, sig, detail):
            d = dict(detail)
            d['history'] = [list(a) for a in hist]
            run.fail(sig, d, deviations=len(hist))
        res = bfs.psearch(spec, depth, seed=seed, on_violation=on_violation)
        for k, v in spec.stats.items():
            run.count(k, v)
        done = res.depth_completed == depth or res.exhausted
        all_done &= done
        bounds.append(dict(prepared_state=cfg[0], sockets_on_A=cfg[1],
                           depth_bound=depth,
                           depth_completed=res.depth_completed,
                           frontier_exhausted=res.exhausted,
                           states=res.states, transitions=res.transitions,
                           new_states_per_depth=res.per_depth))
        for k in tot:
            tot[k] += getattr(res, k)
        run.outcome(cfg)
        print("  %-12s slots=%d depth=%d states=%d transitions=%d" % (
            cfg[0], cfg[1], res.depth_completed, res.states, res.transitions))
    run.extra['bounds'] = bounds
    run.extra['alphabet'] = dict(
        bind=[repr(a) for a in BIND_ARGS], rebind=[repr(a) for a in REBIND_ARGS],
        resolve=RESOLVE_NAMES, connect=CONNECT_NAMES + CONNECT_ADDRS,
        connect_keep=KEEP_NAMES, connect_lazy=KEEP_NAMES,
        sendto=SENDTO_ADDRS, socket=KINDS)
    run.extra['soundness'] = dict(
        snapshot_vs_replay_checks=tot['sound_checks'],
        replay_steps=tot['replay_steps'])
    run.rule = ("state = canonical dump of both controllers, their SAPs, "
                "sockets and the reference table after a history of macro "
                "steps; distinct = distinct dump per (prepared state, socket "
                "slots)")
    run.assumptions += [
        "pair MAC: real activate() on both controllers, frames go "
        "collect->encode->decode->dispatch; every macro step ends with a "
        "quiet link",
        "connect by name is the real blocking connect()/close() of the peer "
        "in a virtual thread; connect by address and datagrams come from "
        "scripted peer sockets; resolve() is run as its two halves (request "
        "queued / answer read) on the controller thread",
        "accepted connections are closed again inside the connect step, "
        "except one connection at a time kept open by connect_keep (its "
        "accepted socket takes a socket slot); at most %d sockets are open "
        "on A besides the prepared ones" % max(c[1] for c, _ in plan(tier)),
        "the peer's SDP cache is honoured: only uncached resolve() answers "
        "are compared with the table",
    ]
    run.sample(sample_trace())
    for b in bounds[:3]:
        run.sample(b)
    cov = dict(states=tot['states'], transitions=tot['transitions'],
               traces_validated_against_impl=tot['transitions'],
               evaluations=tot['transitions'],
               distinct_nontrivial=tot['states'])
    print("C17 states=%d transitions=%d sound_checks=%d" % (
        tot['states'], tot['transitions'], tot['sound_checks']))
    return run.finish(coverage=cov, exhaustive=all_done)


def sample_trace():
    spec = Spec(('init', 2))
    hist = [('socket', 0, 'DLC'), ('bind', 0, NAME_A), ('listen', 0),
            ('resolve', NAME_A), ('connect', NAME_A), ('close', 0),
            ('resolve', 'urn:nfc:sn:ab')]
    w = spec.init()
    steps = []
    for a in hist:
        v = spec.apply(w, a)
        steps.append(dict(op=list(a), table=spec.table(w),
                          violations=[s for s, _ in v]))
    return dict(cfg=spec.cfg, steps=steps)


def replay(doc):
    d = doc['detail']
    cfg = (d['cfg'][0], d['cfg'][1])
    spec = Spec(cfg)
    hist = [tuple(a) for a in d['history']]
    print("C17 replay cfg(prepared state, slots)=%r" % (cfg,))
    w = spec.init()
    sigs = set()
    for a in hist:
        v = spec.apply(w, a)
        print("  %-40r table=%r" % (a, spec.table(w)))
        for s, det in v:
            print("    violation: %s" % s)
            print("      %r" % {k: det[k] for k in det if k != 'table'})
            sigs.add(s)
    if doc['signature'] in sigs:
        print("REPRODUCED %s" % doc['signature'])
        return 1
    print("not reproduced")
    return 0
