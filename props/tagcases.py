"""Shared enumeration and execution code of C01 / C02 / C03.

A *case object* describes one well-formed tag layout (DESIGN Appendix A): it
can build a fresh simulator holding an empty NDEF message, pre-load a previous
message through the reference writer of ref/, say what an independent reader
must see (ref/), and which byte addresses form the NDEF area.

Generators only construct layouts (no filtering of random ones); every
constructed layout is self-checked against Appendix A by `selfcheck()`.
"""
from sim import tagsim, t1t, t2t, t3t, t4t
from ref import tlv, t3 as r3, t4 as r4

PATTERNS = ('count', 'tlv', 'zero', 'ff')
PREVS = ('empty', 'long', 'short')
_TLVISH = (0x03, 0xFE, 0xFF, 0x00, 0x01, 0x02, 0xFD)


def content(pattern, n, salt=0):
    if pattern == 'zero':
        return bytes(n)
    if pattern == 'ff':
        return b'\xFF' * n
    if pattern == 'count':
        return bytes((i + 1 + salt) & 0xFF for i in range(n))
    if pattern == 'tlv':
        return bytes(_TLVISH[(i + salt) % 7] for i in range(n))
    if pattern == 'old':        # C02: every byte has bit 7 clear, never 0
        return bytes(1 + (i * 5 + salt) % 126 for i in range(n))
    if pattern == 'new':        # C02: every byte has bit 7 set, never 0xFF
        return bytes(0x80 | (i * 3 + salt) % 127 for i in range(n))
    raise ValueError(pattern)


def lengths(cap, unit, tier, coarse=64, all_below=300, fine=None):
    """Message lengths explored for a layout with reference capacity `cap`:
    all of 0..cap+1 when cap <= all_below, otherwise 0..3, 252..258,
    cap-3..cap+1 and m-1, m, m+1 for every multiple m of `fine` (thorough,
    default: the write unit) / of max(unit, coarse) (quick)."""
    if cap <= all_below:
        return list(range(0, cap + 2))
    s = set(range(0, 4)) | set(range(252, 259)) | set(range(cap - 3, cap + 2))
    step = (fine or unit) if tier == 'thorough' else max(unit, coarse)
    for m in range(step, cap + 1, step):
        s.update((m - 1, m, m + 1))
    return sorted(x for x in s if 0 <= x <= cap + 1)


def len_class(n):
    return 'len=0' if n == 0 else ('len<255' if n < 255 else 'len>=255')


# ---------------------------------------------------------------------------
class Case(object):
    kind = '?'          # T1 T2 T3 T3emu T4
    unit = 1
    name = ''

    def new_sim(self):
        raise NotImplementedError

    def clf_args(self):
        return {}

    def activate(self, sim):
        return tagsim.activate(sim, **self.clf_args())

    def pclass(self, n, detail=False, op='write'):
        """Parameter class of a failing case for the signature: the coarse
        class that is known to matter for `op`; detail=True (oracle failures
        that are not exceptions) adds the layout class."""
        return len_class(n)

    def c03class(self, op, n):
        """Parameter class for C03 signatures."""
        return self.pclass(n, False, op)

    def area_map(self):
        """{image key: frozenset(addresses)} of the NDEF area (cached)"""
        m = getattr(self, '_area_map', None)
        if m is None:
            m = {}
            for (k, a) in self.area():
                m.setdefault(k, set()).add(a)
            m = self._area_map = {k: frozenset(v) for k, v in m.items()}
        return m

    def outside_map(self):
        """{image key: sorted addresses outside the NDEF area} (cached)"""
        m = getattr(self, '_outside_map', None)
        if m is None:
            img = self.new_sim().image()
            am = self.area_map()
            m = self._outside_map = {
                k: [a for a in range(len(v)) if a not in am.get(k, ())]
                for k, v in img.items()}
        return m


# ---------------------------------------------------------------------------
# Type 1 / Type 2: TLV based data areas
# ---------------------------------------------------------------------------
T2_PRODUCTS = {
    'generic': dict(uid0=0x05),                     # not NXP: plain Type2Tag
    'ul':      dict(uid0=0x04),                     # mute on 60h: MifareUltralight
    'ntag203': dict(uid0=0x04, unsupported='nak'),
    'ulc':     dict(uid0=0x04, ulc=True),
    'ntag210': dict(uid0=0x04, version='0004040101000B03'),
    'ntag212': dict(uid0=0x04, version='0004040101000E03'),
    'ntag213': dict(uid0=0x04, version='0004040201000F03'),
    'ntag215': dict(uid0=0x04, version='0004040201001103'),
    'ntag216': dict(uid0=0x04, version='0004040201001303'),
}
T2_SIZES = {48: ('ntag210', 'ul', 'generic'), 64: ('generic',),
            128: ('ntag212',), 144: ('ntag213', 'ntag203', 'ulc'),
            504: ('ntag215',), 888: ('ntag216',), 1016: ('generic', 'ul'),
            2040: ('generic',)}
RSV_CLASSES = ('none', 'before', 'early', 'mid', 'tail2', 'endx', 'beyond')


class TlvCase(Case):
    """T1 and T2 share the TLV data area model."""

    def __init__(self, kind, name, image0, start, end, fixed, unit, simargs,
                 pc):
        self.kind = kind
        self.name = name
        self.image0 = bytes(image0)
        self.start, self.end = start, end
        self.fixed = frozenset(fixed)
        self.unit = unit
        self.simargs = simargs
        self.pc = pc                # parameter classes for signatures
        self.lay0 = self.layout(self.image0)
        self.selfcheck()

    def layout(self, mem):
        return tlv.walk(mem, self.start, self.end, self.fixed)

    def selfcheck(self):
        lay = self.lay0
        assert lay.error is None and lay.length == 0, (self.name, lay.error)
        o = lay.ndef_off
        assert o == self.pc['o'], (self.name, o, self.pc['o'])
        # the property excludes reserved bytes on the NDEF T and length-field
        # bytes; the length field can have 3 bytes only if 255 octets fit
        excl = {o, o + 1}
        if lay.capacity >= 255:
            excl |= {o + 2, o + 3}
        for (a, t, n) in lay.tlvs:
            if t == tlv.NULL:
                excl.add(a)
            elif t != tlv.NDEF:
                ls = 1 if n < 255 else 3
                excl.update(range(a, a + 1 + ls + n))
        assert not (excl & lay.reserved), (self.name, sorted(excl & lay.reserved))
        assert lay.avail >= 2

    def new_sim(self):
        if self.kind == 'T1':
            return t1t.Type1TagSim(bytearray(self.image0), **self.simargs)
        return t2t.Type2TagSim(bytearray(self.image0), **self.simargs)

    def ref_capacity(self):
        return self.lay0.capacity

    def preload(self, sim, msg):
        tlv.place(sim.mem, self.lay0, msg)

    def ref_read(self, image):
        lay = self.layout(image['mem'])
        if lay.error is not None:
            return None
        return lay.value(image['mem'])

    def area(self, image=None):
        return {('mem', a) for a in self.lay0.area}

    def tlv_reserved(self):
        return set(self.lay0.tlv_reserved)

    def addr_class(self, k, a):
        if self.kind == 'T2':
            if a < 10:
                return 'uid'
            if a < 12:
                return 'static-lock'
            if a < 16:
                return 'cc'
            if a in self.simargs['oneway']:
                return 'dynamic-lock'
        else:
            if a < 8:
                return 'uid'
            if a < 12:
                return 'cc'
            if 104 <= a < 112:
                return 'reserved-block-D'
            if a in (112, 113):
                return 'static-lock'
            if 114 <= a < 120:
                return 'otp'
            if a in self.fixed:
                return 'lock/reserved-block-F'
        if a in self.lay0.tlv_reserved:
            return 'reserved-by-tlv'
        if a >= self.end:
            return 'beyond-data-area'
        if a < self.lay0.ndef_off:
            return 'tlv-prefix'
        return 'ndef-area'

    def c03class(self, op, n):
        if op == 'write':
            return '%s,rsv=%s' % (len_class(n), self.pc['rsv'])
        if self.kind == 'T1':       # product specific format(): CC and TLVs
            return self.pc['product']   # are re-created whatever was there
        return 'rsv=%s' % self.pc['rsv']

    def pclass(self, n, detail=False, op='write'):
        s = len_class(n)
        if detail:
            s += ',%s,rsv=%s' % (self.pc['mem'], self.pc['rsv'])
        return s


def _enc_down(a):
    while tlv.encode_addr(a) is None:
        a -= 1
    return a


def _custom_rsv(mem, p, rsv, rlen, unit, end, nulls, phys_end):
    """Write the custom control TLV for reserved class `rsv` at p (prefix
    position) followed by `nulls` NULL TLVs.  Returns (end of prefix, NDEF
    offset o).  Classes: before = gap between prefix and NDEF T byte, early =
    first allowed value byte (o+4), afterL = o+2 (only for data areas that
    never need the 3-byte length), mid = straddling a write-unit boundary in
    the middle of the data area, tail2 = the last two (or, where the address
    cannot be encoded, a few more) bytes of the data area, endx = across the
    end of the data area, beyond = behind the data area."""
    if rsv == 'none':
        return p + nulls, p + nulls
    q = p + 5 + nulls                   # end of prefix TLVs
    if rsv == 'before':
        a, o = q, q + rlen
    else:
        o = q
        if rsv in ('early', 'afterL'):
            a = o + (4 if rsv == 'early' else 2)
        elif rsv == 'mid':
            a = (o + (end - o) // 2) | (unit - 1)     # last byte of a unit
            while tlv.encode_addr(a) is None:
                a -= unit
            assert a >= o + 4
        elif rsv == 'tail2':
            a = _enc_down(end - 2)
            rlen = end - a
        elif rsv == 'endx':
            a = _enc_down(end - 1)
            rlen = end + 1 - a
        elif rsv == 'beyond':
            a = phys_end
            while tlv.encode_addr(a) is None:
                a += 1
        elif rsv == 'sector':
            # straddling the border between the first and the second 1 KiB
            # sector of a Type 2 Tag (byte 1024)
            a = _enc_down(1023)          # 975: the last encodable address
            rlen = 1024 - a + rlen       # ... so the range ends rlen behind
            assert o + 4 < a < 1024 < a + rlen <= end, (a, rlen, end)
        else:
            raise ValueError(rsv)
    assert tlv.encode_addr(a) is not None, (rsv, a)
    if rsv in ('mid', 'endx', 'beyond'):
        t = tlv.lock_tlv(a, rlen * 8 - 3)       # bits, rounded up to rlen bytes
    else:
        t = tlv.mem_tlv(a, rlen)
    mem[p:p + 5] = t
    return q, o


def t2_case(D, product, nulls=0, rsv='none', rlen=2, fill=None):
    """fill = k: NDEF TLV placed k bytes before the end of the data area
    behind a proprietary TLV filler."""
    end = 16 + D
    rsv0 = rsv
    dyn = D > 48
    nbits = (D - 48 + 7) // 8 if dyn else 0
    nlock = (nbits + 7) // 8
    tail = 0 if (product == 'ul' and not dyn) else ((nlock + 3) // 4) * 4 + 12
    prod = T2_PRODUCTS[product]
    mem = bytearray(end + tail)
    u0 = prod['uid0']
    mem[0:3] = bytes([u0, 0x11, 0x22])
    mem[3] = 0x88 ^ u0 ^ 0x11 ^ 0x22
    mem[4:8] = bytes([0x33, 0x44, 0x55, 0x66])
    mem[8] = 0x33 ^ 0x44 ^ 0x55 ^ 0x66
    mem[9] = 0x48
    mem[12:16] = bytes([0xE1, 0x10, D // 8, 0x00])
    for i in range(end + nlock, end + tail):
        mem[i] = 0xC0 | (i & 0x0F)              # configuration pages: not zero
    p = 16
    if dyn:
        mem[p:p + 5] = tlv.lock_tlv(end, nbits)
        p += 5
    if fill is not None:
        o = end - fill
        n = o - p - 2
        if n >= 255:
            n -= 2
            assert n >= 255
            mem[p:p + 4] = bytes([tlv.PROP, 0xFF, n >> 8, n & 255])
            v = p + 4
        else:
            mem[p:p + 2] = bytes([tlv.PROP, n])
            v = p + 2
        for i in range(v, o):
            mem[i] = 0xB0 | (i & 7)
        rsv = 'fill%d' % fill
    else:
        p, o = _custom_rsv(mem, p, rsv, rlen, 4, end, nulls, end + nlock)
    mem[o] = tlv.NDEF
    mem[o + 1] = 0
    if o + 2 < end:
        mem[o + 2] = tlv.TERM
    simargs = dict(oneway=frozenset(range(end, end + nlock)))
    if prod.get('version'):
        simargs['version'] = bytes.fromhex(prod['version'])
    if prod.get('unsupported'):
        simargs['unsupported'] = prod['unsupported']
    if prod.get('ulc'):
        simargs['ulc'] = True
    name = 'T2|D=%d|%s|nulls=%d|rsv=%s/%d' % (D, product, nulls, rsv, rlen)
    pc = dict(mem='dynamic' if dyn else 'static', rsv=rsv, o=o, D=D,
              product=product)
    case = TlvCase('T2', name, mem, 16, end, (), 4, simargs, pc)
    case.spec = ('t2', D, product, nulls, rsv0, rlen, fill)
    return case


def t1_case(size, hr1, nulls=0, rsv='none', rlen=2, fill=None):
    static = size == 120
    rsv0 = rsv
    hr = (0x11 if static else 0x12, hr1)
    mem = bytearray(size)
    mem[0:8] = bytes.fromhex('A1B2C3D4E5F60700')
    mem[8:12] = bytes([0xE1, 0x10, size // 8 - 1, 0x00])
    for i in range(104, 112):
        mem[i] = 0x55                               # block D: reserved, locked
    fixed = range(104, 120 if static else 128)
    usable_end = 104 if static else size
    p = 12
    if not static:
        mem[p:p + 5] = tlv.lock_tlv(122, (size - 128) // 8)
        mem[p + 5:p + 10] = tlv.mem_tlv(120, 2)
        p += 10
    if fill is not None:
        o = usable_end - fill                       # NULL TLV filler
        rsv = 'fill%d' % fill
    else:
        p, o = _custom_rsv(mem, p, rsv, rlen, 1 if static else 8, usable_end, nulls, size)
    mem[o] = tlv.NDEF
    mem[o + 1] = 0
    if o + 2 < usable_end:
        mem[o + 2] = tlv.TERM
    name = 'T1|size=%d|hr1=%02X|nulls=%d|rsv=%s/%d' % (size, hr1, nulls, rsv, rlen)
    pc = dict(mem='static' if static else 'dynamic', rsv=rsv, o=o, D=size,
              product={0x48: 'Topaz', 0x4C: 'Topaz512'}.get(hr1, 'generic'))
    case = TlvCase('T1', name, mem, 12, size, fixed, 1 if static else 8,
                   dict(hr=hr), pc)
    case.spec = ('t1', size, hr1, nulls, rsv0, rlen, fill)
    return case


def t2_cases(tier, sizes=None, full_align=True):
    out = []
    for D in sorted(sizes or T2_SIZES):
        prods = T2_SIZES[D] if tier == 'thorough' else T2_SIZES[D][:1]
        if tier != 'thorough' and D == 48:
            # also the product whose physical memory ends with the data area
            # (nothing behind it that a stray write could land in)
            prods = prods + ('ul',)
        for product in prods:
            for rsv in RSV_CLASSES:
                if rsv == 'beyond' and product == 'ul' and D == 48:
                    continue                        # no memory behind the data area
                rlens = (2,) if rsv in ('none', 'tail2', 'endx') else (1, 2, 5)
                if tier != 'thorough':
                    rlens = rlens[-1:] if rsv != 'before' else (1,)
                for rlen in rlens:
                    for nulls in range(4):
                        out.append(t2_case(D, product, nulls, rsv, rlen))
            if D <= 254:
                for nulls in range(2):
                    out.append(t2_case(D, product, nulls, 'afterL', 1))
            for fill in (2, 3, 6):
                out.append(t2_case(D, product, fill=fill))
            if D >= 1016:       # reserved range across the sector border
                out.append(t2_case(D, product, 0, 'sector', 8))
                out.append(t2_case(D, product, 2, 'sector', 3))
            if D >= 504:        # Memory Control TLV size octet 00h = 256 bytes
                for rsv in ('before', 'early'):
                    out.append(t2_case(D, product, 0, rsv, 256))
            if D == 504:        # avail around the 1-byte / 3-byte length switch
                for fill in range(254, 261):
                    out.append(t2_case(D, product, fill=fill))
    return out


T1_SIZES = ((120, 0x48), (120, 0x00), (512, 0x4C), (256, 0x00))


def t1_cases(tier):
    out = []
    for size, hr1 in T1_SIZES:
        static = size == 120
        for rsv in RSV_CLASSES:
            rlens = (2,) if rsv in ('none', 'tail2', 'endx') else (1, 2, 5)
            if tier != 'thorough':
                rlens = rlens[-1:] if rsv != 'before' else (1,)
            for rlen in rlens:
                for nulls in range(3 if static else 8):
                    out.append(t1_case(size, hr1, nulls, rsv, rlen))
        if static:
            for nulls in range(2):
                out.append(t1_case(size, hr1, nulls, 'afterL', 1))
        for fill in (2, 3, 6):
            out.append(t1_case(size, hr1, fill=fill))
        if size == 512:
            for fill in range(254, 261):
                out.append(t1_case(size, hr1, fill=fill))
            # Memory Control TLV size octet 00h = 256 reserved bytes
            for rsv in ('before', 'early'):
                out.append(t1_case(size, hr1, 0, rsv, 256))
    return out


# ---------------------------------------------------------------------------
# Type 3
# ---------------------------------------------------------------------------
class T3Case(Case):
    unit = 16

    def __init__(self, nbr, nbw, nmaxb, emulated=False, spare=1):
        self.kind = 'T3emu' if emulated else 'T3'
        self.nbr, self.nbw, self.nmaxb = nbr, nbw, nmaxb
        self.emulated = emulated
        self.spare = spare
        self.name = '%s|nbr=%d|nbw=%d|nmaxb=%d' % (self.kind, nbr, nbw, nmaxb)
        self.spec = ('t3', nbr, nbw, nmaxb, emulated, spare)
        mem = bytearray(16 * (1 + nmaxb + spare))
        mem[0:16] = r3.build_attr(0x10, nbr, nbw, nmaxb, 0, 1, 0)
        for i in range(16 * (1 + nmaxb), len(mem)):
            mem[i] = 0xE0 | (i & 15)            # blocks beyond Nmaxb
        self.image0 = bytes(mem)
        assert r3.well_formed(mem)
        # largest write command must fit a FeliCa frame (LEN is one byte)
        elem = 3 if nmaxb > 255 else 2
        assert 14 + nbw * (16 + elem) <= 255 and 13 + 16 * nbr <= 255

    def new_sim(self):
        if self.emulated:
            return t3t.LibraryT3TSim(bytearray(self.image0))
        return t3t.Type3TagSim(bytearray(self.image0), nbr=self.nbr,
                               nbw=self.nbw)

    def ref_capacity(self):
        return 16 * self.nmaxb

    def preload(self, sim, msg):
        r3.place(sim.mem, msg)

    def dirty(self, sim, n):
        for a in range(16 + n, 16 * (1 + self.nmaxb)):
            sim.mem[a] = 0x21 + a % 0x5D

    def ref_read(self, image):
        return r3.read(image['mem'])

    def area(self, image=None):
        return {('mem', a) for a in r3.area(self.image0)}

    def addr_class(self, k, a):
        if a < 16:
            return 'attribute-field-%d' % a
        if a >= 16 * (1 + self.nmaxb):
            return 'block>nmaxb'
        return 'ndef-area'

    def pclass(self, n, detail=False, op='write'):
        s = 'len=0' if n == 0 else 'len>0'
        if detail:
            s += ',nmaxb%s' % ('>255' if self.nmaxb > 255 else '<=255')
        return s


T3_NMAXB = (1, 2, 3, 13, 16, 17, 255, 256)


def t3_cases(tier):
    out = []
    if tier == 'thorough':
        nbrs, nbws = range(1, 16), range(1, 14)
    else:
        nbrs, nbws = (1, 2, 4, 12, 15), (1, 2, 4, 12, 13)
    for nmaxb in T3_NMAXB:
        for nbr in nbrs:
            for nbw in nbws:
                if nmaxb > 255 and nbw > 12:
                    continue        # 13 three-byte elements exceed a frame
                if nmaxb >= 255 and tier == 'thorough' and (
                        nbr not in (1, 2, 3, 4, 5, 8, 12, 15) or
                        nbw not in (1, 2, 3, 4, 8, 12, 13)):
                    continue        # 4 KiB tags: reduced Nbr x Nbw grid
                # physical blocks behind Nmaxb: one for odd Nbr, none for even
                out.append(T3Case(nbr, nbw, nmaxb, spare=nbr % 2))
    # tags of more than 64 KiB: Ln needs its upper octet (3-octet block list
    # elements, block numbers above 4095)
    out.append(T3Case(15, 12, 4100, spare=1))
    if tier == 'thorough':
        out.append(T3Case(4, 3, 4097, spare=0))
        out.append(T3Case(12, 8, 8200, spare=1))
    blocks = range(1, 65) if tier == 'thorough' else (1, 2, 3, 4, 5, 8, 15, 16,
                                                      17, 31, 32, 33, 63, 64)
    for nb in blocks:
        for nbr, nbw in ((1, 1), (4, 3), (12, 8), (15, 13)):
            out.append(T3Case(nbr, nbw, nb, emulated=True, spare=0))
    return out


# ---------------------------------------------------------------------------
# Type 4
# ---------------------------------------------------------------------------
class T4Case(Case):
    def __init__(self, mapping, mle, mlc, mfs, fsci=8, tech='A'):
        self.kind = 'T4'
        self.mapping, self.mle, self.mlc, self.mfs = mapping, mle, mlc, mfs
        self.fsci, self.tech = fsci, tech
        self.cc = t4t.cc_file(mapping, mle, mlc, b'\xE1\x04', mfs)
        self.c = r4.CC(self.cc)
        assert self.c.ok and mle >= 15 and mlc >= 1 and mfs >= 5
        self.unit = mlc
        self.name = 'T4|v%02X|mle=%d|mlc=%d|mfs=%d|fsci=%d|%s' % (
            mapping, mle, mlc, mfs, fsci, tech)
        self.other = bytes(0xD0 | (i & 15) for i in range(32))
        self.spec = ('t4', mapping, mle, mlc, mfs, fsci, tech)

    def new_sim(self):
        return t4t.Type4TagSim(self.cc, bytearray(self.mfs), tech=self.tech,
                               fsci=self.fsci,
                               extra_files={b'\xE1\x05': self.other})

    def ref_capacity(self):
        return self.c.capacity

    def preload(self, sim, msg):
        r4.place(self.cc, sim.files[sim.fid], msg)

    def dirty(self, sim, n):
        f = sim.files[sim.fid]
        for a in range(self.c.nlen_size + n, self.mfs):
            f[a] = 0x21 + a % 0x5D

    def ref_read(self, image):
        return r4.read(self.cc, image['e104'])

    def area(self, image=None):
        return {('e104', a) for a in range(self.mfs)}

    def addr_class(self, k, a):
        return {'e103': 'cc-file', 'e105': 'other-file'}.get(k, 'ndef-file')

    def pclass(self, n, detail=False, op='write'):
        """Hazard classes: reading more than 256 octets with MLe > 256,
        writing more than 255 octets (NLEN included) with MLc > 255, writing
        with MLc smaller than the NLEN field; everything else is 'regular'."""
        nl = self.c.nlen_size
        flags = []
        if n == 0:
            flags.append('len=0')
        if n + nl > 0x8000:
            flags.append('len+nlen>32768')      # offsets need more than 15 bits
        if op == 'read':
            if self.mle > 256 and n > 256:
                flags.append('MLe>256,len>256')
        else:
            if self.mlc > 255 and n + nl > 255:
                flags.append('MLc>255,len+nlen>255')
            if self.mlc < nl and n > 0:
                flags.append('MLc<nlen_size,len>0')
        s = ','.join(flags)
        if not s:
            s = 'regular' + (',v%02X' % self.mapping if detail else '')
        return s


T4_MLE = (15, 16, 59, 255, 256, 257, 1024)
T4_MLC = (1, 2, 13, 52, 255, 256, 1024)
T4_MFS = (5, 64, 255, 256, 257, 2048)


def t4_cases(tier):
    """mapping x MLe x MLc x mfs is a full product.  FSCI 0..8 and Type A/B
    only change the block layer below the APDUs: thorough crosses them fully
    with the (MLe, MLc) corner set and rotates them over the rest; quick
    rotates them over everything."""
    out = []
    i = 0
    for mapping in (0x20, 0x30):
        for mle in T4_MLE:
            for mlc in T4_MLC:
                for mfs in T4_MFS:
                    i += 1
                    out.append(T4Case(mapping, mle, mlc, mfs, fsci=i % 9,
                                      tech='AB'[(i // 9) % 2]))
    # a file that needs the extended TLV: READ/UPDATE BINARY offsets >= 8000h
    out.append(T4Case(0x30, 256, 255, 0x8000 + 600, 8, 'A'))
    if tier == 'thorough':
        for mapping in (0x20, 0x30):
            for mle, mlc in ((15, 1), (59, 13), (255, 255), (256, 52)):
                for mfs in (64, 257):
                    for fsci in range(9):
                        for tech in 'AB':
                            out.append(T4Case(mapping, mle, mlc, mfs, fsci, tech))
    seen, uniq = set(), []
    for c in out:
        if c.name not in seen:
            seen.add(c.name)
            uniq.append(c)
    return uniq


def all_cases(tier, kinds=None):
    out = []
    for k, fn in (('T1', t1_cases), ('T2', t2_cases), ('T3', t3_cases),
                  ('T4', t4_cases)):
        if kinds is None or k in kinds:
            out += fn(tier)
    return out


QUICK_COMBOS = (('count', 'empty'), ('tlv', 'long'))
# Type 3 / 4: also the previous message followed by zeros, written over a tag
# that holds remains of an older message behind the current one
DIRTY_COMBOS = QUICK_COMBOS + (('prevzeros', 'dirty'),)
MID_COMBOS = (('count', 'empty'), ('tlv', 'long'), ('ff', 'short'),
              ('zero', 'long'))
FULL_COMBOS = tuple((p, q) for q in PREVS for p in PATTERNS)

GRID_DOC = {
    'quick': {
        'combos(pattern,previous)': 'count/empty, tlv/long for every layout',
        'T1,T2 lengths': 'all 0..cap+1 if cap<=300 else 0..3,252..258,'
                         'cap-3..cap+1, m-1..m+1 for multiples m of 64',
        'T3': 'Nbr {1,2,4,12,15} x Nbw {1,2,4,12,13} x Nmaxb {1,2,3,13,16,17,'
              '255,256}; lengths as T1/T2 with multiples of 256; one tag '
              'with Nmaxb 4100 (lengths 0,1,255,256,65535..65537,65552,65792,'
              'cap-1..cap+1); emulation with 14 block counts x 4 (Nbr,Nbw)',
        'T4': 'mapping x MLe x MLc x mfs full product, FSCI 0..8 and A/B '
              'rotated; lengths all if cap<=100 else boundary sets + '
              'multiples of max(MLc,64); plus one mapping 3.0 tag with a '
              '33368 byte file (MLe 256, MLc 255), additionally lengths '
              '32760..32771 and 32890..32892',
    },
    'thorough': {
        'combos(pattern,previous)': 'T1/T2 cap<=300: all 4 patterns x 3 '
                                    'previous; T1/T2 cap<=520: count/empty, '
                                    'tlv/long, ff/short, zero/long; larger '
                                    'T1/T2 and all T3/T4: count/empty, tlv/long',
        'T1,T2 lengths': 'all if cap<=300; else boundary sets + multiples of '
                         'the write unit (cap<=520) / of 16 (larger)',
        'T3': 'Nbr 1..15 x Nbw 1..13 for Nmaxb {1,2,3,13,16,17}; Nbr '
              '{1,2,3,4,5,8,12,15} x Nbw {1,2,3,4,8,12,13} for Nmaxb {255,256} '
              'with multiples of 64; Nmaxb 4097, 4100, 8200 with the lengths '
              'around 65536 / 131072 / cap; emulation with 1..64 blocks x 4 '
              '(Nbr,Nbw)',
        'T4': 'full product + FSCI x A/B crossed with 4 (MLe,MLc) corners; '
              'lengths all if cap<=300 else boundary sets + multiples of '
              'max(MLc,16); plus the 33368 byte mapping 3.0 tag (additionally '
              'lengths 32760..32771, 32890..32892)',
    },
}


def plan(case, tier):
    """(lengths, combos) explored for `case` in `tier` (see GRID_DOC)."""
    ls, combos = _plan(case, tier)
    if case.kind in ('T3', 'T4') and combos is QUICK_COMBOS and \
            case.ref_capacity() <= 0x8000:
        combos = DIRTY_COMBOS
    if case.kind == 'T3' and case.ref_capacity() > 0xFFFF:
        cap = case.ref_capacity()
        ls = sorted(x for x in set(
            [0, 1, 255, 256, 0xFFFF, 0x10000, 0x10001, 0x10010, 0x10100,
             0x20000 - 1, 0x20000, 0x20001, cap - 1, cap, cap + 1])
            if x <= cap + 1)
    if case.kind == 'T4' and case.ref_capacity() > 0x8000:
        # around the first READ / UPDATE BINARY offset that needs 16 bits
        extra = set(range(0x8000 - 8, 0x8000 + 4)) | {32890, 32891, 32892}
        ls = sorted(set(ls) | extra)
    return ls, combos


def _plan(case, tier):
    cap = case.ref_capacity()
    tlvk = case.kind in ('T1', 'T2')
    if tier != 'thorough':
        if tlvk:
            ls = lengths(cap, case.unit, tier, 64)
        elif case.kind in ('T3', 'T3emu'):
            ls = lengths(cap, 16, tier, 256)
        else:
            ls = lengths(cap, case.unit, tier, 64, all_below=100)
        return ls, QUICK_COMBOS
    if tlvk:
        ls = lengths(cap, case.unit, tier, fine=None if cap <= 520 else 16)
        return ls, (FULL_COMBOS if cap <= 300 else
                    (MID_COMBOS if cap <= 520 else QUICK_COMBOS))
    if case.kind in ('T3', 'T3emu'):
        ls = lengths(cap, 16, tier, fine=64)
    else:
        ls = lengths(cap, case.unit, tier, fine=max(case.unit, 16))
    return ls, QUICK_COMBOS


def prev_message(case, prev):
    cap = case.ref_capacity()
    if prev == 'empty':
        return b''
    if prev in ('short', 'dirty'):
        return content('count', min(cap, 5), 0xA0)
    return content('count', min(cap, 300), 0x50)


def from_spec(spec):
    spec = tuple(spec)
    k, a = spec[0], spec[1:]
    if k == 't2':
        return t2_case(a[0], a[1], a[2], a[3], a[4], a[5])
    if k == 't1':
        return t1_case(a[0], a[1], a[2], a[3], a[4], a[5])
    if k == 't3':
        return T3Case(*a)
    if k == 't4':
        return T4Case(*a)
    raise ValueError(spec)


# ---------------------------------------------------------------------------
# execution + oracles (C01 and C03 share the executions)
# ---------------------------------------------------------------------------
class Findings(object):
    """Collects (property, signature, detail) of one executed case."""

    def __init__(self, case, base):
        self.case = case
        self.base = base
        self.items = {'C01': [], 'C03': []}
        self.obs = set()

    def fail(self, prop, op, n, what, detail=False, **extra):
        if prop == 'C03':
            cls = self.case.c03class(op, n)
        else:
            cls = self.case.pclass(n, detail, op)
        sig = '%s|%s|%s|%s' % (self.case.kind, op, cls, what)
        d = dict(self.base)
        d.update(extra)
        self.items[prop].append((sig, d))


def c03_oracle(case, f, op, n, before, after, writes, damage,
               protected=None):
    """Byte-wise diff outside the NDEF area (or, for operations that
    re-create management data by design, inside `protected` only:
    {key: addresses}), plus "no write command whose whole unit lies outside
    the NDEF area" and no access the simulator had to refuse."""
    area = case.area_map()
    check = case.outside_map() if protected is None else protected
    seen = set()
    for k, addrs in check.items():
        a0, a1 = before[k], after[k]
        if a0 == a1:
            continue
        for a in addrs:
            if a0[a] != a1[a]:
                cls = case.addr_class(k, a)
                if cls not in seen:
                    seen.add(cls)
                    f.fail('C03', op, n, 'changed:' + cls, detail=True,
                           addr=[k, a], old=a0[a], new=a1[a])
    useen = set()
    for w in writes:
        if protected is not None:
            pk = protected.get(w.area, ())
            bad = w.end > w.start and all(a in pk for a in range(w.start, w.end))
        else:
            ak = area.get(w.area, ())
            bad = not any(a in ak for a in range(w.start, w.end))
        if bad:
            cls = case.addr_class(w.area, w.start)
            if cls not in useen and cls not in seen:    # else: same damage
                useen.add(cls)
                f.fail('C03', op, n, 'unit-outside-area:' + cls, detail=True,
                       write=[w.area, w.start, w.end, w.data])
    for d in damage:
        if not d.startswith('one-way'):         # those show up in the diff
            word = d.split(' at ')[0].split(':')[0]
            word = ''.join(ch for ch in word if not ch.isdigit()).strip()
            f.fail('C03', op, n, 'refused-by-tag:' + word, detail=True,
                   damage=d)
            break


def check_write(case, prev, pattern, n):
    """One write-then-read case; returns Findings (C01 and C03 verdicts)."""
    from mc.evidence import sig_exc
    f = Findings(case, dict(op='write', spec=list(case.spec), case=case.name,
                            prev=prev, pattern=pattern, n=n))
    sim = case.new_sim()
    old = prev_message(case, prev)
    if old:
        case.preload(sim, old)
    if prev == 'dirty':
        # remains of an older, longer message behind the current one (a
        # writer need not clear what the length field no longer covers)
        case.dirty(sim, len(old))
    before = sim.image()
    try:
        clf, tag = case.activate(sim)
        nd = tag.ndef if tag is not None else None
    except Exception as e:
        f.fail('C01', 'read', len(old), sig_exc(e), exc=repr(e))
        return f
    if nd is None:
        f.fail('C01', 'read', len(old), 'ndef-none', detail=True)
        return f
    if nd.octets != old or nd.length != len(old):
        f.fail('C01', 'read', len(old), 'initial-read-mismatch', detail=True,
               got=nd.octets[:64], want=old[:64])
        return f
    cap, refcap = nd.capacity, case.ref_capacity()
    f.cap = cap
    if cap > refcap:
        f.fail('C01', 'capacity', n, 'capacity>model', detail=True,
               capacity=cap, model=refcap)
        # go on: the tag object accepts up to `cap` octets, so the largest
        # planned length is replaced by the reported capacity to let the
        # C03 oracle see where such a write lands
        if n == refcap + 1:
            n = cap
        elif n > refcap:
            return f
    elif cap < refcap:
        f.obs.add('capacity<model')
    if not nd.is_writeable or not nd.is_readable:
        f.fail('C01', 'read', len(old), 'not-writeable', detail=True)
        return f
    if pattern == 'prevzeros':
        # the previous message followed by zeros
        msg = (old + bytes(n))[:n]
    else:
        msg = content(pattern, n)
    mark_c, mark_w, mark_d = sim.n_cmds, len(sim.writes), len(sim.damage)
    exc = None
    try:
        nd.octets = msg
    except Exception as e:
        exc = e
    after = sim.image()
    c03_oracle(case, f, 'write', n, before, after, sim.writes[mark_w:],
               sim.damage[mark_d:])
    if n > cap:
        f.obs.add('oversize')
        if exc is None:
            f.fail('C01', 'write', n, 'oversize-accepted', capacity=cap)
        elif not isinstance(exc, ValueError):
            f.fail('C01', 'write', n, 'oversize:' + sig_exc(exc), exc=repr(exc))
        elif sim.n_cmds != mark_c:
            f.fail('C01', 'write', n, 'oversize-commands-sent',
                   commands=sim.n_cmds - mark_c)
        return f
    if exc is not None:
        f.fail('C01', 'write', n, sig_exc(exc), exc=repr(exc), capacity=cap)
        return f
    oob = [d for d in sim.damage[mark_d:]
           if 'beyond' in d or 'non existing' in d]
    if oob:
        f.fail('C01', 'write', n, 'write-outside-memory', detail=True,
               damage=oob[:3])
        return f
    if case.ref_read(after) != msg:
        f.fail('C01', 'write', n, 'model-read-mismatch', detail=True)
        return f
    try:
        clf2, tag2 = case.activate(sim)
        nd2 = tag2.ndef if tag2 is not None else None
    except Exception as e:
        f.fail('C01', 'read', n, sig_exc(e), exc=repr(e), stage='read-back')
        return f
    if nd2 is None:
        f.fail('C01', 'read', n, 'ndef-none', detail=True, stage='read-back')
    elif nd2.octets != msg or nd2.length != n:
        f.fail('C01', 'read', n, 'readback-mismatch', detail=True,
               got_len=nd2.length, got=nd2.octets[:64])
    f.obs.add('n==cap' if n == cap else ('n==0' if n == 0 else 'mid'))
    return f


def format_rules(case):
    """Protected addresses {key: set} for format(), or None = everything
    outside the NDEF area.  Type 2 and Type 4 format() only erase: None.
    Topaz / Topaz-512 format() re-creates CC and TLVs by documented design:
    protected are UID, block D, lock, OTP, bytes reserved by control TLVs (and
    everything beyond the data area - there is no such memory on these tags);
    Type 3 format() re-creates the attribute block: nothing physical is
    protected, the simulator only refuses non existing blocks."""
    if case.kind == 'T1':
        size = len(case.image0)
        prot = set(range(0, 8)) | set(case.fixed) | case.tlv_reserved()
        return {'mem': frozenset(a for a in prot if a < size)}
    if case.kind in ('T3', 'T3emu'):
        return {}
    return None


def check_format(case, prev, wipe):
    """format() / format(wipe=...) on a pre-loaded tag; C03 verdicts."""
    import contextlib
    import io
    from mc.evidence import sig_exc
    op = 'format' if wipe is None else 'format-wipe'
    f = Findings(case, dict(op=op, spec=list(case.spec), case=case.name,
                            prev=prev, wipe=wipe))
    sim = case.new_sim()
    old = prev_message(case, prev)
    if old:
        case.preload(sim, old)
    before = sim.image()
    n = len(old)
    mark_w, mark_d = len(sim.writes), len(sim.damage)
    try:
        clf, tag = case.activate(sim)
        kw = {} if wipe is None else {'wipe': wipe}
        if case.kind in ('T3', 'T3emu'):
            kw['version'] = 0x10      # format(version=None) raises struct.error
        with contextlib.redirect_stdout(io.StringIO()):
            res = tag.format(**kw)
    except Exception as e:
        f.obs.add('format-exception:' + sig_exc(e))
        res = e
    f.result = res
    after = sim.image()
    c03_oracle(case, f, op, n, before, after, sim.writes[mark_w:],
               sim.damage[mark_d:], format_rules(case))
    f.obs.add('format=%r' % (res if not isinstance(res, Exception)
                             else type(res).__name__))
    return f


def check_format_write(case, prev, wipe, frac):
    """A history on ONE tag object: read tag.ndef, format(), then assign a
    message through tag.ndef again.  The write must respect the layout the
    tag has *after* the format (for Type 1/2 computed from the tag memory by
    the reference walker): nothing outside that NDEF area changes during the
    write, and a fresh activation reads the message."""
    import contextlib
    import io
    from mc.evidence import sig_exc
    op = 'format-write'
    f = Findings(case, dict(op=op, spec=list(case.spec), case=case.name,
                            prev=prev, wipe=wipe, frac=frac))
    sim = case.new_sim()
    old = prev_message(case, prev)
    if old:
        case.preload(sim, old)
    try:
        clf, tag = case.activate(sim)
        nd0 = tag.ndef                      # the object has seen the old layout
        kw = {} if wipe is None else {'wipe': wipe}
        if case.kind in ('T3', 'T3emu'):
            kw['version'] = 0x10
        with contextlib.redirect_stdout(io.StringIO()):
            res = tag.format(**kw)
    except Exception as e:
        f.obs.add('format-exception:' + sig_exc(e))
        return f                            # judged by the format cases
    if res is not True:
        f.obs.add('format=%r' % (res,))
        return f
    mid = sim.image()
    if case.kind in ('T1', 'T2'):
        lay = case.layout(mid['mem'])
        if lay.error is not None:
            f.obs.add('layout-after-format-not-readable:' + str(lay.error))
            return f
        area = {'mem': frozenset(lay.area)}
    elif case.kind in ('T3', 'T3emu'):
        # format() probes the number of blocks: the attribute block it wrote
        # says what the data area is now
        area = {'mem': frozenset(r3.area(mid['mem']))}
    else:
        area = case.area_map()
    mark_w, mark_d = len(sim.writes), len(sim.damage)
    try:
        nd = tag.ndef
        if nd is None:
            f.obs.add('ndef-none-after-format')
            return f
        cap = nd.capacity
        if case.kind == 'T4':
            # (offsets from 8000h on are not addressable: recorded C01
            # finding, not the subject here)
            cap = min(cap, 0x7F00)
        n = {'0': 0, '1': min(1, cap), 'half': cap // 2, 'cap': cap}[frac]
        msg = content('count', n, 0x31)
        nd.octets = msg
    except Exception as e:
        f.fail('C03', op, 0, sig_exc(e), exc=repr(e), stage='write')
        return f
    after = sim.image()
    seen = set()
    for k, v in mid.items():
        ak = area.get(k, ())
        for a in range(len(v)):
            if a not in ak and v[a] != after[k][a] and 'x' not in seen:
                seen.add('x')
                f.fail('C03', op, n, 'changed-outside-area-after-format',
                       detail=True, addr=[k, a], old=v[a], new=after[k][a],
                       ndef_area_after_format=[min(ak), max(ak)] if ak
                       else None)
    for d in sim.damage[mark_d:]:
        if not d.startswith('one-way'):
            f.fail('C03', op, n, 'refused-by-tag', detail=True, damage=d)
            break
    try:
        clf2, tag2 = case.activate(sim)
        nd2 = tag2.ndef if tag2 is not None else None
    except Exception as e:
        f.fail('C03', op, n, 'read-back:' + sig_exc(e), exc=repr(e))
        return f
    if nd2 is None or bytes(nd2.octets) != msg:
        f.fail('C03', op, n, 'read-back-mismatch', detail=True,
               got=None if nd2 is None else bytes(nd2.octets[:48]))
    f.obs.add('format-write:' + frac)
    return f
