"""C07 - Bytes from the remote peer cannot crash or hang the stack.

Parts (each: one malformed input per run = one deviation from a valid
conversation):
  air   two complete stacks over the virtual air (connect(), udp driver,
        NFC-DEP, LLC, SNEP put); the k-th radio frame sent by one side is
        replaced by a mutated frame (every position where the peer speaks:
        ATR/PSL/DEP/DSL-RLS, general bytes, LLCP PDUs inside DEP)
  llcp  real connect()/llc.run against a scripted LLCP peer that injects one
        arbitrary PDU (header grid x TLV boundary grammar, nested AGF,
        maximum size) while SNEP and handover servers, a connection-less
        socket and a listening connection socket are bound
  snep  malformed SNEP / handover fragments inside correctly numbered I PDUs
        to the servers, and malformed responses to the clients
  card  every command code / truncation of valid commands to the Type 3 Tag
        emulation, through process_command and through connect(card=...)
Oracle: connect() returns normally, no thread ends with an uncaught
exception, nothing blocks forever, decode functions raise only their
documented errors.
"""
import itertools
import struct

from mc.evidence import Run, sig_exc
from mc import par, sched, shims
from sim import stack, air
from sim import peer as simpeer

PROP = 'C07'


# =============================================================================
# part 'air'
# =============================================================================
def air_conversation(mutate=None, client='ini', size=200, miu=128, did=None):
    """One whole-stack SNEP put; `mutate(sender, index, frame) -> frame|None`
    may replace a frame on the air.  Returns (sched, ctx, net, obs)."""
    import ndef
    import nfc.snep
    import nfc.llcp
    obs = dict(put=[], client=None, frames={'ini': 0, 'tgt': 0})
    msg = b''.join(ndef.message_encoder(
        [ndef.Record('unknown', '', bytes(range(256))[:size - 3])]))

    class Snep(nfc.snep.SnepServer):
        def process_put_request(self, records):
            obs['put'].append(len(records))
            return 0x81

    srv_role = 'tgt' if client == 'ini' else 'ini'

    def srv_startup(llc):
        obs['srv'] = Snep(llc)
        return llc

    def srv_app(llc, ctx):
        obs['srv'].start()
        return True

    def cli_app(llc, ctx):
        def work():
            try:
                c = nfc.snep.SnepClient(llc)
                obs['client'] = ('ret', c.put_octets(msg))
            except nfc.snep.SnepError as e:
                obs['client'] = ('SnepError', e.errno)
            except nfc.llcp.Error as e:
                obs['client'] = ('llcp.Error', e.errno)
            except sched.Abort:
                raise
            except BaseException as e:
                obs['client'] = ('exc', e)
            finally:
                ctx['stop'] = True
        sched.VThread(target=work, name='client').start()
        return True

    def fate(net, src, dst, data):
        sender = 'tgt' if src == stack.PORT else 'ini'
        k = obs['frames'][sender]
        obs['frames'][sender] += 1
        if mutate is None:
            return data
        parts = data.split()
        if len(parts) != 2:
            return data
        frame = bytes.fromhex(parts[1].decode())
        new = mutate(sender, k, frame)
        if new is None:
            return data
        return parts[0] + b' ' + new.hex().encode()

    opts = dict(ini=dict(miu=miu, sec=False, lto=100),
                tgt=dict(miu=miu, sec=False, lto=100))
    opts[srv_role]['on-startup'] = srv_startup
    apps = {srv_role: srv_app, client: cli_app}
    s, ctx, net = stack.run_pair(opts['ini'], opts['tgt'], ini_app=apps['ini'],
                                 tgt_app=apps['tgt'], horizon=60.0, fate=fate,
                                 max_steps=400000, give_up=10.0)
    stack.DID[0] = did
    try:
        s.run()
    finally:
        stack.DID[0] = None
    return s, ctx, net, obs


def judge_stack(s, ctx, obs):
    bad = []
    for name, e in sorted(ctx['error'].items()):
        bad.append(('connect-raises|%s' % sig_exc(e), dict(side=name,
                                                            error=repr(e))))
    if s.verdict != 'finished':
        bad.append(('hang|%s|%s' % (s.verdict, ','.join(sorted(
            (st[3][0] if len(st) > 3 and st[3] else '?')
            for n, st in s.stuck()))), dict(stuck=s.stuck())))
    for t in s.threads:
        if t.exc is not None and not isinstance(t.exc, sched.Abort):
            bad.append(('thread-dies|%s' % sig_exc(t.exc),
                        dict(thread=t.name, error=repr(t.exc))))
    c = obs.get('client')
    if c is not None and c[0] == 'exc':
        bad.append(('client-raises|%s' % sig_exc(c[1]),
                    dict(error=repr(c[1]))))
    return bad


def frame_kind(brty, frame):
    body = frame[1:] if brty == '106A' else frame
    code = bytes(body[1:3])
    names = {b'\xd4\x00': 'ATR_REQ', b'\xd5\x01': 'ATR_RES',
             b'\xd4\x04': 'PSL_REQ', b'\xd5\x05': 'PSL_RES',
             b'\xd4\x06': 'DEP_REQ', b'\xd5\x07': 'DEP_RES',
             b'\xd4\x08': 'DSL_REQ', b'\xd5\x09': 'DSL_RES',
             b'\xd4\x0a': 'RLS_REQ', b'\xd5\x0b': 'RLS_RES'}
    if code in names:
        return names[code]
    return {1: 'SENS', 2: 'SENS_RES', 9: 'SDD', 5: 'SEL/SDD_RES',
            3: 'SEL_RES/3'}.get(len(frame), 'other%d' % min(len(frame), 20))


def mutations(frame, tier):
    """Single mutations of one valid frame (DESIGN C07 'Enumerated')."""
    out = []
    n = len(frame)
    vals = (0x00, 0xFF, None, 'hi') if tier == 'thorough' else (0xFF, None)
    limit = n if tier == 'thorough' else min(n, 24)
    head = (0x00, 0xFF, None, 'hi')     # length, command code and PFB octets
    for i in range(limit):
        for v in (head if i < 6 else vals):
            b = frame[i] ^ 0x01 if v is None else (
                frame[i] ^ 0x80 if v == 'hi' else v)
            if b != frame[i]:
                out.append(('sub', frame[:i] + bytes([b]) + frame[i + 1:]))
    # NFC-DEP DEP_REQ / DEP_RES: every PDU type x packet number in the PFB
    pos = 1 if frame[:1] == b'\xf0' else 0
    if bytes(frame[pos + 1:pos + 3]) in (b'\xd4\x06', b'\xd5\x07') and \
            n > pos + 3:
        pfbs = range(256) if tier == 'thorough' else [
            t | p for t in (0x00, 0x10, 0x40, 0x50, 0x80, 0x90, 0xC0, 0xE0)
            for p in range(4)]
        for v in pfbs:
            if v != frame[pos + 3]:
                out.append(('pfb', frame[:pos + 3] + bytes([v]) +
                            frame[pos + 4:]))
    for k in range(n if tier == 'thorough' else min(n, 12)):
        out.append(('trunc', frame[:k]))
    for ext in (b'\x00', b'\xff', b'\x00\x00', b'\x80\x01'):
        out.append(('ext', frame + ext))
    # correct length byte, body cut or padded (the driver checks the length)
    for k in (1, 2, 3, 4, 5, 6):
        if n > k + 2:
            body = bytearray(frame[:n - k])
            pos = 1 if body[0] == 0xF0 else 0
            body[pos] = len(body) - pos
            out.append(('cut', bytes(body)))
    for b0 in (0x00, 0x01, 0x02, 0x03, 0xF0, 0xFF):
        out.append(('short', bytes([b0])))
        out.append(('short', bytes([0xF0, b0])))
        out.append(('short', bytes([b0, 0xD5])))
        out.append(('short', bytes([0xF0, b0 & 0x0F, 0xD5])))
    return out


def air_baseline(client):
    """Frames of the unmutated conversation: [(sender, index, brty, frame)]"""
    s, ctx, net, obs = air_conversation(None, client)
    bad = judge_stack(s, ctx, obs)
    if bad or obs['client'] != ('ret', True) or obs['put'] != [1]:
        raise sched.HarnessError("air baseline failed: %r %r" % (bad, obs))
    count = {'ini': 0, 'tgt': 0}
    out = []
    for src, dst, brty, frame in stack.parse_air(net.log):
        sender = 'tgt' if src == stack.PORT else 'ini'
        out.append((sender, count[sender], brty, frame))
        count[sender] += 1
    return out


def air_units(tier):
    units = []
    for client in ('ini', 'tgt'):
        units.append(('air', (client, 'legal', 0, 'legal', [
            (size, miu, did) for did in (None, 1, 14)
            for miu in (128, 248, 2175) for size in (200, 700, 2300)])))
        frames = air_baseline(client)
        seen = {}
        for sender, k, brty, frame in frames:
            kind = frame_kind(brty, frame)
            # every frame position up to the 3rd of each kind per sender in
            # quick, every frame in thorough
            seen[(sender, kind)] = seen.get((sender, kind), 0) + 1
            if tier != 'thorough' and seen[(sender, kind)] > 3:
                continue
            muts = mutations(frame, tier)
            for chunk in par.chunks(muts, max(1, len(muts) // 3)):
                units.append(('air', (client, sender, k, kind,
                                      [(m, f.hex()) for m, f in chunk])))
    return units


def air_work(arg):
    client, sender, k, kind, muts = arg
    run = Run(PROP)
    if sender == 'legal':
        # no mutation: a legal peer with unusual parameters (initiator
        # assigns a DID, frames filled up to the length reduction limit)
        for (size, miu, did) in muts:
            s, ctx, net, obs = air_conversation(None, client, size, miu, did)
            bad = judge_stack(s, ctx, obs)
            if not bad and (obs['client'] != ('ret', True)
                            or obs['put'] != [1]):
                bad = [('not-delivered', dict(client=repr(obs['client']),
                                              put=obs['put']))]
            key = ('air-legal', client, size, miu, did)
            run.outcome(('air-legal', s.verdict))
            if not bad:
                run.ok(key)
            for sig, detail in bad[:1]:
                run.fail('air|legal-peer|did=%s,miu=%d|%s' % (did, miu, sig),
                         dict(detail, part='air', client=client,
                              sender='legal', index=0, size=size, miu=miu,
                              did=did, frame=''), key)
        run.count('air-legal', len(muts))
        run.sample(dict(part='air', client=client, sender='legal',
                        cases=[list(m) for m in muts]))
        return run.export()
    for mkind, hexframe in muts:
        new = bytes.fromhex(hexframe)

        def mutate(snd, idx, frame):
            return new if (snd == sender and idx == k) else None
        s, ctx, net, obs = air_conversation(mutate, client)
        bad = judge_stack(s, ctx, obs)
        key = ('air', client, sender, k, hexframe)
        run.outcome(('air', kind, s.verdict, str(obs.get('client'))[:30]))
        if not bad:
            run.ok(key)
        seen = set()
        for sig, detail in bad:
            sig = 'air|%s|%s|%s' % (kind, mkind, sig)
            if sig not in seen:
                seen.add(sig)
                run.fail(sig, dict(detail, part='air', client=client,
                                   sender=sender, index=k, frame=hexframe), key)
        if len(seen) > 1:
            run.evaluations -= len(seen) - 1
    run.count('air', len(muts))
    run.sample(dict(part='air', client=client, sender=sender, index=k,
                    kind=kind, mutation=muts[0][0], frame=muts[0][1]))
    return run.export()


# =============================================================================
# part 'llcp' and 'snep': scripted peer
# =============================================================================
class Dummy(object):
    def close(self):
        pass


def peer_run(role, script, peer_kw=None, client=None, horizon=15.0,
             brk_at=14):
    """Real connect(llcp=...) with SNEP + handover servers, an LDL socket and
    a listening DLC socket bound, against sim/peer.Peer with `script`
    (exchange index -> frames).  `client(llc, out)` optionally runs in an
    application thread.  The link ends by DISC after brk_at exchanges."""
    import nfc.clf
    import nfc.dep
    import nfc.llcp
    import nfc.snep
    import nfc.handover
    import ndef
    s = sched.Sched(sched.Chooser(), max_steps=100000,
                    max_time=1000.0 + horizon, timer_deviations=False)
    s.quiet = True
    p = simpeer.Peer(script=script, **(peer_kw or {}))
    brk = simpeer.Break('disc', brk_at)
    Ini, Tgt = simpeer.make_mac_classes()
    Ini.peer = Tgt.peer = p
    Ini.brk = Tgt.brk = brk
    out = dict(threads={}, servers=[])
    real = nfc.dep.Initiator, nfc.dep.Target
    nfc.dep.Initiator, nfc.dep.Target = Ini, Tgt

    def guarded(name, fn):
        def body():
            try:
                out['threads'][name] = ('ret', fn())
            except (nfc.llcp.Error, nfc.snep.SnepError, ndef.DecodeError) as e:
                # documented failure modes of the client API (get_records /
                # recv_records return decoded ndeflib records)
                out['threads'][name] = ('error', type(e).__name__)
            except sched.Abort:
                raise
            except BaseException as e:
                out['threads'][name] = ('exc', e)
        return body

    def on_startup(llc):
        class GetServer(nfc.snep.SnepServer):
            # every Get is answered with a message that needs three
            # fragments at the default connection MIU of 128
            def process_get_request(self, records):
                return [ndef.Record('unknown', '', bytes(300))]
        out['servers'] = [GetServer(llc), nfc.handover.HandoverServer(llc)]
        ldl = nfc.llcp.Socket(llc, nfc.llcp.LOGICAL_DATA_LINK)
        ldl.bind(32)
        dlc = nfc.llcp.Socket(llc, nfc.llcp.DATA_LINK_CONNECTION)
        dlc.bind('urn:nfc:sn:x')
        dlc.listen(1)
        out['socks'] = (ldl, dlc)
        return llc

    def on_connect(llc):
        for srv in out['servers']:
            srv.start()
        ldl, dlc = out['socks']

        def ldl_reader():
            while True:
                data, addr = ldl.recvfrom()
                if data is None:
                    return

        def acceptor():
            while True:
                c = dlc.accept()
                c.recv()
                c.close()
        sched.VThread(target=guarded('ldl', ldl_reader), name='ldl').start()
        sched.VThread(target=guarded('accept', acceptor),
                      name='accept').start()
        if client is not None:
            sched.VThread(target=guarded('client', lambda: client(llc, out)),
                          name='client').start()
        return True

    def main():
        clf = nfc.clf.ContactlessFrontend()
        clf.device = Dummy()
        try:
            out['connect'] = ('ret', clf.connect(
                llcp={'role': role, 'on-startup': on_startup,
                      'on-connect': on_connect, 'lto': 100, 'miu': 2175,
                      'sec': False}, terminate=brk.terminate))
        except sched.Abort:
            raise
        except BaseException as e:
            out['connect'] = ('exc', e)
    try:
        s.spawn(main, 'connect')
        s.run()
    finally:
        nfc.dep.Initiator, nfc.dep.Target = real
    return s, out, p


def judge_peer(s, out):
    bad = []
    c = out.get('connect')
    if c is not None and c[0] == 'exc':
        bad.append(('connect-raises|%s' % sig_exc(c[1]),
                    dict(error=repr(c[1]))))
    if s.verdict != 'finished':
        bad.append(('hang|%s|%s' % (s.verdict, ','.join(sorted(set(
            (st[3][0] if len(st) > 3 and st[3] else '?')
            for n, st in s.stuck())))), dict(stuck=s.stuck())))
    for name, res in sorted(out['threads'].items()):
        if res[0] == 'exc':
            bad.append(('app-thread-raises|%s|%s' % (name, sig_exc(res[1])),
                        dict(error=repr(res[1]))))
    for t in s.threads:
        if t.exc is not None and not isinstance(t.exc, sched.Abort):
            bad.append(('thread-dies|%s' % sig_exc(t.exc),
                        dict(thread=t.name, error=repr(t.exc))))
    return bad


def llcp_inputs(tier):
    """(class, frame) pairs: header grid x TLV-boundary tails and special
    constructions."""
    from props import c11
    tails = c11.tails()
    if tier != 'thorough':
        tails = tails[::3] + tails[-12:]
    out = []
    dsaps = (0, 1, 4, 16, 17, 32, 63)
    ssaps = (0, 1, 32)
    for d in dsaps:
        for s_ in ssaps:
            for ptype in range(16):
                h = simpeer.hdr(d, ptype, s_)
                for t in tails:
                    out.append(('hdr+tail', h + t))
    for depth in (1, 2, 3, 50, 300, 520, 541):
        out.append(('nested-agf', c11.nested_agf(depth)))
        out.append(('nested-agf', c11.nested_agf(depth, bytes([0x11, 0xC6, 2]))))
    for n in (2175, 2176, 2178, 3000):
        out.append(('max-size', simpeer.hdr(32, 3, 32) + bytes(n)))
        out.append(('max-size', simpeer.hdr(4, 12, 32) + bytes([0]) + bytes(n)))
    # service names that are not text in any encoding: CONNECT to the
    # discovery SAP, straight to listening SAPs (4 = SNEP server, 16 = bound
    # name) and to an idle SAP, SDREQ in an SNL; alone and inside an aggregate
    for sn in (b'urn:\xff\xfe', b'\xc3\x28\xa0\xa1', bytes(range(0x80, 0xA0)),
               b'\x00', b'urn:nfc:sn:\xe4'):
        named = [simpeer.hdr(d, 4, 33) + bytes([6, len(sn)]) + sn
                 for d in (1, 4, 16, 20)]
        named.append(simpeer.hdr(1, 9, 1) + bytes([8, len(sn) + 1, 7]) + sn)
        for f in named:
            out.append(('binary-name', f))
            out.append(('binary-name-agf', simpeer.hdr(0, 2, 0) + bytes(
                [0, 2, 0, 0]) + len(f).to_bytes(2, 'big') + f))
    for b in [bytes(t) for n in (0, 1) for t in itertools.product(
            range(256), repeat=n)]:
        out.append(('short', b))
    seen, uniq = set(), []
    for k, f in out:
        if f not in seen:
            seen.add(f)
            uniq.append((k, f))
    return uniq


def ptype_name(frame):
    from ref import llcp_codec
    if len(frame) < 2:
        return 'len%d' % len(frame)
    ptype = ((frame[0] & 3) << 2) | (frame[1] >> 6)
    return llcp_codec.NAMES.get(ptype, 'UNK%d' % ptype)


def llcp_work(arg):
    role, at, inputs = arg
    run = Run(PROP)
    established = None
    if isinstance(at, tuple):        # ('snep'|'handover', at): the peer has a
        established, at = at         # data link connection open when it sends
    for cls, hexframe in inputs:
        frame = bytes.fromhex(hexframe)
        script = {at: [frame]}
        if established == 'snep':
            script[1] = [simpeer.hdr(4, 4, 33)]
        elif established == 'handover':
            script[1] = [simpeer.hdr(1, 4, 33) + bytes([6, 19])
                         + b'urn:nfc:sn:handover']
        if established:
            cls = '%s@%s-connection' % (cls, established)
        s, out, p = peer_run(role, script, brk_at=at + 6)
        bad = judge_peer(s, out)
        key = ('llcp', role, established, at, hexframe)
        run.outcome(('llcp', cls, s.verdict, ptype_name(frame)))
        if not bad:
            run.ok(key)
        seen = set()
        for sig, detail in bad:
            sig = 'llcp|%s|%s|%s' % (cls, ptype_name(frame), sig)
            if sig not in seen:
                seen.add(sig)
                run.fail(sig, dict(detail, part='llcp', role=role, at=at,
                                   established=established, frame=hexframe),
                         key)
        if len(seen) > 1:
            run.evaluations -= len(seen) - 1
    run.count('llcp', len(inputs))
    run.sample(dict(part='llcp', role=role, at=at, frame=inputs[0][1][:80]))
    return run.export()


def llcp_units(tier):
    inputs = [(k, f.hex()) for k, f in llcp_inputs(tier)]
    units = []
    roles = ('initiator', 'target') if tier == 'thorough' else ('initiator',)
    for role in roles:
        for at in (2,):
            for chunk in par.chunks(inputs, 48):
                units.append(('llcp', (role, at, chunk)))
    if tier != 'thorough':
        units.append(('llcp', ('target', 1, inputs[::40])))
    # the same PDU grammar addressed to an *established* data link connection
    # (the peer connected to the SNEP / handover server first)
    from props import c11
    tails = c11.tails()
    tails = tails[::2] if tier == 'thorough' else tails[::9] + tails[-6:]
    est = []
    for dsap, svc in ((4, 'snep'), (16, 'handover')):
        frames = []
        for ssap in (33, 32, 0):
            for ptype in range(16):
                for t in tails:
                    frames.append(('hdr+tail', (simpeer.hdr(dsap, ptype, ssap)
                                                + t).hex()))
        for role in roles:
            for chunk in par.chunks(frames, 48):
                units.append(('llcp', (role, (svc, 4), chunk)))
    return units


# -- decode level (a/b of DESIGN): exceptions leaving the frame decoders ------------
def decode_work(arg):
    """Every byte string of length 0..2 (3 in thorough: first byte given)
    through nfc.dep frame decoding on both sides and llc.activate general
    bytes."""
    import nfc.dep
    import nfc.clf
    import nfc.llcp.llc as llc_mod
    kind, items = arg
    run = Run(PROP)
    for b in items:
        b = bytes.fromhex(b)
        for side in ('Initiator', 'Target'):
            for brty in ('106A', '212F'):
                dep = getattr(nfc.dep, side)(clf=None)
                dep.target = nfc.clf.RemoteTarget(brty) if side == 'Initiator' \
                    else nfc.clf.LocalTarget(brty)
                try:
                    dep.decode_frame(bytearray(b))
                    res = 'ok'
                except nfc.clf.CommunicationError:
                    res = 'comm-error'
                except Exception as e:
                    res = None
                    run.fail('decode|dep.%s.decode_frame|len=%d|%s' % (
                        side, min(len(b), 4), sig_exc(e)),
                        dict(part='decode', data=b, side=side, brty=brty),
                        ('dec', side, brty, b))
                if res:
                    run.ok(('dec', side, brty, b), nontrivial=res == 'ok')
                    run.outcome(('decode', side, res))
    run.count('decode', len(items))
    run.sample(dict(part='decode', data=items[len(items) // 2]))
    return run.export()


def decode_units(tier):
    items = [bytes(t).hex() for n in (0, 1, 2)
             for t in itertools.product(range(256), repeat=n)]
    # valid DEP PDU headers with every PFB value and 0..2 following bytes
    for code in (b'\xd4\x06', b'\xd5\x07', b'\xd4\x00', b'\xd5\x01',
                 b'\xd4\x04', b'\xd5\x05', b'\xd4\x08', b'\xd5\x09',
                 b'\xd4\x0a', b'\xd5\x0b'):
        for pfb in range(256):
            for tail in (b'', b'\x00', b'\x01\x02', b'\x00' * 14,
                         b'\xff' * 20):
                body = code + bytes([pfb]) + tail
                items.append((bytes([len(body) + 1]) + body).hex())
                items.append((b'\xf0' + bytes([len(body) + 1]) + body).hex())
    return [('decode', ('dep', c)) for c in par.chunks(items, 32)]


# =============================================================================
# driver
# =============================================================================
WORKERS = {'air': air_work, 'llcp': llcp_work, 'decode': decode_work}


def work(unit):
    kind, arg = unit
    return WORKERS[kind](arg)


def main(tier='quick', seed=0, part=None):
    from props import c07_more
    WORKERS.update(c07_more.WORKERS)
    run = Run(PROP, tier, seed, level='exploration')
    units = []
    if part in (None, 'decode'):
        units += decode_units(tier)
    if part in (None, 'llcp'):
        units += llcp_units(tier)
    if part in (None, 'air'):
        units += air_units(tier)
    for name, fn in sorted(c07_more.UNITS.items()):
        if part in (None, name):
            units += fn(tier)
    for res in par.pmap(work, par.shuffled(units, seed)):
        run.merge(res)
    run.rule = (
        "one malformed input per run at every position where the peer speaks: "
        "air = every frame of a whole-stack SNEP put conversation (both roles) "
        "x {byte substitutions, truncations, extensions, consistent-length "
        "cuts, short frames}; llcp = header grid (7 DSAP x 3 SSAP x 16 PTYPE) x "
        "TLV-boundary tails, nested AGF to depth 541, over-size frames, all "
        "strings of length 0..1, injected by a scripted peer with all services "
        "bound; decode = all strings of length 0..2 and all PFB values through "
        "the NFC-DEP frame decoders; snep/card parts as listed in the "
        "evidence counters; distinct = distinct (position, input)")
    run.assumptions += [
        "the peer is arbitrary in content but frames are delivered by a "
        "driver (udp driver / scripted MAC), default schedule",
        "sys.getrecursionlimit() == 1000"]
    return run.finish(exhaustive=True)


def replay(doc):
    from props import c07_more
    d = doc['detail']
    part = d.get('part')
    if part == 'air' and d.get('sender') == 'legal':
        s, ctx, net, obs = air_conversation(None, d['client'], d['size'],
                                            d['miu'], d['did'])
        bad = judge_stack(s, ctx, obs)
        if not bad and (obs['client'] != ('ret', True) or obs['put'] != [1]):
            bad = [('not-delivered', {})]
    elif part == 'air':
        new = bytes.fromhex(d['frame'])

        def mutate(snd, idx, frame):
            return new if (snd == d['sender'] and idx == d['index']) else None
        s, ctx, net, obs = air_conversation(mutate, d['client'])
        bad = judge_stack(s, ctx, obs)
    elif part == 'llcp':
        at = (d['established'], d['at']) if d.get('established') else d['at']
        res = llcp_work((d['role'], at, [('replay', d['frame'])]))
        bad = sorted(res['failures'])
    else:
        return c07_more.replay(doc)
    print('replay:', [b[0] for b in bad])
    return 1 if bad else 0
