"""C11 - LLCP PDU encoding and decoding are mutually consistent.

(a) constructive: every PDU of the field grid -> encode -> decode gives the
    same type and field values (field-wise, never through __eq__, which
    compares encodings), len(p) == len(encode(p)), and the independent reader
    ref/llcp_codec.py reads the same fields from the encoding.
(b) destructive: every byte string of the enumerated space either raises
    pdu.DecodeError or yields a PDU that re-encodes/decodes to field-wise equal
    PDU, agrees with the independent reading where the format is definite, and
    (c) inside an aggregate a sub-PDU is decoded from its own bytes only.
(d) one object encoded more than once: encode() does not change the object,
    and after assigning other values to its attributes (all at once, each one
    alone) the next encoding decodes to the new values.
"""
import itertools
import struct

from mc.evidence import Run, sig_exc
from mc import par
from ref import llcp_codec as ref

PROP = 'C11'


# -- field view of implementation PDUs ----------------------------------------
def fields(p):
    n = type(p).__name__
    h = (p.dsap, p.ssap)
    if n == 'Symmetry':
        return ('SYMM',) + h
    if n == 'ParameterExchange':
        return ('PAX',) + h + (p._version, p._miux, p._wks, p._lto, p._opt)
    if n == 'AggregatedFrame':
        return ('AGF',) + h + (tuple(fields(x) for x in p),)
    if n == 'UnnumberedInformation':
        return ('UI',) + h + (bytes(p.data),)
    if n == 'Connect':
        return ('CONNECT',) + h + (p.miu, p.rw, bytes(p.sn) if p.sn else None)
    if n == 'Disconnect':
        return ('DISC',) + h
    if n == 'ConnectionComplete':
        return ('CC',) + h + (p.miu, p.rw)
    if n == 'DisconnectedMode':
        return ('DM',) + h + (p.reason,)
    if n == 'FrameReject':
        return ('FRMR',) + h + (p.rej_flags, p.rej_ptype, p.ns, p.nr, p.vs,
                                p.vr, p.vsa, p.vra)
    if n == 'ServiceNameLookup':
        return ('SNL',) + h + (
            tuple((t, bytes(s)) for t, s in p.sdreq),
            tuple((t, s) for t, s in p.sdres))
    if n == 'DataProtectionSetup':
        return ('DPS',) + h + (bytes(p.ecpk) if p.ecpk else None,
                               bytes(p.rn) if p.rn else None)
    if n == 'Information':
        return ('I',) + h + (p.ns, p.nr, bytes(p.data))
    if n == 'ReceiveReady':
        return ('RR',) + h + (p.nr,)
    if n == 'ReceiveNotReady':
        return ('RNR',) + h + (p.nr,)
    if n == 'UnknownProtocolDataUnit':
        return ('UNKNOWN',) + h + (p.ptype, bytes(p.payload))
    raise AssertionError(n)


# -- (a) constructive grid ---------------------------------------------------
SAPS_ALL = [(d, s) for d in range(64) for s in range(64)]
SAPS_FEW = [(0, 0), (1, 1), (4, 32), (63, 63), (16, 1), (1, 63), (32, 4)]


def pat(n, k=0):
    return bytes((i * 7 + k) & 0xFF for i in range(n))


def constructive_specs(tier):
    """Yields ('Class', args...) tuples; built in the worker."""
    thorough = tier == 'thorough'
    miux = [0, 1, 0x7FE, 0x7FF] + ([2, 0x400, 0x3FF] if thorough else [])
    names = [pat(n, 0x61) for n in ((1, 2, 254, 255) if thorough
                                    else (1, 2, 255))]
    pay = [0, 1, 127, 128, 2175]
    yield ('Symmetry', 0, 0)
    for d, s in SAPS_ALL:
        yield ('UnnumberedInformation', d, s, pat(3))
        yield ('Connect', d, s, 128, 1, None)
        yield ('Disconnect', d, s)
        yield ('ConnectionComplete', d, s, 129, 2)
        yield ('DisconnectedMode', d, s, 2)
        yield ('FrameReject', d, s, 5, 12, 1, 2, 3, 4, 5, 6)
        yield ('Information', d, s, 3, 9, pat(2))
        yield ('ReceiveReady', d, s, 7)
        yield ('ReceiveNotReady', d, s, 11)
    for d, s in SAPS_FEW:
        for ns in range(16):
            for nr in range(16):
                yield ('Information', d, s, ns, nr, pat(5))
        for nr in range(16):
            yield ('ReceiveReady', d, s, nr)
            yield ('ReceiveNotReady', d, s, nr)
        for n in pay:
            yield ('Information', d, s, 1, 2, pat(n))
            yield ('UnnumberedInformation', d, s, pat(n))
        for m in miux:
            for rw in range(16):
                yield ('ConnectionComplete', d, s, 128 + m, rw)
                for sn in [None] + names:
                    yield ('Connect', d, s, 128 + m, rw, sn)
        for reason in range(256):
            yield ('DisconnectedMode', d, s, reason)
        for fl in range(16):
            for pt in range(16):
                yield ('FrameReject', d, s, fl, pt, fl, pt, 15 - fl, pt, 15 - pt, fl)
    # PAX
    vers = [None, 0x10, 0x13, 0xFF]
    wks = [None, 0, 1, 0x8000, 0xFFFF]
    opts = [None] + list(range(8))
    for v in vers:
        for m in [None] + miux:
            for w in wks:
                for lto in (None, 0, 1, 100, 255):
                    for o in opts:
                        yield ('ParameterExchange', 0, 0, v, m, w, lto, o)
    for lto in range(256):
        yield ('ParameterExchange', 0, 0, 0x13, 0, 1, lto, 3)
    # SNL
    reqs = [(1, b'a'), (255, pat(254, 0x41)), (0, b'urn:nfc:sn:snep'),
            (7, b'')]
    ress = [(1, 4), (255, 63), (0, 0)]
    for nreq in range(4):
        for nres in range(4):
            for rq in itertools.permutations(reqs, nreq):
                for rs in itertools.permutations(ress, nres):
                    yield ('ServiceNameLookup', 1, 1, list(rq), list(rs))
    # DPS
    for e in (None, pat(64), pat(255), pat(1)):
        for r in (None, pat(8), pat(255)):
            yield ('DataProtectionSetup', 0, 0, e, r)
    # AGF of 1..3 sub PDUs of every type (representatives)
    subs = [('UnnumberedInformation', 4, 32, pat(6)),
            ('Connect', 4, 32, 1024, 0, b'urn:nfc:sn:x'),
            ('Connect', 1, 33, 128, 15, None),
            ('Disconnect', 16, 17), ('ConnectionComplete', 32, 16, 2175, 15),
            ('ConnectionComplete', 32, 16, 128, 1),
            ('DisconnectedMode', 5, 6, 0x21),
            ('FrameReject', 7, 8, 1, 2, 3, 4, 5, 6, 7, 8),
            ('ServiceNameLookup', 1, 1, [(1, b'abc')], [(2, 16)]),
            ('Information', 20, 21, 15, 0, pat(128)),
            ('Information', 20, 21, 0, 15, b''),
            ('ReceiveReady', 22, 23, 5), ('ReceiveNotReady', 24, 25, 6),
            ('ParameterExchange', 0, 0, 0x13, 5, 3, 10, 3),
            ('DataProtectionSetup', 0, 0, pat(64), pat(8)),
            ('UnnumberedInformation', 63, 63, b'')]
    for k in (1, 2, 3) if thorough else (1, 2):
        for combo in itertools.product(subs, repeat=k):
            yield ('AggregatedFrame', 0, 0, list(combo))
    if not thorough:
        for a in subs[:6]:
            for b in subs[6:11]:
                for c in subs[11:]:
                    yield ('AggregatedFrame', 0, 0, [a, b, c])


def build(spec):
    import nfc.llcp.pdu as pdu
    cls = getattr(pdu, spec[0])
    if spec[0] == 'AggregatedFrame':
        return cls(spec[1], spec[2], [build(s) for s in spec[3]])
    return cls(*spec[1:])


def expect_fields(spec):
    """What the caller put in, in the shape of fields()."""
    n = spec[0]
    if n == 'AggregatedFrame':
        return ('AGF', spec[1], spec[2], tuple(expect_fields(s) for s in spec[3]))
    if n == 'ServiceNameLookup':
        return ('SNL', spec[1], spec[2], tuple(spec[3]), tuple(spec[4]))
    if n in ('Connect',):
        return ('CONNECT',) + tuple(spec[1:5]) + (spec[5] or None,)
    if n == 'DataProtectionSetup':
        return ('DPS', spec[1], spec[2], spec[3] or None, spec[4] or None)
    short = {'Symmetry': 'SYMM', 'ParameterExchange': 'PAX',
             'UnnumberedInformation': 'UI', 'Disconnect': 'DISC',
             'ConnectionComplete': 'CC', 'DisconnectedMode': 'DM',
             'FrameReject': 'FRMR', 'Information': 'I', 'ReceiveReady': 'RR',
             'ReceiveNotReady': 'RNR'}[n]
    return (short,) + tuple(spec[1:])


def spec_class(spec):
    """Parameter class for signatures: type and the boundary fields."""
    n = spec[0]
    if n in ('Connect', 'ConnectionComplete'):
        return '%s(miu%s128,rw=%s)' % (n, '>' if spec[3] > 128 else '=',
                                       spec[4] if spec[4] in (0, 1) else 'n')
    if n == 'AggregatedFrame':
        return 'AGF[%s]' % ','.join(sorted(set(spec_class(s) for s in spec[3])))
    return n


def check_constructive(spec):
    import nfc.llcp.pdu as pdu
    if spec[0] == 'AggregatedFrame':
        # a failure of a sub PDU on its own is reported under that PDU's class
        for sub in spec[3]:
            v = check_constructive(sub)
            if v is not None:
                return v
        cls = 'AGF'
    else:
        cls = spec_class(spec)
    try:
        p = build(spec)
        want = expect_fields(spec)
        enc = p.encode()
        if len(p) != len(enc):
            return ('a|len|%s' % cls,
                    dict(spec=repr(spec), len=len(p), encoded=enc))
        q = pdu.decode(enc)
        got = fields(q)
        if got != want:
            return ('a|roundtrip|%s' % cls,
                    dict(spec=repr(spec), encoded=enc, want=want, got=got))
        if type(q) is not type(p):
            return ('a|type|%s' % cls, dict(spec=repr(spec), got=type(q).__name__))
        r = ref.read(enc)
        if r is not None and r != want:
            return ('a|reference|%s' % cls,
                    dict(spec=repr(spec), encoded=enc, want=want, ref=r))
    except Exception as e:
        return ('a|%s|%s' % (cls, sig_exc(e)),
                dict(spec=repr(spec), error=repr(e)))
    return None


# -- (d) one object encoded more than once ------------------------------------
# "For every well-formed PDU object, decoding its encoding yields the same
# field values": also for an object that was encoded before and whose
# attributes were assigned afterwards (the stack itself assigns N(S)/N(R) late
# and re-sends PDU objects), and encode() itself must not change the object.
REUSE_PAIRS = [
    (('Symmetry', 0, 0), ('Symmetry', 0, 0)),
    (('UnnumberedInformation', 4, 32, pat(3)),
     ('UnnumberedInformation', 16, 33, pat(5, 9))),
    (('Connect', 4, 32, 128, 1, None), ('Connect', 1, 33, 1024, 0, b'urn:x')),
    (('Connect', 1, 33, 2175, 15, b'urn:nfc:sn:y'),
     ('Connect', 16, 34, 128, 1, None)),
    (('Disconnect', 16, 17), ('Disconnect', 18, 19)),
    (('ConnectionComplete', 32, 16, 128, 1),
     ('ConnectionComplete', 33, 17, 2175, 0)),
    (('ConnectionComplete', 32, 16, 1024, 15),
     ('ConnectionComplete', 33, 17, 128, 1)),
    (('DisconnectedMode', 5, 6, 0x21), ('DisconnectedMode', 7, 8, 2)),
    (('FrameReject', 7, 8, 1, 2, 3, 4, 5, 6, 7, 8),
     ('FrameReject', 9, 10, 8, 13, 9, 10, 11, 12, 13, 14)),
    (('Information', 20, 21, 3, 9, pat(2)),
     ('Information', 22, 23, 10, 2, pat(7, 3))),
    (('Information', 20, 21, 15, 0, pat(128)),
     ('Information', 63, 1, 0, 15, b'')),
    (('ReceiveReady', 22, 23, 5), ('ReceiveReady', 24, 25, 12)),
    (('ReceiveNotReady', 24, 25, 6), ('ReceiveNotReady', 26, 27, 0)),
    (('ServiceNameLookup', 1, 1, [(1, b'abc')], [(2, 16)]),
     ('ServiceNameLookup', 1, 1, [(3, b'de'), (4, b'f')], [])),
    (('DataProtectionSetup', 0, 0, pat(64), pat(8)),
     ('DataProtectionSetup', 0, 0, None, pat(8, 1))),
    (('ParameterExchange', 0, 0, 0x13, 5, 3, 10, 3),
     ('ParameterExchange', 0, 0, 0x10, 0x7FF, 0x8001, 255, 1)),
]


def attr_names(p, cls):
    """Constructor parameter -> instance attribute holding it (None: the
    class keeps it under a name this harness does not know; skipped)."""
    import inspect
    out = []
    for a in list(inspect.signature(cls.__init__).parameters)[1:]:
        for cand in ('rej_' + a, a, '_' + a):
            if cand in vars(p):
                out.append(cand)
                break
        else:
            out.append(None)
    return out


def check_reuse(pair):
    import nfc.llcp.pdu as pdu
    s1, s2 = pair
    cls = getattr(pdu, s1[0])
    name = s1[0]
    try:
        p = build(s1)
        e1 = p.encode()
        if p.encode() != e1 or fields(p) != expect_fields(s1):
            return ('d|encode-changes-object|%s' % name,
                    dict(pair=repr(pair), spec=repr(s1), first=e1,
                         second=p.encode()))
        names = attr_names(p, cls)
        plans = [('all', list(range(len(names))))] + [
            (names[i], [i]) for i in range(len(names))]
        for label, idx in plans:
            p = build(s1)
            p.encode()
            len(p)
            spec = list(s1)
            for i in idx:
                if names[i] is None or s1[1 + i] == s2[1 + i]:
                    continue
                v = s2[1 + i]
                setattr(p, names[i], list(v) if isinstance(v, list) else v)
                spec[1 + i] = v
            want = expect_fields(tuple(spec))
            try:
                enc = p.encode()
            except pdu.EncodeError:
                continue          # a combination the class refuses to encode
            if len(p) != len(enc):
                return ('d|len-after-assignment|%s|%s' % (name, label),
                        dict(pair=repr(pair), first=repr(s1),
                             then=repr(tuple(spec)),
                             len=len(p), encoded=enc))
            got = fields(pdu.decode(enc))
            if got != want:
                return ('d|stale-encoding|%s|%s' % (name, label),
                        dict(pair=repr(pair), first=repr(s1),
                             then=repr(tuple(spec)),
                             encoded=enc, want=want, got=got))
    except Exception as e:
        return ('d|%s|%s' % (name, sig_exc(e)),
                dict(pair=repr(pair), error=repr(e)))
    return None


def check_agf_members():
    """An aggregate whose member PDU is changed after the aggregate was
    encoded / measured once: len() and encode() follow the members."""
    import nfc.llcp.pdu as pdu
    out = []
    muts = [
        ('UI.data', lambda m: setattr(m[0], 'data', pat(40, 5))),
        ('CONNECT.sn', lambda m: setattr(m[1], 'sn', b'urn:nfc:sn:longer')),
        ('SNL.sdreq', lambda m: m[2].sdreq.append((9, b'urn:nfc:sn:more'))),
        ('I.data', lambda m: setattr(m[3], 'data', b'')),
        ('append', None),
    ]
    for name, fn in muts:
        for via in ('constructed', 'decoded'):
            members = [pdu.UnnumberedInformation(4, 32, pat(3)),
                       pdu.Connect(1, 33, 128, 1, b'urn:x'),
                       pdu.ServiceNameLookup(1, 1, [(1, b'abc')], [(2, 16)]),
                       pdu.Information(20, 21, 3, 9, pat(7))]
            try:
                agf = pdu.AggregatedFrame(0, 0, members)
                if via == 'decoded':
                    agf = pdu.decode(agf.encode())
                    members = [m for m in agf]
                len(agf)
                agf.encode()
                if fn is None:
                    extra = pdu.ReceiveReady(22, 23, 5)
                    agf.append(extra)
                    members = members + [extra]
                else:
                    fn(members)
                enc = agf.encode()
                want = tuple(fields(m) for m in members)
                got = fields(pdu.decode(enc))[3]
                if len(agf) != len(enc):
                    out.append(('d|len-after-member-change|AGF|%s' % name,
                                dict(agf=via, changed=name, len=len(agf),
                                     encoded=enc)))
                elif got != want:
                    out.append(('d|stale-encoding|AGF|%s' % name,
                                dict(agf=via, changed=name, encoded=enc,
                                     want=want, got=got)))
            except Exception as e:
                out.append(('d|AGF|%s|%s' % (name, sig_exc(e)),
                            dict(agf=via, changed=name, error=repr(e))))
    return out, 2 * len(muts)


# -- (b) destructive ---------------------------------------------------------
def tails():
    """Tails from the TLV boundary grammar (DESIGN C07/C11)."""
    out = [b'']
    for t in range(13):
        for n in range(4):
            v = pat(n, 0x11)
            for l in sorted({0, 1, 2, 3, max(n - 1, 0), n, n + 1, 255}):
                out.append(bytes([t, l]) + v)
    good = bytes([2, 2, 0x01, 0x00])       # MIUX
    for t in (1, 2, 5, 8, 9, 12):
        for l in (0, 1, 2, 3):
            out.append(good + bytes([t, l]) + pat(2))
            out.append(bytes([t, l]) + pat(l) + good)
    out.append(good + good)                # duplicate
    # every ordered pair of well-formed TLVs (the frame format fixes no
    # order), and all orders of MIUX, RW, SN / VERSION.. for CONNECT and PAX
    valid = {1: bytes([1, 1, 0x13]), 2: bytes([2, 2, 0x00, 0x10]),
             3: bytes([3, 2, 0x00, 0x13]), 4: bytes([4, 1, 0x32]),
             5: bytes([5, 1, 0x05]), 6: bytes([6, 3]) + b'ABC',
             7: bytes([7, 1, 0x03]), 8: bytes([8, 4, 9]) + b'abc',
             9: bytes([9, 2, 9, 16]), 10: bytes([10, 2, 1, 2]),
             11: bytes([11, 2, 3, 4])}
    for a in sorted(valid):
        for b in sorted(valid):
            if a != b:
                out.append(valid[a] + valid[b])
    for perm in itertools.permutations((2, 5, 6)):
        out.append(b''.join(valid[t] for t in perm))
    for perm in itertools.permutations((1, 2, 3, 4, 7)):
        out.append(b''.join(valid[t] for t in perm))
    out.append(bytes([5, 255]) + pat(255, 0x61))
    out.append(bytes([5, 255]) + pat(254, 0x61))
    out.append(bytes([8, 255, 1]) + pat(254, 0x61))
    for n in (1, 2, 3, 4, 5, 127, 128, 2175, 2176):
        out.append(pat(n))
    for s in (0x00, 0x0F, 0xF0, 0xFF):
        out.append(bytes([s]))
        out.append(bytes([s]) + pat(128))
    # aggregated bodies: length field variants around a 3-byte DM sub PDU,
    # a CONNECT with TLV and an I PDU
    subs = [bytes([0x11, 0xC6, 0x02]),                 # DM 4->6
            bytes([0x11, 0x20, 2, 2, 0, 1]),           # CONNECT MIUX
            bytes([0x83, 0x21, 0x10]) + pat(4),        # I
            bytes([0x00, 0x00]),                       # SYMM
            bytes([0x11, 0x20, 5, 3, 0x61])]           # CONNECT SN len 3, 1 present
    for sub in subs:
        n = len(sub)
        for l in sorted({0, 1, 2, max(n - 1, 0), n, n + 1, 0xFFFF}):
            out.append(struct.pack('>H', l) + sub)
            out.append(struct.pack('>H', l) + sub + struct.pack('>H', 3)
                       + subs[0])
    uniq = []
    for t in out:
        if t not in uniq:
            uniq.append(t)
    return uniq


def nested_agf(depth, inner=b'\x00\x00'):
    b = inner
    for _ in range(depth):
        b = b'\x00\x80' + struct.pack('>H', len(b)) + b
    return b


def data_class(b):
    """Signature class of an input: PDU type name + size class."""
    if len(b) < 2:
        return 'len%d' % len(b)
    ptype = ((b[0] & 3) << 2) | (b[1] >> 6)
    return '%s/%s' % (ref.NAMES.get(ptype, 'UNK%d' % ptype),
                      'hdr' if len(b) == 2 else 'body')


def check_bytes(b):
    """Oracle (b) for one byte string.  Returns (verdict, outcome)."""
    import nfc.llcp.pdu as pdu
    cls = data_class(b)
    try:
        p = pdu.decode(b)
    except pdu.DecodeError:
        return None, 'reject'
    except Exception as e:
        return ('b|decode|%s|%s' % (cls, sig_exc(e)),
                dict(data=b, error=repr(e))), 'exc'
    try:
        f = fields(p)
        enc = p.encode()
        q = pdu.decode(enc)
        g = fields(q)
    except Exception as e:
        return ('b|reencode|%s|%s' % (cls, sig_exc(e)),
                dict(data=b, error=repr(e))), 'exc'
    if f != g:
        return ('b|reencode-differs|%s' % cls,
                dict(data=b, first=f, reencoded=enc, second=g)), 'diff'
    if len(p) != len(enc):
        return ('b|len|%s' % cls, dict(data=b, len=len(p), enc=enc)), 'len'
    try:
        r = ref.read(b)
    except ref.Reject:
        return ('b|accepts-non-pdu|%s' % cls, dict(data=b, got=f)), 'nonpdu'
    if r is None:
        return None, 'open'
    if r != f:
        return ('b|reference|%s|%s' % (cls, diff_class(r, f)),
                dict(data=b, reference=r, got=f)), 'refdiff'
    return None, 'agree:' + f[0]


def diff_class(r, f):
    if r[0] != f[0]:
        return 'type'
    for i, (x, y) in enumerate(zip(r, f)):
        if x != y:
            return 'field%d' % i
    return 'arity'


def check_aggregate(sub, followers):
    """(c) a sub PDU inside an aggregate is decoded from its own bytes only."""
    import nfc.llcp.pdu as pdu
    try:
        alone = fields(pdu.decode(sub))
    except pdu.DecodeError:
        alone = 'reject'
    except Exception:
        return None            # reported by check_bytes
    if alone != 'reject' and alone[0] in ('AGF',):
        return None
    seen = []
    for fol in followers:
        b = b'\x00\x80' + struct.pack('>H', len(sub)) + sub + fol
        try:
            agf = pdu.decode(b)
            inside = fields(agf.first) if agf.count else 'empty'
        except pdu.DecodeError:
            inside = 'reject'
        except Exception as e:
            return ('c|aggregate|%s|%s' % (data_class(sub), sig_exc(e)),
                    dict(sub=sub, follower=fol, error=repr(e)))
        seen.append(inside)
        if inside != alone:
            return ('c|aggregate-foreign-bytes|%s' % data_class(sub),
                    dict(sub=sub, follower=fol, alone=alone, inside=inside))
    return None


FOLLOWERS = [b'', struct.pack('>H', 3) + bytes([0x11, 0xC6, 0x02]),
             struct.pack('>H', 6) + bytes([0x11, 0x20, 2, 2, 0, 1]),
             struct.pack('>H', 5) + bytes([0x0C, 0xC2]) + b'\x01\x02\x03']


# -- work units -----------------------------------------------------------------
def work(unit):
    kind, arg = unit
    run = Run(PROP)
    if kind == 'a':
        for spec in arg:
            v = check_constructive(spec)
            key = ('a', repr(spec))
            if v is None:
                run.ok(key)
                run.outcome(('a', spec[0]))
            else:
                run.fail(v[0], v[1], key)
        run.sample(dict(kind='constructive', spec=arg[0]))
    elif kind == 'd':
        for pair in arg:
            for pr in (pair, (pair[1], pair[0])):
                v = check_reuse(pr)
                key = ('d', repr(pr))
                if v is None:
                    run.ok(key)
                    run.outcome(('d', pr[0][0]))
                else:
                    run.fail(v[0], v[1], key)
        if arg and arg[0] == REUSE_PAIRS[0]:
            bad, n = check_agf_members()
            for sig, det in bad:
                run.fail(sig, det, ('d-agf', sig))
            for i in range(n - len(bad)):
                run.ok(('d-agf', i))
        run.sample(dict(kind='reuse', pair=repr(arg[0])))
    elif kind == 'b':
        for b in arg:
            v, out = check_bytes(b)
            run.outcome(out)
            run.count('b:' + out.split(':')[0])
            if v is None:
                run.ok(('b', b), nontrivial=out != 'reject')
            else:
                run.fail(v[0], v[1], ('b', b))
        run.sample(dict(kind='bytes', data=arg[len(arg) // 2]))
    elif kind == 'hdr':
        lo, hi, tl = arg
        for h in range(lo, hi):
            hb = struct.pack('>H', h)
            for t in tl:
                b = hb + t
                v, out = check_bytes(b)
                run.outcome(out)
                run.count('b:' + out.split(':')[0])
                if v is None:
                    run.ok(('b', b), nontrivial=out != 'reject')
                else:
                    run.fail(v[0], v[1], ('b', b))
                if len(b) <= 300:
                    v = check_aggregate(b, FOLLOWERS)
                    run.count('c:aggregate')
                    if v is None:
                        run.ok(('c', b))
                    else:
                        run.fail(v[0], v[1], ('c', b))
        run.sample(dict(kind='header+tail', data=struct.pack('>H', lo) + tl[-1][:40]))
    return run.export()


def all_bytes(n):
    for t in itertools.product(range(256), repeat=n):
        yield bytes(t)


def units(tier):
    thorough = tier == 'thorough'
    out = []
    specs = list(constructive_specs(tier))
    out += [('a', c) for c in par.chunks(specs, 64)]
    out += [('d', c) for c in par.chunks(REUSE_PAIRS, 4)]
    short = [b for n in (0, 1, 2) for b in all_bytes(n)]
    out += [('b', c) for c in par.chunks(short, 16)]
    if thorough:
        for first in range(256):
            out.append(('b', [bytes([first]) + b for b in all_bytes(2)]))
    tl = tails()
    few = tl[::max(1, len(tl) // 24)]
    few += [t for t in tl if t[:1] == b'\x06' and len(t) > 5][:8]
    # every header with a few (quick) / all (thorough) tails
    for lo in range(0, 65536, 1024):
        out.append(('hdr', (lo, lo + 1024, tl if thorough else few)))
    if not thorough:
        hdrs = [(d << 10) | (p << 6) | s for p in range(16)
                for d in (0, 1, 2, 63) for s in (0, 1, 2, 63)]
        for h in hdrs:
            out.append(('hdr', (h, h + 1, tl)))
    deep = [nested_agf(d) for d in (1, 2, 3, 10, 100, 300, 490, 520, 541)]
    deep += [nested_agf(d, bytes([0x11, 0xC6, 0x02])) for d in (1, 2, 200, 540)]
    out.append(('b', deep))
    return out, dict(constructive=len(specs), tails=len(tl), tails_quick=len(few))


def main(tier='quick', seed=0, part=None):
    run = Run(PROP, tier, seed, level='exploration')
    us, sizes = units(tier)
    if part:
        us = [u for u in us if u[0] == part]
    for res in par.pmap(work, par.shuffled(us, seed)):
        run.merge(res)
    run.rule = (
        "(a) every PDU of the constructive field grid (all 64x64 SAP pairs per "
        "type; all N(S)xN(R); MIUX/RW/SN/LTO/WKS/OPT boundary products; SNL "
        "lists of 0..3; AGF of 1..%d representative sub-PDUs); (b) every byte "
        "string of length 0..%d, every 2-byte header x TLV-boundary tails, "
        "nested AGF up to depth 541; (c) each of those as first sub-PDU of an "
        "aggregate with 4 different followers; (d) %d pairs of PDUs per class, "
        "both directions: object built from the first, encoded, attributes "
        "assigned from the second (all / each alone), encoded again.  "
        "distinct = distinct spec / "
        "byte string; non-trivial = constructive case, or byte string that "
        "decodes to a PDU" % (3 if tier == 'thorough' else 2,
                              3 if tier == 'thorough' else 2,
                              len(REUSE_PAIRS)))
    run.assumptions += [
        "ref/llcp_codec.py is an independent reading of LLCP 1.3; inputs whose "
        "reading the format leaves open are checked for self-consistency only",
        "byte strings longer than 3 are the enumerated grammar, not all strings",
        "sys.getrecursionlimit() == 1000 (CPython default)"]
    run.extra['grid'] = sizes
    return run.finish(exhaustive=True)


def replay(doc):
    d = doc['detail']
    sig = doc['signature']
    if sig.startswith('a|'):
        import ast
        spec = ast.literal_eval(d['spec'])
        v = check_constructive(spec)
    elif sig.startswith('c|'):
        v = check_aggregate(bytes.fromhex(d['sub']), FOLLOWERS)
    elif sig.startswith('d|') and 'agf' in d:
        bad, n = check_agf_members()
        v = ([b for b in bad if b[0] == sig] or [None])[0]
    elif sig.startswith('d|'):
        import ast
        pair = ast.literal_eval(d['pair']) if 'pair' in d else (
            ast.literal_eval(d['first']), ast.literal_eval(d['then']))
        v = check_reuse(pair)
        if v is None and 'pair' not in d:
            # the recorded single-field case: find it among the pairs
            for pr in REUSE_PAIRS:
                for q in (pr, (pr[1], pr[0])):
                    if repr(q[0]) == d['first']:
                        v = v or check_reuse(q)
    else:
        v, _ = check_bytes(bytes.fromhex(d['data']))
    print('replay:', v)
    return 1 if v else 0


def _untuple(x):
    if isinstance(x, list):
        if x and isinstance(x[0], str) and x[0][:1].isupper():
            return tuple(_untuple(i) for i in x)
        return [_untuple(i) for i in x]
    return x
