"""C03 - NDEF writes touch nothing outside the NDEF message area.

Same executions as C01 (real tag objects over the stateful simulators) plus
format() and format(wipe=0x5A); the simulators record every write with its
address range and keep lock/OTP bits one-way.  Oracle: byte-wise diff of the
tag memory before/after restricted to everything the independent layout model
(ref/) does not count as NDEF area, no write command whose whole unit lies
outside the NDEF area, no access the simulated tag had to refuse (locked or
non existing memory, CC file, beyond the file size).
"""
import time

from mc.evidence import Run
from mc import par
from props import tagcases as tc

PROP = 'C03'
CASES = {}
WIPE = 0x5A


def formats(case):
    """format() is explored where the class implements it: every Type 2 and
    Type 4 tag, Topaz / Topaz-512, Type 3 (with version=0x10)."""
    if case.kind == 'T1':
        return case.pc['product'] != 'generic'
    return True


def items_for(tier, cases, chunk=48):
    items = []
    for ci, case in enumerate(cases):
        ls, combos = tc.plan(case, tier)
        for (pat, prev) in combos:
            for i in range(0, len(ls), chunk):
                items.append(('w', ci, prev, pat, tuple(ls[i:i + chunk])))
        if formats(case):
            items.append(('f', ci))
    return items


def work(item):
    run = Run(PROP)
    t0 = time.process_time()
    case = CASES['list'][item[1]]
    sample = None
    if item[0] == 'w':
        _, ci, prev, pat, ls = item
        for n in ls:
            f = tc.check_write(case, prev, pat, n)
            key = (case.name, 'write', prev, pat, n)
            fails = f.items[PROP]
            if not fails:
                run.ok(key=key)
            for sig, detail in fails:
                run.fail(sig, detail, key=key)
            run.count('write:' + case.kind)
            if len(f.obs & {'mid', 'n==cap', 'n==0'}):
                run.count('write-completed')
            sample = dict(case=case.name, op='write', prev=prev, pattern=pat,
                          n=n, verdict='ok' if not fails else fails[0][0])
    else:
        for prev in tc.PREVS:
            for wipe in (None, WIPE):
                f = tc.check_format(case, prev, wipe)
                key = (case.name, 'format', prev, wipe)
                fails = f.items[PROP]
                if not fails:
                    run.ok(key=key)
                for sig, detail in fails:
                    run.fail(sig, detail, key=key)
                run.count('format:' + case.kind)
                for o in f.obs:
                    run.count('%s:%s' % (case.kind, o))
                    run.outcome((case.kind, o))
                sample = dict(case=case.name, op='format', prev=prev, wipe=wipe,
                              result=repr(f.result),
                              verdict='ok' if not fails else fails[0][0])
    run.count('cpu_ms', int((time.process_time() - t0) * 1000))
    if sample:
        run.sample(sample)
    return run.export()


def main(tier='quick', seed=0, part=None):
    run = Run(PROP, tier, seed, level='exploration')
    kinds = None if part is None else set(part.split(','))
    cases = tc.all_cases(tier, kinds)
    CASES['list'] = cases
    items = items_for(tier, cases)
    for res in par.pmap(work, par.shuffled(items, seed), chunksize=4):
        run.merge(res)
    run.rule = ("one case = (layout, operation, previous content, pattern, "
                "length) with operation in {write, format(), format(wipe=0x5A)}; "
                "layouts and lengths as C01 (props/tagcases.py, "
                "coverage.bounds.grid); format cases: every layout whose tag "
                "class implements format x previous {empty, short, long} x "
                "{no wipe, wipe}; every case executes the real code and is "
                "distinct")
    run.assumptions += [
        "tag simulators (sim/t?t.py) record every write and keep lock/OTP "
        "bits one-way; they are the trusted base",
        "NDEF area per DESIGN Appendix A (ref/tlv.py, ref/t3.py, ref/t4.py); "
        "Topaz/Topaz-512/Type 3 format() re-create management data by "
        "design: only UID, block D, lock, OTP and TLV-reserved bytes are "
        "protected there",
        "Type3Tag.format() is called with version=0x10 (version=None raises "
        "struct.error in _format - outside this property)",
    ]
    by_kind = {}
    for c in cases:
        by_kind[c.kind] = by_kind.get(c.kind, 0) + 1
    run.extra['bounds'] = dict(
        layouts=by_kind, grid=tc.GRID_DOC[tier], wipe=WIPE,
        format_layouts=sum(1 for c in cases if formats(c)),
        reserved_classes=list(tc.RSV_CLASSES) + ['afterL', 'NDEF TLV 2/3/6 and 254..260 bytes before the end'],
        items=len(items), part=part)
    return run.finish(exhaustive=(part is None))


def replay(doc):
    d = doc['detail']
    case = tc.from_spec(d['spec'])
    if d['op'] == 'write':
        f = tc.check_write(case, d['prev'], d['pattern'], d['n'])
    else:
        f = tc.check_format(case, d['prev'], d['wipe'])
    for sig, det in f.items[PROP]:
        print('VIOLATION %s' % sig)
        print('  %r' % (det,))
    if not f.items[PROP]:
        print('no violation for this case')
        return 0
    return 1
