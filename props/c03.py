"""C03 - NDEF writes touch nothing outside the NDEF message area.

Same executions as C01 (real tag objects over the stateful simulators) plus
format() and format(wipe=0x5A); the simulators record every write with its
address range and keep lock/OTP bits one-way.  Oracle: byte-wise diff of the
tag memory before/after restricted to everything the independent layout model
(ref/) does not count as NDEF area, no write command whose whole unit lies
outside the NDEF area, no access the simulated tag had to refuse (locked or
non existing memory, CC file, beyond the file size).

Part 'retry' (props/tagretry.py): histories on one tag object.  Attempt 1 of
`nd.octets = msg` fails because the link is disturbed from the j-th command of
the write on (timeout / transmission / protocol error; command lost or
response lost), then the application repeats the assignment on the SAME ndef
object, fault free.  The oracle above is applied to the whole history (memory
before attempt 1 against memory after the retry, every write command of both
attempts); if the retry returned normally a fresh activation must also read
`msg` (the application was told that the message is on the tag).  A retry that
ends with an exception is accepted (tag and reader may be out of step after a
lost response); the memory oracle still applies.
"""
import time

from mc.evidence import Run
from mc import par
from props import tagcases as tc
from props import tagretry as tr

from props import c01

PROP = 'C03'
CASES = {}
WIPE = 0x5A


def retry_cases(tier, kinds=None):
    """Layouts of the retry part: every tag type, static and dynamic memory,
    reserved ranges before / inside / at the end of the message area, two
    Type 2 Tags with two 1K sectors (SECTOR SELECT inside the write), Type 3
    with one / several blocks per write command and the library's own
    emulation, Type 4 with one-command, chunked (MLc 1, 2, 13, 52) and
    ISO-DEP chained (FSC 16, 32, 64) UPDATE BINARY."""
    t1 = [(120, 0x48, 0, 'none', 2), (120, 0x00, 1, 'early', 5),
          (512, 0x4C, 0, 'none', 2), (512, 0x4C, 3, 'mid', 5),
          (512, 0x4C, 6, 'tail2', 2), (256, 0x00, 1, 'early', 5)]
    t2 = [(48, 'ntag210', 0, 'none', 2), (48, 'ntag210', 1, 'before', 1),
          (144, 'ntag213', 1, 'mid', 5), (504, 'ntag215', 2, 'early', 5),
          (504, 'ntag215', 3, 'none', 2), (1016, 'generic', 0, 'none', 2),
          (1016, 'generic', 3, 'tail2', 2), (2040, 'generic', 3, 'none', 2),
          (2040, 'generic', 1, 'mid', 5)]
    t3 = [(4, 1, 5, False, 1), (4, 3, 5, False, 1), (1, 2, 13, False, 1),
          (12, 13, 17, False, 0), (4, 3, 5, True, 0), (1, 1, 3, True, 0)]
    t4 = [(0x20, 255, 255, 257, 8, 'A'), (0x20, 59, 13, 64, 2, 'B'),
          (0x30, 15, 1, 64, 8, 'A'), (0x30, 256, 52, 257, 4, 'B'),
          (0x20, 255, 2, 64, 0, 'A'), (0x30, 255, 255, 2048, 2, 'A')]
    if tier == 'thorough':
        t1 = [(size, hr1, nulls, rsv, 2 if rsv in ('none', 'tail2', 'endx')
               else 5)
              for size, hr1 in tc.T1_SIZES for rsv in tc.RSV_CLASSES
              for nulls in ((0, 2) if size == 120 else (0, 5))]
        t2 = [(D, tc.T2_SIZES[D][0], nulls, rsv,
               2 if rsv in ('none', 'tail2', 'endx') else 5)
              for D in (48, 144, 504, 1016, 2040) for rsv in tc.RSV_CLASSES
              for nulls in (0, 3)]
        t3 += [(2, 2, 3, False, 0), (15, 12, 16, False, 1),
               (4, 4, 256, False, 0), (12, 8, 16, True, 0)]
        t4 += [(m, mle, mlc, mfs, fsci, tech)
               for m in (0x20, 0x30) for (mle, mlc) in ((15, 1), (59, 13),
                                                       (255, 255), (256, 52))
               for mfs in (64, 257) for fsci, tech in ((0, 'B'), (5, 'A'))]
    out = []
    if kinds is None or 'T1' in kinds:
        out += [tc.t1_case(*a) for a in t1]
    if kinds is None or 'T2' in kinds:
        out += [tc.t2_case(*a) for a in t2]
    if kinds is None or 'T3' in kinds:
        out += [tc.T3Case(nbr, nbw, nmaxb, emulated=emu, spare=spare)
                for nbr, nbw, nmaxb, emu, spare in t3]
    if kinds is None or 'T4' in kinds:
        out += [tc.T4Case(*a) for a in t4]
    seen, uniq = set(), []
    for c in out:
        if c.name not in seen:
            seen.add(c.name)
            uniq.append(c)
    return uniq


def retry_lengths(case, tier):
    """0, 1, half and full capacity, both sides of the 1/3 byte length format
    (thorough: also 2, capacity-1, a quarter, three quarters)."""
    cap = case.ref_capacity()
    s = {0, 1, cap // 2, cap}
    if cap >= 300:
        s |= {254, 255, 256}
    if tier == 'thorough':
        s |= {2, cap - 1, cap // 4, (3 * cap) // 4}
    return sorted(x for x in s if 0 <= x <= cap)


def retry_combos(tier):
    """(pattern, previous content): count/empty, tlv/long, ff/short,
    zero/long - an all-zero message leaves pages unchanged, so the command
    sequence of the write differs from the other patterns."""
    return tc.MID_COMBOS


def formats(case):
    """format() is explored where the class implements it: every Type 2 and
    Type 4 tag, Topaz / Topaz-512, Type 3 (with version=0x10)."""
    if case.kind == 'T1':
        return case.pc['product'] != 'generic'
    return True


def items_for(tier, cases, chunk=48):
    items = []
    for ci, case in enumerate(cases):
        ls, combos = tc.plan(case, tier)
        for (pat, prev) in combos:
            for i in range(0, len(ls), chunk):
                items.append(('w', ci, prev, pat, tuple(ls[i:i + chunk])))
        if formats(case):
            items.append(('f', ci))
    return items


def work_retry(item):
    _, ci, prev, pat, n, tier = item
    case = CASES['retry'][ci]
    run = Run(PROP)
    t0 = time.process_time()
    info, results = tr.c03_retry(case, prev, pat, n, tier)
    sample = None
    for fault, name, fails, obs in results:
        key = (case.name, 'retry-write', prev, pat, n, fault)
        if not fails:
            run.ok(key=key)
        for sig, detail in fails:
            detail['tier'] = tier
            run.fail(sig, detail, key=key, deviations=2)
        run.count('retry:histories:' + case.kind)
        run.count('retry:fault:%s:%s' % (fault[1], fault[2]))
        for o in obs:
            run.count('retry:' + o)
        run.outcome((case.kind, 'retry') + tuple(sorted(obs)))
        if sample is None or fault[0] == (info['n'] + 1) // 2:
            sample = dict(case=case.name, op='retry-write', prev=prev,
                          pattern=pat, n=n, commands_of_write=info['n'],
                          fault=list(fault), faulted_command=name,
                          observed=sorted(obs),
                          verdict='ok' if not fails else fails[0][0])
    run.count('retry:writes:' + case.kind)
    run.count('retry:exempt:timeout-where-the-tag-answers-with-silence',
              info['exempt'])
    if info['thinned']:
        run.count('retry:writes-with-thinned-positions')
    if info['complete'] != 'completed':
        run.count('retry:complete-write-raises:' + info['complete'])
    run.count('cpu_ms', int((time.process_time() - t0) * 1000))
    if sample:
        run.sample(sample)
    return run.export()


def work(item):
    if item[0] == 'r':
        return work_retry(item)
    run = Run(PROP)
    t0 = time.process_time()
    case = CASES['list'][item[1]]
    sample = None
    if item[0] == 'w':
        _, ci, prev, pat, ls = item
        for n in ls:
            f = tc.check_write(case, prev, pat, n)
            key = (case.name, 'write', prev, pat, n)
            fails = f.items[PROP]
            if not fails:
                run.ok(key=key)
            for sig, detail in fails:
                run.fail(sig, detail, key=key)
            run.count('write:' + case.kind)
            if len(f.obs & {'mid', 'n==cap', 'n==0'}):
                run.count('write-completed')
            sample = dict(case=case.name, op='write', prev=prev, pattern=pat,
                          n=n, verdict='ok' if not fails else fails[0][0])
    else:
        for prev in tc.PREVS:
            for wipe in (None, WIPE):
                f = tc.check_format(case, prev, wipe)
                key = (case.name, 'format', prev, wipe)
                fails = f.items[PROP]
                if not fails:
                    run.ok(key=key)
                for sig, detail in fails:
                    run.fail(sig, detail, key=key)
                run.count('format:' + case.kind)
                for o in f.obs:
                    run.count('%s:%s' % (case.kind, o))
                    run.outcome((case.kind, o))
                sample = dict(case=case.name, op='format', prev=prev, wipe=wipe,
                              result=repr(f.result),
                              verdict='ok' if not fails else fails[0][0])
        # format() and a following write on the SAME tag object
        for prev in ('empty', 'long'):
            for wipe in (None, WIPE):
                for frac in ('0', '1', 'half', 'cap'):
                    f = tc.check_format_write(case, prev, wipe, frac)
                    key = (case.name, 'format-write', prev, wipe, frac)
                    fails = f.items[PROP]
                    if not fails:
                        run.ok(key=key)
                    for sig, detail in fails:
                        run.fail(sig, detail, key=key)
                    run.count('format-write:' + case.kind)
                    for o in f.obs:
                        run.count('%s:%s' % (case.kind, o.split(':')[0]))
    run.count('cpu_ms', int((time.process_time() - t0) * 1000))
    if sample:
        run.sample(sample)
    return run.export()


def main(tier='quick', seed=0, part=None):
    run = Run(PROP, tier, seed, level='exploration')
    tokens = set(part.split(',')) if part else set()
    kinds = (tokens - {'main', 'retry'}) or None
    parts = (tokens & {'main', 'retry'}) or {'main', 'retry'}
    cases = tc.all_cases(tier, kinds)
    CASES['list'] = cases
    items = items_for(tier, cases) if 'main' in parts else []
    n_main = len(items)
    rcases = retry_cases(tier, kinds)
    CASES['retry'] = rcases
    if 'retry' in parts:
        for ci, case in enumerate(rcases):
            for n in retry_lengths(case, tier):
                for (pat, prev) in retry_combos(tier):
                    items.append(('r', ci, prev, pat, n, tier))
    for res in par.pmap(work, par.shuffled(items, seed), chunksize=4):
        run.merge(res)
    run.rule = ("one case = (layout, operation, previous content, pattern, "
                "length) with operation in {write, format(), format(wipe=0x5A)}; "
                "layouts and lengths as C01 (props/tagcases.py, "
                "coverage.bounds.grid); format cases: every layout whose tag "
                "class implements format x previous {empty, short, long} x "
                "{no wipe, wipe}, and format() followed by a write of 0 / 1 / "
                "half / full capacity on the same tag object (judged against "
                "the layout the tag has after the format); every case executes the real code and is "
                "distinct.  Part 'retry': one case = (layout, previous "
                "content, pattern, length, faulted position j of the command "
                "sequence of the fault-free write, error kind timeout/"
                "transmission/protocol, command lost / response lost): "
                "attempt 1 of `ndef.octets = msg` runs with every exchange "
                "from the j-th on failing (a burst beyond every retry budget), "
                "then the assignment is repeated fault free on the same ndef "
                "object; j = every position for sequences up to %d commands, "
                "else first, second, middle, last, every SECTOR SELECT packet "
                "and the first/last occurrence of every command name%s; "
                "layouts/lengths of this part: coverage.bounds.retry" % (
                    tr.SMALL[tier], ' (+ third, last but one, quartiles, both '
                    'sides of every command name change)'
                    if tier == 'thorough' else ''))
    run.assumptions += [
        "tag simulators (sim/t?t.py) record every write and keep lock/OTP "
        "bits one-way; they are the trusted base",
        "NDEF area per DESIGN Appendix A (ref/tlv.py, ref/t3.py, ref/t4.py); "
        "Topaz/Topaz-512/Type 3 format() re-create management data by "
        "design: only UID, block D, lock, OTP and TLV-reserved bytes are "
        "protected there",
        "Type3Tag.format() is called with version=0x10 (version=None raises "
        "struct.error in _format - outside this property)",
        "retry part: the disturbance of attempt 1 lasts until that attempt "
        "returns; a timeout where the tag answers with silence anyway (second "
        "SECTOR SELECT packet) is not a fault; a retry that raises is "
        "accepted, read-back of the new message is demanded only after a "
        "retry that returned normally",
    ]
    by_kind, rby_kind = {}, {}
    for c in cases:
        by_kind[c.kind] = by_kind.get(c.kind, 0) + 1
    for c in rcases:
        rby_kind[c.kind] = rby_kind.get(c.kind, 0) + 1
    run.extra['bounds'] = dict(
        layouts=by_kind, grid=tc.GRID_DOC[tier], wipe=WIPE,
        format_layouts=sum(1 for c in cases if formats(c)),
        reserved_classes=list(tc.RSV_CLASSES) + ['afterL', 'NDEF TLV 2/3/6 and 254..260 bytes before the end'],
        items=n_main, part=part,
        retry=dict(layouts=rby_kind, layout_names=[c.name for c in rcases],
                   lengths='0, 1, capacity/2, capacity, 254..256 if they fit'
                   + ('; 2, capacity-1, capacity/4, 3*capacity/4'
                      if tier == 'thorough' else ''),
                   combos=[list(c) for c in retry_combos(tier)],
                   writes=len(items) - n_main, kinds=list(tr.KINDS),
                   variants=list(tr.VARIANTS),
                   all_positions_up_to=tr.SMALL[tier]))
    return run.finish(exhaustive=(part is None))


def replay(doc):
    d = doc['detail']
    case = tc.from_spec(d['spec'])
    if d['op'] == 'retry-write':
        info, results = tr.c03_retry(case, d['prev'], d['pattern'], d['n'],
                                     d.get('tier', 'quick'),
                                     only=tuple(d['fault']))
        sigs = []
        for fault, name, fails, obs in results:
            print('attempt 1 disturbed from command %d (%s) on, %s, %s; then '
                  'retry on the same ndef object: %s' % (
                      fault[0], name, fault[1], fault[2], sorted(obs)))
            for sig, det in fails:
                print('VIOLATION %s' % sig)
                print('  %r' % (det,))
                sigs.append(sig)
        if not sigs:
            print('no violation for this case')
        return c01._verdict(doc, sigs)
    if d['op'] == 'format-write':
        f = tc.check_format_write(case, d['prev'], d['wipe'], d['frac'])
    elif d['op'] == 'write':
        f = tc.check_write(case, d['prev'], d['pattern'], d['n'])
    else:
        f = tc.check_format(case, d['prev'], d['wipe'])
    for sig, det in f.items[PROP]:
        print('VIOLATION %s' % sig)
        print('  %r' % (det,))
    if not f.items[PROP]:
        print('no violation for this case')
        return 0
    return c01._verdict(doc, [sig for sig, det in f.items[PROP]])
