"""C12 - ISO-DEP exchanges each APDU exactly once or reports a tag error.

Harness (DESIGN.md section 2, C12): a real `Type4ATag` / `Type4BTag`, created
by `nfc.tag.activate()` (real RATS/ATS resp. ATTRIB evaluation), sends three
consecutive APDUs with `send_apdu` / `transceive` through the real
`IsoDepInitiator.exchange` to the reference PICC of sim/picc.py.  No threads:
the card is called synchronously from the fake `clf.exchange`.

Enumerated (mc.explore.explore, only 'env' choice points, every alternative
costs one deviation):
  * fate {deliver, lose, corrupt} of every PCD->PICC and PICC->PCD block,
  * the card sends an S(WTX) request before a new I-block or R(ACK)
    {no, yes} (before the response, between chained command blocks, between
    chained response blocks),
all scripts with <= k deviations (k = 2 quick, 3 thorough), for every
configuration of the grid (see `grid()`).

Oracle, per APDU, strictly the statement of the property:
  O1  the card executes at most once during the call;
  O2  if the call returned: the card executed exactly once, the bytes it
      executed are the APDU, and the value is exactly the card's response to
      that execution (never truncated / duplicated / stale);
  O3  otherwise the exception is nfc.tag.tt4.Type4TagCommandError;
  O4  the exchange must succeed when the faults are "absorbable" - defined
      conservatively, see ABSORBABLE below;
  O5  no PCD block is longer than FSC (PCB + INF + 2 EDC bytes);
  O6  after a failed exchange the next APDU does not return a stale response
      (this is O2 applied to the following APDUs of the same run).

ABSORBABLE (definition used by O4).  ISO/IEC 14443-4 bounds no retry count, so
"can absorb" needs a number.  The library allows `min(int(1/FWT), 5)` retries
per block (5 for FWI<=9, 3 for FWI 10, 1 for FWI 11, 0 for FWI>=12) and counts
every frame exchange of a block against it; one fault can cost two exchanges
(R(NAK), then the retransmission asked for by R(ACK), PCD rule 6).  An APDU
exchange therefore MUST succeed only if
  (a) no earlier APDU of the run failed (both sides still in step),
  (b) every fault of the exchange is a lost/corrupted block, recoverable by
      PCD rules 4-7 (true for every fault of this harness, also for the
      S(WTX) blocks: rule 4 + PICC rule 11),
  (c) the number f of faults during this APDU satisfies 2*f - 1 <= budget,
      budget computed here from FWI, not read from the library,
  (d) the card sent at most what the standard allows (S(WTX) is allowed
      instead of any I-block or R(ACK), rule 9).
Failures with f <= budget < 2*f - 1 are counted as observations
(`not_absorbed_within_nominal_budget`), not as violations.

`--part badcard` (also part of both tiers): the card sends an S(WTX) request
without the WTXM byte (format violation, valid EDC).  Nothing can be absorbed;
the "otherwise" clause applies: the call must end in Type4TagCommandError.
"""
import hashlib

from mc.evidence import Run, sig_exc
from mc.sched import Chooser, HarnessError
from mc import explore, par
from sim import picc as simpicc

PROP = 'C12'
N_APDU = 3

ERRNO_NAME = {0: 'TIMEOUT_ERROR', -1: 'RECEIVE_ERROR', -2: 'PROTOCOL_ERROR'}


# -----------------------------------------------------------------------------
# configuration grid
# -----------------------------------------------------------------------------
def fwt_of(fwi):
    return (256 * 16 / 13.56E6) * 2 ** fwi


def budget_of(fwi):
    """Retries per block the library announces (tt4.IsoDepInitiator)."""
    return min(int(1 / fwt_of(fwi)), 5)


def lengths(n):
    return (1, n - 1, n, n + 1, 2 * n, 2 * n + 1)


def api_for(cl, rl):
    """send_apdu when the lengths can be expressed as a short APDU with
    status word, transceive otherwise."""
    return 'send_apdu' if (4 <= cl <= 260 and rl >= 2) else 'transceive'


def cfg_key(c):
    return (c['part'], c['kind'], c['fsci'], c['fwi'], c['cl'], c['rl'],
            c['dev'], c.get('ats_form', 'abc'), c.get('wtxm', 1))


def grid(tier):
    """The finite configuration space of a tier."""
    k = 2 if tier == 'quick' else 3
    fscis, fwis = tuple(range(9)), (4, 10, 11, 14)
    idx = (0, 1, 2, 3, 4, 5)
    cfgs = []
    for kind in 'AB':
        for fsci in fscis:
            n = simpicc.frame_size(fsci) - 3
            ls = lengths(n)
            for fwi in fwis:
                for ci in idx:
                    for ri in idx:
                        # thorough: configurations with a length n-1 or 2n
                        # stay at 2 deviations (grid thinned evenly to fit
                        # the time budget; stated in the evidence)
                        thin = ci in (1, 4) or ri in (1, 4)
                        cfgs.append(dict(part='main', kind=kind, fsci=fsci,
                                         fwi=fwi, cl=ls[ci], rl=ls[ri],
                                         dev='std', k=2 if thin else k))
    # Type 4A activation with every subset of TA(1)/TB(1)/TC(1) in the ATS
    # (TA(1) and the historical bytes carry values whose high nibble would
    # give another FWI if taken for TB(1))
    for form in ('', 'a', 'b', 'c', 'ab', 'ac', 'bc', 'abc'):
        for fwi in ((4, 10) if 'b' in form else (4,)):
            for fsci in (2, 8):
                n = simpicc.frame_size(fsci) - 3
                cfgs.append(dict(part='main', kind='A', fsci=fsci, fwi=fwi,
                                 cl=1, rl=n + 1, dev='std', k=2,
                                 ats_form=form))
    # every legal waiting time multiplier (WTXM 1..59) in the card's S(WTX)
    # request, at every position where the card may ask (one deviation)
    for kind in 'AB':
        n = simpicc.frame_size(2) - 3
        for wtxm in range(1, 60):
            cfgs.append(dict(part='main', kind=kind, fsci=2, fwi=4, cl=n + 1,
                             rl=n + 1, dev='std', k=1, wtxm=wtxm))
    # the largest legal response (extended Le 0000h: 65536 octets + SW1 SW2)
    # and one octet less, fault free and with one fault anywhere
    for kind in 'AB':
        for rl in (65537, 65538):
            cfgs.append(dict(part='main', kind=kind, fsci=8, fwi=4, cl=1,
                             rl=rl, dev='std', k=0 if tier == 'quick' else 1))
    # empty command (transceive only), device frame limit below FSC, bad card
    for kind in 'AB':
        for fsci in (0, 2, 8):
            n = simpicc.frame_size(fsci) - 3
            for rl in (1, n + 1):
                cfgs.append(dict(part='main', kind=kind, fsci=fsci, fwi=4,
                                 cl=0, rl=rl, dev='std', k=k))
        for cl, rl in ((45, 46), (90, 91), (91, 45)):
            # FSC 256 but the device can only send 48 byte: the library
            # clamps its frame size to the device limit
            cfgs.append(dict(part='main', kind=kind, fsci=8, fwi=4, cl=cl,
                             rl=rl, dev='small', k=k))
        for fsci in (0, 2, 8):
            n = simpicc.frame_size(fsci) - 3
            for cl, rl in ((n, n), (2 * n + 1, 2 * n + 1)):
                cfgs.append(dict(part='badcard', kind=kind, fsci=fsci, fwi=4,
                                 cl=cl, rl=rl, dev='std', k=min(k, 2)))
    return cfgs


def est_cost(c):
    n = simpicc.frame_size(c['fsci']) - 3
    blocks = max(1, -(-c['cl'] // n)) + max(1, -(-c['rl'] // n))
    return blocks ** c['k'] * (1 if budget_of(c['fwi']) else 0.2)


# -----------------------------------------------------------------------------
# one execution
# -----------------------------------------------------------------------------
def build_apdu(cfg, j):
    """-> (api, call-arguments, bytes expected on the card)"""
    cl, rl = cfg['cl'], cfg['rl']
    api = api_for(cl, rl)
    if api == 'transceive':
        cmd = bytearray((0x10 * (j + 1) + 3 * i) & 0xFF for i in range(cl))
        if cl:
            cmd[0] = j + 1
        return api, (bytes(cmd),), bytes(cmd)
    cla, ins, p1, p2 = 0x00, 0x30 + j, j + 1, cfg['fsci']
    wire = bytearray([cla, ins, p1, p2])
    data, mrl = None, 0
    if cl == 5:
        mrl = min(max(rl - 2, 1), 256)
        wire.append(0 if mrl == 256 else mrl)
    elif cl >= 6:
        data = bytes((0x20 * (j + 1) + 5 * i) & 0xFF for i in range(cl - 5))
        wire.append(len(data))
        wire += data
    return api, (cla, ins, p1, p2, data, mrl), bytes(wire)


def sent_kind(frame):
    """Block kind without block number and length: I, I+, R(ACK), R(NAK),
    S(WTX), ..."""
    name = simpicc.block_name(frame).split('[')[0]
    if name[0] == 'I':
        return 'I+' if name.endswith('+') else 'I'
    if name[0] == 'R':
        return name[:-1]
    return name


def in_harness(exc):
    """True if the innermost frame of the traceback is harness code."""
    tb, fn = exc.__traceback__, ''
    while tb is not None:
        fn = tb.tb_frame.f_code.co_filename
        tb = tb.tb_next
    return '/sim/' in fn or '/props/' in fn or '/mc/' in fn


def run_one(cfg, ch):
    import nfc.tag
    import nfc.clf
    import nfc.tag.tt4 as tt4
    use_sw = api_for(cfg['cl'], cfg['rl']) == 'send_apdu'
    app = simpicc.CounterApp(rsp_len=cfg['rl'],
                             sw=b'\x90\x00' if use_sw else None)
    card = simpicc.Picc(app, kind=cfg['kind'], fsci=cfg['fsci'],
                        fwi=cfg['fwi'], chooser=ch, wtx=True,
                        wtxm=cfg.get('wtxm', 1))
    if 'ats_form' in cfg:
        card.ats_form = cfg['ats_form']
        card.ats_ta = 0xC4            # as TB(1) it would read FWI 12
        card.ats_hist = b'\xE1\x80'   # as TB(1) it would read FWI 14
    if cfg['part'] == 'badcard':
        card.wtx_inf = b''
    if cfg['dev'] == 'small':
        clf = simpicc.Clf(card, ch, max_send=48, max_recv=290)
    else:
        clf = simpicc.Clf(card, ch)
    tag = nfc.tag.activate(clf, card.remote_target())
    want = tt4.Type4ATag if cfg['kind'] == 'A' else tt4.Type4BTag
    if type(tag) is not want:
        raise HarnessError("activation gave %r" % (tag,))
    obs = []
    for j in range(N_APDU):
        api, args, wire = build_apdu(cfg, j)
        n0, f0, w0 = len(app.log), clf.n_faults, len(card.wtx_at)
        x0, v0 = clf.n_exchange, len(card.oversize)
        o = dict(j=j, api=api, wire=wire)
        try:
            if api == 'send_apdu':
                v = tag.send_apdu(*args)
            else:
                v = tag.transceive(*args)
            o['status'] = 'returned'
            o['value'] = bytes(v) if v is not None else None
        except tt4.Type4TagCommandError as e:
            o['status'] = 'tagerror'
            o['errno'] = e.errno
        except (HarnessError, AssertionError):
            raise
        except Exception as e:
            if in_harness(e) and not isinstance(e, nfc.clf.Error):
                raise
            o['status'] = 'raw'
            o['exc'] = sig_exc(e)
            o['last_sent'] = (sent_kind(clf.last_sent)
                              if clf.n_exchange > x0 else 'none')
        o['execs'] = app.log[n0:]
        o['faults'] = clf.fault_kinds[f0:]
        o['wtx'] = card.wtx_at[w0:]
        o['oversize'] = card.oversize[v0:]
        o['exchanges'] = clf.n_exchange - x0
        o['wtx_so_far'] = card.n_wtx
        obs.append(o)
    return dict(obs=obs, clf=clf, card=card, app=app)


# -----------------------------------------------------------------------------
# oracle
# -----------------------------------------------------------------------------
def judge(cfg, res):
    """-> (violations [(signature, message)], outcome class, counters)"""
    budget = budget_of(cfg['fwi'])
    use_sw = api_for(cfg['cl'], cfg['rl']) == 'send_apdu'
    viol, outcome, counters = [], [], []
    failed_before = False
    all_rsp = []
    for o in res['obs']:
        wtx = '+'.join(sorted(set(o['wtx']))) or 'none'
        ctx = 'wtx=%s|%s' % (wtx, 'after-failure' if failed_before
                             else 'in-step')
        if cfg['cl'] == 0:
            ctx = 'cmd=empty|' + ctx
        badcard = cfg['part'] == 'badcard' and o['wtx_so_far'] > 0
        if badcard:
            ctx = 'S(WTX)-without-WTXM|' + ctx
        nexec, f = len(o['execs']), len(o['faults'])
        must = not failed_before and 2 * f - 1 <= budget and not badcard

        def bad(kind, msg):
            viol.append(('ISO-DEP|%s|%s' % (kind, ctx),
                         'APDU #%d: %s' % (o['j'] + 1, msg)))

        if o['oversize']:                                          # O5
            bad('oversize-block', 'block of %d byte (with EDC) to a card '
                'with FSC %d' % o['oversize'][0])
        if nexec > 1:                                              # O1
            bad('double-execution', 'card executed %d times' % nexec)
        if o['status'] == 'returned':                              # O2 / O6
            v = o['value']
            if v is None:
                bad('returned-none', 'returned None')
            elif nexec == 0:
                stale = any(v and v in r for r in all_rsp)
                bad('stale-response' if stale else
                    'response-without-execution',
                    'returned %s although the card did not execute this '
                    'APDU%s' % (v[:16].hex(), ' (bytes of an earlier '
                                'response)' if stale else ''))
            elif nexec == 1:
                cmd, rsp = o['execs'][0]
                exp = rsp[:-2] if use_sw else rsp
                if cmd != o['wire']:
                    bad('garbled-command', 'card executed %d byte %s.., '
                        'APDU was %d byte %s..' % (
                            len(cmd), cmd[:8].hex(), len(o['wire']),
                            o['wire'][:8].hex()))
                elif v != exp:
                    kind = ('truncated-response' if len(v) < len(exp) else
                            'duplicated-response' if len(v) > len(exp) else
                            'wrong-response')
                    bad(kind, 'returned %d byte, card answered %d byte; '
                        'first difference at %d' % (
                            len(v), len(exp), next(
                                (i for i, (a, b) in enumerate(zip(v, exp))
                                 if a != b), min(len(v), len(exp)))))
            outcome.append(('ok', nexec))
            counters.append('apdu_returned')
            if f:
                counters.append('apdu_returned_after_%d_faults' % f)
            if o['wtx']:
                counters.append('apdu_returned_with_wtx')
        elif o['status'] == 'tagerror':                            # O4
            name = ERRNO_NAME.get(o['errno'], 'SW%04X' % o['errno'])
            if must:
                bad('not-absorbed|%s' % name,
                    'Type4TagCommandError(%s) with %d fault(s) %s, retry '
                    'budget %d, %d WTX' % (name, f, o['faults'], budget,
                                           len(o['wtx'])))
            elif not failed_before and f <= budget:
                counters.append('not_absorbed_within_nominal_budget')
            outcome.append(('err', name, nexec))
            counters.append('apdu_tagerror_' + name)
            if nexec == 1:
                counters.append('apdu_tagerror_but_executed_once')
        else:                                                      # O3
            bad('raw-exception|%s|last-sent=%s' % (o['exc'], o['last_sent']),
                '%s escaped instead of Type4TagCommandError (%d faults %s, '
                '%d WTX)' % (o['exc'], f, o['faults'], len(o['wtx'])))
            outcome.append(('raw', o['exc'].split('@')[0], nexec))
            counters.append('apdu_raw_exception')
        if must:
            counters.append('must_succeed_checked')
        if failed_before:
            counters.append('apdu_after_failure')
        if o['status'] != 'returned':
            failed_before = True
        all_rsp += [r for _, r in o['execs']]
    return viol, tuple(outcome), counters


def detail_of(cfg, ch, res, msgs):
    return dict(cfg=cfg, choices=list(ch.choices),
                labels=['%s=%d' % (e[4], e[2]) for e in ch.log if e[2]],
                oracle=msgs, trace=res['clf'].trace(),
                apdus=[dict(api=o['api'], sent=o['wire'][:24].hex(),
                            sent_len=len(o['wire']), status=o['status'],
                            value=(o.get('value') or b'')[:24].hex(),
                            value_len=len(o.get('value') or b''),
                            errno=o.get('errno'), exc=o.get('exc'),
                            executions=len(o['execs']), faults=o['faults'],
                            wtx=o['wtx']) for o in res['obs']],
                budget=budget_of(cfg['fwi']))


# -----------------------------------------------------------------------------
# exploration of one configuration (worker)
# -----------------------------------------------------------------------------
def _h64(cfg, choices):
    s = repr((cfg_key(cfg), tuple(choices))).encode()
    return int.from_bytes(hashlib.blake2b(s, digest_size=8).digest(), 'big')


def work(cfg):
    run = Run(PROP)
    acc = dict(nontrivial=0, xor=0, sum=0, by_cost={}, maxdepth=0, points=0,
               max_frame={})

    def visit(ch, res):
        viol, outcome, counters = judge(cfg, res)
        cost = ch.cost
        h = _h64(cfg, ch.choices)
        acc['xor'] ^= h
        acc['sum'] = (acc['sum'] + h) & 0xFFFFFFFFFFFFFFFF
        if cost:
            acc['nontrivial'] += 1
        for c in counters:
            run.count(c)
        run.outcome(outcome)
        fs = res['card'].fsc
        acc['max_frame'][fs] = max(acc['max_frame'].get(fs, 0),
                                   res['clf'].max_pcd_frame)
        if not viol:
            run.ok()
        else:
            seen = set()
            for sig, msg in viol:
                if sig in seen:
                    continue
                seen.add(sig)
                run.fail(sig, detail_of(cfg, ch, res, [m for s, m in viol
                                                       if s == sig]),
                         deviations=cost)
            run.evaluations -= len(seen) - 1
            run.count('executions_with_violation')
        if cost == cfg['k'] and len(run.samples) < 1 and \
                res['clf'].n_faults:
            run.sample(dict(cfg=cfg, choices=list(ch.choices),
                            trace=res['clf'].trace(),
                            outcome=[list(map(str, x)) for x in outcome]))

    st = explore.explore(lambda ch: run_one(cfg, ch), cfg['k'], visit)
    out = run.export()
    out['acc'] = acc
    out['stats'] = dict(executions=st.executions, points=st.choice_points,
                        maxdepth=st.max_depth, by_cost=st.by_cost)
    out['cfg'] = cfg_key(cfg)
    return out


# -----------------------------------------------------------------------------
def main(tier='quick', seed=0, part=None):
    run = Run(PROP, tier, seed, level='fault_enumeration')
    cfgs = grid(tier)
    if part and '/' in part:
        # debugging aid: shard i/n of the configuration list (the evidence
        # of a shard is marked non-exhaustive)
        i, n = (int(x) for x in part.split('/'))
        cfgs = sorted(cfgs, key=est_cost, reverse=True)[i::n]
    elif part:
        cfgs = [c for c in cfgs if c['part'] == part]
    cfgs = par.shuffled(cfgs, seed)
    cfgs.sort(key=est_cost, reverse=True)      # stable: seed permutes ties
    tot = dict(nontrivial=0, xor=0, sum=0, executions=0, points=0,
               maxdepth=0, by_cost={}, max_frame={})
    per_part = {}
    for r in par.pmap(work, cfgs):
        run.merge(r)
        a, s = r['acc'], r['stats']
        tot['nontrivial'] += a['nontrivial']
        tot['xor'] ^= a['xor']
        tot['sum'] = (tot['sum'] + a['sum']) & 0xFFFFFFFFFFFFFFFF
        tot['executions'] += s['executions']
        tot['points'] += s['points']
        tot['maxdepth'] = max(tot['maxdepth'], s['maxdepth'])
        for c, n in s['by_cost'].items():
            tot['by_cost'][c] = tot['by_cost'].get(c, 0) + n
        for fs, m in a['max_frame'].items():
            tot['max_frame'][fs] = max(tot['max_frame'].get(fs, 0), m)
        per_part[r['cfg'][0]] = per_part.get(r['cfg'][0], 0) + s['executions']
    assert tot['executions'] == run.evaluations, (tot['executions'],
                                                  run.evaluations)
    main_cfgs = [c for c in cfgs if c['part'] == 'main' and c['cl'] and
                 c['dev'] == 'std']
    run.rule = (
        "one case = (configuration, choice list); the explorer visits every "
        "choice list with <= k deviations exactly once per configuration "
        "(deviation = lost/corrupted block or an S(WTX) request), "
        "configurations are distinct, so all cases are distinct; non-trivial "
        "= at least one deviation taken (counted, not hashed: the explored "
        "set is summarised by an order independent 64-bit xor/sum digest "
        "that must be equal for every seed)")
    run.assumptions += [
        "sim/picc.py is the trusted ISO/IEC 14443-4 PICC (rules C,D,E,2,3,"
        "9-13, no error recovery by the card, no CID/NAD); an I-block is "
        "always accepted as a new/continued command",
        "clf model: lost/corrupted PCD block -> card mute -> TimeoutError; "
        "lost PICC block -> TimeoutError; corrupted PICC block -> "
        "TransmissionError; RATS/ATTRIB are never faulted; time is virtual",
        "must-succeed (O4) only if no earlier APDU of the run failed and "
        "2*faults-1 <= min(int(1/FWT),5) for the APDU; S(WTX) is legal "
        "wherever rule 9 allows it",
        "bounded: <= %d deviations per run of %d APDUs; lengths around "
        "multiples of FSC-3; payload bytes are position coded patterns"
        % (max(c['k'] for c in cfgs), N_APDU),
        "the card chains its responses in blocks of FSC-3 INF bytes "
        "(<= FSD-3) so that response chaining is exercised at every FSCI",
    ]
    run.extra['bounds'] = dict(
        deviation_bound_completed=max(c['k'] for c in cfgs),
        deviation_bound_badcard_part=min(c['k'] for c in cfgs),
        apdus_per_run=N_APDU,
        configurations=len(cfgs),
        main_grid=dict(
            kinds=sorted(set(c['kind'] for c in main_cfgs)),
            fsci=sorted(set(c['fsci'] for c in main_cfgs)),
            fwi=sorted(set(c['fwi'] for c in main_cfgs)),
            retry_budgets={str(f): budget_of(f) for f in
                           sorted(set(c['fwi'] for c in main_cfgs))},
            lengths="cmd, rsp in {1, n-1, n, n+1, 2n, 2n+1}, n = FSC-3"
                    + ("" if tier == 'quick' else
                       "; configurations with a length n-1 or 2n are "
                       "explored to 2 deviations only, the others "
                       "({1, n, n+1, 2n+1} squared) to 3"),
            configurations_by_deviation_bound={
                str(k): sum(1 for c in main_cfgs if c['k'] == k)
                for k in sorted(set(c['k'] for c in main_cfgs))},
            configurations=len(main_cfgs)),
        extra_configurations="empty command via transceive; device "
            "max_send_data_size 48 < FSC 256; bad card (S(WTX) without WTXM)",
        executions_per_part=per_part,
        executions_by_deviations={str(k): v for k, v in
                                  sorted(tot['by_cost'].items())},
        choice_points=tot['points'], max_choice_points_per_run=tot['maxdepth'],
        longest_pcd_block_with_edc_by_fsc={str(k): v for k, v in
                                           sorted(tot['max_frame'].items())},
        caps_hit=False)
    run.extra['explored_set_digest'] = '%016x-%016x' % (tot['xor'], tot['sum'])
    run.extra['traces_validated_against_impl'] = tot['executions']
    return run.finish(coverage=dict(distinct_nontrivial=tot['nontrivial']),
                      exhaustive=part is None)


# -----------------------------------------------------------------------------
def replay(doc):
    d = doc['detail']
    cfg = d['cfg']
    ch = Chooser(d['choices'])
    res = run_one(cfg, ch)
    viol, outcome, _ = judge(cfg, res)
    print("configuration: %r" % (cfg,))
    print("deviations: %s" % ', '.join(
        '%s=%d' % (e[4], e[2]) for e in ch.log if e[2]))
    for line in res['clf'].trace():
        print("  " + line)
    for o in res['obs']:
        print("APDU #%d %s: %s %s executions=%d" % (
            o['j'] + 1, o['api'], o['status'],
            ('%d byte' % len(o['value'] or b'')) if o['status'] == 'returned'
            else (o.get('exc') or ERRNO_NAME.get(o.get('errno'),
                                                 o.get('errno'))),
            len(o['execs'])))
    hit = [v for v in viol if v[0] == doc['signature']]
    for sig, msg in viol:
        print("VIOLATION %s: %s" % (sig, msg))
    if not viol:
        print("no violation")
    # (another signature of the same execution - e.g. a recorded finding -
    # is printed above but is not the violation of this replay file)
    return 1 if hit else 0
