"""C04 - NFC-DEP delivers each payload exactly once, intact, or reports failure.

Real nfc.dep.Initiator and nfc.dep.Target in two virtual threads joined by
sim.depchan.Channel.  For every configuration of the grid mc.explore.explore()
enumerates every script that assigns {deliver, lose, corrupt} to the frames
crossing the channel with at most k faults (only `env` choice points deviate,
the schedule is the default one: the channel is half duplex).  Oracle: DESIGN
section C04 / ref.depmodel.
"""
import time as _time

from mc.evidence import Run, sig_exc
from mc import par, sched, explore
from sim import depchan
from ref import depmodel as ref

PROP = 'C04'

T_INI = 5.0          # caller timeout per Initiator.exchange (>= 8*RWT*(k+1))
T_TGT = 5.0          # caller timeout per Target.exchange
T_ACT = 3.0          # Target.activate (listen) timeout
RWT = 4096 / 13.56E6 * 2 ** 8


# ----------------------------------------------------------------------------
# configurations
# ----------------------------------------------------------------------------
def make_cfg(framing, lri, lrt, did, nad, rot, rtox_at, k, n=6, kind='grid',
             t_ini=T_INI, sizes=None):
    return dict(framing=framing, lri=lri, lrt=lrt, did=did, nad=nad, rot=rot,
                rtox_at=rtox_at, k=k, n=n, kind=kind, t_ini=t_ini,
                sizes=sizes)


def cfg_key(cfg):
    return tuple(sorted((k, repr(v)) for k, v in cfg.items()))


def conversation(cfg):
    if cfg.get('sizes'):
        return [tuple(x) for x in cfg['sizes']]
    # reference MIU in each direction (receiver's LR minus header octets);
    # requests carry DID and NAD, responses of nfcpy's Target only the DID
    miu_it = ref.ref_miu(cfg['lrt'], cfg['did'], cfg['nad'])
    miu_ti = ref.ref_miu(cfg['lri'], cfg['did'], None)
    return ref.conversation(miu_it, miu_ti, cfg['rot'], cfg['n'])


FRAMINGS = ('106A', '212F', '106A>212F')


def grid(tier):
    """The real grid (stated in the evidence).  Every configuration runs one
    conversation of 6 exchanges in which each of the six size classes
    {1, MIU-1, MIU, MIU+1, 2MIU, 2MIU+1} occurs once per direction."""
    cfgs = []
    # orthogonal-array style assignment: all 16 (LRi, LRt) pairs; DID, NAD,
    # framing, RTOX position and size rotation vary with the pair index so
    # that every pair of factor values occurs.
    variants = [
        # (did, nad, framing, rtox_at)
        (None, None, '106A', None),
        (1, None, '212F', None),
        (None, 1, '106A>212F', 3),
        (1, 1, '106A', 2),
        (None, None, '212F', 1),
        (None, 1, '106A', None),
        (1, None, '106A>212F', None),
        (None, None, '106A>212F', 4),
    ]
    if tier == 'quick':
        per_pair, k_main = 4, 2
    else:
        per_pair, k_main = 8, 2
    i = 0
    for lri in range(4):
        for lrt in range(4):
            for v in range(per_pair):
                did, nad, framing, rtox_at = variants[(i + v * 3 + lri) % 8] \
                    if tier == 'quick' else variants[v]
                cfgs.append(make_cfg(framing, lri, lrt, did, nad,
                                     rot=(i + v) % 6, rtox_at=rtox_at,
                                     k=k_main))
            i += 1
    if tier == 'thorough':
        # k = 3 on a sub-grid: LR pairs on the diagonal and the two extreme
        # off-diagonal pairs, all eight variants
        j = 0
        for lri, lrt in ((0, 0), (1, 1), (2, 2), (3, 3), (0, 3), (3, 0)):
            for v in range(8):
                did, nad, framing, rtox_at = variants[v]
                cfgs.append(make_cfg(framing, lri, lrt, did, nad,
                                     rot=(j + 2) % 6, rtox_at=rtox_at, k=3))
                j += 1
    return cfgs


def side_cfgs(tier):
    """Small separate scenarios."""
    out = []
    # deadline expiry: the caller's timeout is too short for the recovery
    for t_ini in (0.5 * RWT, 1.5 * RWT, 2.5 * RWT):
        for did in (None,):
            out.append(make_cfg('106A', 1, 1, did, None, 0, None,
                                k=2 if tier == 'quick' else 3, n=3,
                                kind='deadline', t_ini=t_ini))
    # active communication mode activation (ATR inside sense, PSL)
    out.append(make_cfg('acm106A>212F', 2, 1, None, None, 1, None, k=2, n=3,
                        kind='acm'))
    # empty payload from the initiator (an INF PDU without data is legal)
    out.append(make_cfg('106A', 3, 3, None, None, 0, None, k=0, n=2,
                        kind='empty', sizes=[(1, 1), (0, 1)]))
    return out


# ----------------------------------------------------------------------------
# one execution
# ----------------------------------------------------------------------------
class Obs(object):
    def __init__(self):
        self.got_i, self.got_t = [], []
        self.i_exc = self.t_exc = None
        self.i_exc_at = self.t_exc_at = None
        self.i_state = self.t_state = 'start'
        self.t_ok_calls = 0          # Target.exchange(data) returned a request
        self.t_none = False
        self.rtox = None
        self.chan = None
        self.verdict = None
        self.stuck = []
        self.t_end = None


def run_case(cfg, chooser):
    import nfc.dep
    import nfc.clf
    s = sched.Sched(chooser, max_steps=6000, timer_deviations=False)
    framing = cfg['framing']
    acm = framing.startswith('acm')
    if acm:
        framing = framing[3:]
    brty0 = framing.split('>')[0]
    brs = ('106A', '212F', '424F').index(framing.split('>')[-1])
    chan = depchan.Channel(chooser, brty=brty0, acm=acm)
    ini = nfc.dep.Initiator(chan.initiator)
    tgt = nfc.dep.Target(chan.target)
    conv = conversation(cfg)
    o = Obs()
    o.chan = chan

    def initiator():
        try:
            opts = dict(brs=brs, lri=cfg['lri'], acm=acm, gbi=b'Ffm')
            if cfg['did'] is not None:
                opts['did'] = cfg['did']
            if cfg['nad'] is not None:
                opts['nad'] = cfg['nad']
            o.i_state = 'activate'
            gb = ini.activate(None, **opts)
            if gb is None:
                o.i_state = 'noact'
                return
            o.i_state = 'exchange'
            for n, (a, b) in enumerate(conv):
                r = ini.exchange(ref.payload('I', n, a), cfg['t_ini'])
                o.got_i.append(None if r is None else bytes(r))
            o.i_state = 'release'
            ini.deactivate()
            o.i_state = 'done'
        except Exception as e:      # judged by the oracle
            o.i_exc, o.i_exc_at = e, len(chan.log)

    def target():
        try:
            o.t_state = 'activate'
            gb = tgt.activate(timeout=T_ACT, lrt=cfg['lrt'], gbt=b'Ffm')
            if gb is None:
                o.t_state = 'noact'
                return
            o.t_state = 'exchange'
            r = tgt.exchange(None, T_TGT)
            n = 0
            while True:
                if r is None:
                    o.t_none = True
                    break
                o.got_t.append(bytes(r))
                if n >= len(conv):
                    break
                if cfg['rtox_at'] == n:
                    o.rtox = tgt.send_timeout_extension(2)
                    if o.rtox is None:
                        o.t_state = 'rtox-none'
                        return
                r = tgt.exchange(ref.payload('T', n, conv[n][1]), T_TGT)
                if r is not None:
                    o.t_ok_calls += 1
                n += 1
            o.t_state = 'done'
        except Exception as e:      # judged by the oracle
            o.t_exc, o.t_exc_at = e, len(chan.log)

    s.spawn(initiator, 'I')
    s.spawn(target, 'T')
    s.run()
    o.verdict = s.verdict
    o.stuck = sched.format_stuck(s)
    o.t_end = s.now
    return o


# ----------------------------------------------------------------------------
# oracle
# ----------------------------------------------------------------------------
def fdesc(f):
    return '%s:%s>%s:%s' % (depchan.FATES[f.fate], f.src, f.dst,
                            f.p.pdu or f.p.kind)


def judge(cfg, o):
    """Returns (violations, info): violations = list of (signature, message);
    info = dict with the oracle branches taken (for counters/outcomes)."""
    import nfc.clf
    CE = nfc.clf.CommunicationError
    conv = conversation(cfg)
    exp_t = [ref.payload('I', n, a) for n, (a, b) in enumerate(conv)]
    exp_i = [ref.payload('T', n, b) for n, (a, b) in enumerate(conv)]
    log = o.chan.log
    faults = [f for f in log if f.fate != depchan.DELIVER]
    steps = ref.segment(log)
    step_of = {}
    for si, st in enumerate(steps):
        for f in st['frames']:
            step_of[f.idx] = si
    did = int(cfg['did'] is not None)
    vio = []
    info = {}

    # where did the first failure happen, and which faults are to blame
    fail_at = min([x for x in (o.i_exc_at, o.t_exc_at) if x is not None],
                  default=len(log))
    before = [f for f in faults if f.idx < fail_at]

    def blame(at=None):
        at = fail_at if at is None else at
        prior = [f for f in faults if f.idx < at]
        if not prior:
            return 'nofault'
        if at == 0 or not log:
            return 'nofault'
        si = step_of[min(at, len(log)) - 1]
        same = [f for f in prior if step_of[f.idx] == si]
        st = steps[si]
        if same:
            return 'step=%s|%s' % (st['name'], '+'.join(fdesc(f) for f in same))
        f = prior[-1]
        return 'late|step=%s|%s' % (steps[step_of[f.idx]]['name'], fdesc(f))

    # 1. the execution must end
    if o.verdict != 'finished':
        vio.append(('C04|%s|did=%d|%s' % (o.verdict, did, blame()),
                    'execution did not finish: %s %s' % (o.verdict, o.stuck)))

    # 2. only CommunicationError subclasses
    for side, exc, at in (('I', o.i_exc, o.i_exc_at), ('T', o.t_exc, o.t_exc_at)):
        if exc is not None and not isinstance(exc, CE):
            vio.append(('C04|exception|%s|%s|%s' % (side, blame(at), sig_exc(exc)),
                        '%s side raised %r, not a CommunicationError'
                        % (side, exc)))
            info['foreign_exc'] = 1

    # 3. delivered payloads: exactly once, complete, in order, nothing else
    for side, got, exp in (('T', o.got_t, exp_t), ('I', o.got_i, exp_i)):
        bad = ref.check_delivery(got, exp)
        if bad is not None:
            i, cls = bad
            vio.append(('C04|data|%s-got|%s|did=%d|%s' % (side, cls, did, blame()),
                        '%s side: item %d delivered as %s: got %d bytes %s.., '
                        'expected %s' % (
                            side, i, cls, len(got[i]), got[i][:12].hex(),
                            ('%d bytes %s..' % (len(exp[i]), exp[i][:12].hex()))
                            if i < len(exp) else 'nothing')))
    # a normal return claims delivery
    if len(o.got_i) > len(o.got_t):
        vio.append(('C04|claim|I|did=%d|%s' % (did, blame()),
                    'Initiator.exchange returned %d times but only %d '
                    'payloads reached the target' % (len(o.got_i), len(o.got_t))))
    if o.t_ok_calls > len(o.got_i):
        vio.append(('C04|claim|T|did=%d|%s' % (did, blame()),
                    'Target.exchange returned a next request %d times but only'
                    ' %d responses reached the initiator'
                    % (o.t_ok_calls, len(o.got_i))))

    # 4. no frame exceeds what the receiver announced
    for f in log:
        if f.p.kind in ('DEP_REQ', 'DEP_RES') and f.p.tdlen is not None:
            lr = ref.LR[cfg['lrt'] if f.dst == 'T' else cfg['lri']]
            size = max(f.p.tdlen, len(f.p.td))
            if size > lr:
                vio.append(('C04|LR|%s>%s|did=%d|nad=%d|+%d' % (
                    f.src, f.dst, int(f.p.did is not None),
                    int(f.p.nad is not None), size - lr),
                    'frame %d %s>%s %s: %d transport data bytes, receiver '
                    'announced LR=%d' % (f.idx, f.src, f.dst, f.p.name, size, lr)))
                info['lr_exceeded'] = 1
                break

    # 5. transparent recovery
    complete = (len(o.got_i) == len(conv) and len(o.got_t) == len(conv)
                and o.i_exc is None
                and (o.t_exc is None or isinstance(o.t_exc, CE))
                and o.i_state in ('done', 'release'))
    info['complete'] = int(complete)
    act_fault = any(f.listen or f.p.kind in ref.ACT for f in faults)
    per_step = {}
    for f in faults:
        per_step[step_of[f.idx]] = per_step.get(step_of[f.idx], 0) + 1
    multi = any(c > 1 and steps[si]['kind'] == 'dep'
                for si, c in per_step.items())
    if cfg['kind'] in ('deadline', 'empty'):
        required = not faults and cfg['kind'] == 'deadline' \
            and cfg['t_ini'] > RWT
        info['class'] = cfg['kind']
    elif act_fault:
        required = False
        info['class'] = 'activation-fault'
        clean = (o.i_state == 'noact' or o.i_exc is not None) and (
            o.t_state == 'noact' or o.t_exc is not None or o.t_none)
        info['act_clean'] = int(clean or complete)
    elif multi:
        required = False
        info['class'] = 'multi-fault-step'
    else:
        required = True
        info['class'] = 'single-fault-steps' if faults else 'fault-free'
    info['required'] = int(required)
    if required and not complete:
        if o.i_exc is not None and (o.t_exc is None
                                    or o.i_exc_at <= o.t_exc_at):
            who = 'I:' + sig_exc(o.i_exc)
        elif o.t_exc is not None:
            who = 'T:' + sig_exc(o.t_exc)
        else:
            who = 'I=%s,T=%s' % (o.i_state, o.t_state)
        vio.append(('C04|recover|did=%d|%s|%s' % (did, blame(), who),
                    'at most one fault per protocol step but the conversation '
                    'did not complete: initiator %d/%d %r, target %d/%d %r'
                    % (len(o.got_i), len(conv), o.i_exc, len(o.got_t),
                       len(conv), o.t_exc)))
    return vio, info


def outcome_class(cfg, o, info):
    return (info.get('class'), len(o.got_i), len(o.got_t),
            type(o.i_exc).__name__, type(o.t_exc).__name__, o.i_state,
            o.t_state, o.t_none)


def detail(cfg, chooser, o, vio):
    return dict(cfg=cfg, choices=chooser.choices,
                conversation=conversation(cfg),
                faults=[f.label + '=' + depchan.FATES[f.fate]
                        for f in o.chan.faults()],
                oracle=[m for s, m in vio],
                initiator=dict(state=o.i_state, exc=repr(o.i_exc),
                               delivered=len(o.got_i)),
                target=dict(state=o.t_state, exc=repr(o.t_exc),
                            delivered=len(o.got_t), none=o.t_none),
                frames=['%3d %s %-13s pni=%s len=%d t=%.4f %s' % (
                    f.idx, f.src + '>' + f.dst, f.p.name, f.p.pni,
                    len(f.data), f.t - 1000.0, depchan.FATES[f.fate])
                    for f in o.chan.log])


# ----------------------------------------------------------------------------
# exploration of one configuration
# ----------------------------------------------------------------------------
def only_env(kind, label):
    return kind == 'env'


def explore_cfg(cfg):
    run = Run(PROP)
    ck = cfg_key(cfg)
    st = explore.Stats()
    t0 = _time.time()
    frames = [0, 0]

    def run_one(ch):
        return run_case(cfg, ch)

    def visit(ch, o):
        vio, info = judge(cfg, o)
        dev = ch.cost
        key = (ck, tuple(ch.choices))
        frames[0] += len(o.chan.log)
        frames[1] = max(frames[1], len(o.chan.log))
        if vio:
            d = None
            for sig, msg in vio:
                if d is None:
                    d = detail(cfg, ch, o, vio)
                run.fail(sig, d, key=key, deviations=dev)
            run.evaluations -= len(vio) - 1
        else:
            run.ok(key=key, nontrivial=dev > 0)
        run.count('class:%s' % info.get('class'))
        if info.get('required'):
            run.count('recovery_required')
            if dev:
                run.count('recovered_transparently' if info['complete']
                          else 'not_recovered')
        elif info.get('complete'):
            run.count('completed_though_not_required')
        else:
            run.count('failure_reported_where_allowed')
        if 'act_clean' in info:
            run.count('activation_fault_clean' if info['act_clean']
                      else 'activation_fault_one_side_continues')
        if o.t_none:
            run.count('target_returned_None')
        if isinstance(o.i_exc, Exception):
            run.count('I_exc:%s' % type(o.i_exc).__name__)
        if isinstance(o.t_exc, Exception):
            run.count('T_exc:%s' % type(o.t_exc).__name__)
        if o.rtox is not None:
            run.count('rtox_granted')
        if o.chan.stale_dropped:
            run.count('stale_frames_dropped', o.chan.stale_dropped)
        run.outcome(outcome_class(cfg, o, info))
        if dev == cfg['k'] and len(run.samples) < 1 and dev > 0:
            run.sample(dict(cfg=cfg, faults=[f.label + '=' + depchan.FATES[f.fate]
                                             for f in o.chan.faults()],
                            frames=len(o.chan.log),
                            delivered=[len(o.got_i), len(o.got_t)],
                            i_exc=repr(o.i_exc), t_exc=repr(o.t_exc),
                            verdict=[s for s, m in vio] or 'ok'))

    explore.explore(run_one, cfg['k'], visit, stats=st, cost_filter=only_env)
    out = run.export()
    out['stats'] = dict(cfg=cfg, executions=st.executions,
                        by_cost=st.by_cost, max_depth=st.max_depth,
                        choice_points=st.choice_points, frames=frames[0],
                        max_frames=frames[1], wall=_time.time() - t0)
    return out


# ----------------------------------------------------------------------------
def main(tier='quick', seed=0, part=None):
    run = Run(PROP, tier, seed, level='fault_enumeration')
    cfgs = []
    if part in (None, 'grid'):
        cfgs += grid(tier)
    if part in (None, 'side'):
        cfgs += side_cfgs(tier)
    # walk order: seed permutes, then the expensive ones first (stable)
    cfgs = par.shuffled(cfgs, seed)
    cfgs.sort(key=lambda c: -c['k'])
    execs = 0
    by_cost = {}
    per_cfg = []
    frames = 0
    max_frames = 0
    for res in par.pmap(explore_cfg, cfgs):
        st = res.pop('stats')
        run.merge(res)
        execs += st['executions']
        frames += st['frames']
        max_frames = max(max_frames, st['max_frames'])
        for k, v in st['by_cost'].items():
            by_cost[k] = by_cost.get(k, 0) + v
        per_cfg.append(st)
    per_cfg.sort(key=lambda s: cfg_key(s['cfg']))
    run.rule = ("one case = (configuration, fate script): a complete "
                "conversation of real nfc.dep.Initiator and Target over "
                "sim.depchan with the script's fates; all scripts with <= k "
                "non-deliver fates are enumerated per configuration by "
                "mc.explore (env choice points only); distinct = distinct "
                "(configuration, choice list); non-trivial = at least one "
                "fault in the script")
    run.assumptions += [
        "sim.depchan is the trusted model of two chipsets and the air: a lost "
        "frame makes the waiting exchange() raise TimeoutError after its "
        "timeout of virtual time, a corrupted frame makes the receiver's "
        "exchange() raise TransmissionError and the sender time out; frames "
        "take no time; the target answers within RWT (virtual time), so late "
        "responses are not modelled",
        "a fault on ATR/PSL or on the first DEP_REQ (consumed inside the "
        "fake listen(), which then returns None like a driver) is only "
        "required to fail cleanly, not to be recovered",
        "default thread schedule only (half-duplex channel, strict "
        "alternation); no preemptions or timer races are explored",
        "payload sizes are the six boundary classes around the reference MIU "
        "(receiver LR - 3 - DID - NAD) per direction, one conversation of 6 "
        "exchanges per configuration; the grid is a covering selection of "
        "LRi x LRt x DID x NAD x framing x RTOX, not the full product",
        "faults beyond k per conversation are not explored",
    ]
    ks = sorted(set(c['k'] for c in cfgs))
    run.extra['bounds'] = dict(
        fault_bound_k=ks, configurations=len(cfgs),
        executions=execs, executions_by_fault_count=by_cost,
        frames_total=frames, max_frames_in_one_execution=max_frames,
        caller_timeout_s=dict(initiator=T_INI, target=T_TGT, listen=T_ACT),
        rwt_s=RWT, caps_hit=[])
    run.extra['grid'] = [
        dict(framing=s['cfg']['framing'], lri=ref.LR[s['cfg']['lri']],
             lrt=ref.LR[s['cfg']['lrt']], did=s['cfg']['did'],
             nad=s['cfg']['nad'], rtox_at=s['cfg']['rtox_at'],
             kind=s['cfg']['kind'], k=s['cfg']['k'],
             sizes=conversation(s['cfg']), executions=s['executions'],
             max_frames=s['max_frames'], wall_s=round(s['wall'], 2))
        for s in per_cfg]
    run.extra['traces_validated_against_impl'] = execs
    print("C04 configurations=%d executions=%d by_faults=%s" % (
        len(cfgs), execs, dict(sorted(by_cost.items()))))
    for k in sorted(run.counters):
        print("  %-44s %d" % (k, run.counters[k]))
    if len(run.outcomes) < 2:
        print("  WARNING vacuous: %d distinct outcomes" % len(run.outcomes))
    for sig, n in sorted(run.failure_counts.items()):
        print("  fail x%-6d %s" % (n, sig))
    return run.finish(exhaustive=True)


def replay(doc):
    d = doc['detail']
    cfg = d['cfg']
    ch, o = explore.replay(lambda c: run_case(cfg, c), d['choices'])
    ch2, o2 = explore.replay(lambda c: run_case(cfg, c), d['choices'])
    assert [f.dump() for f in o.chan.log] == [f.dump() for f in o2.chan.log], \
        "replay is not deterministic"
    vio, info = judge(cfg, o)
    dd = detail(cfg, ch, o, vio)
    print("configuration:", cfg)
    print("conversation (initiator size, target size):", dd['conversation'])
    for line in dd['frames']:
        print("  " + line)
    print("initiator:", dd['initiator'])
    print("target:   ", dd['target'])
    for sig, msg in vio:
        print("VERDICT %s\n        %s" % (sig, msg))
    if not vio:
        print("VERDICT ok")
    return 1 if any(s == doc['signature'] for s, m in vio) else 0
