"""C04 - NFC-DEP delivers each payload exactly once, intact, or reports failure.

Real nfc.dep.Initiator and nfc.dep.Target in two virtual threads joined by
sim.depchan.Channel.  For every configuration of the grid mc.explore.explore()
enumerates every script that assigns {deliver, lose, corrupt} to the frames
crossing the channel with at most k faults (only `env` choice points deviate,
the schedule is the default one: the channel is half duplex).  Oracle: DESIGN
section C04 / ref.depmodel.
"""
import os
import time as _time

from mc.evidence import Run, sig_exc
from mc import par, sched, explore
from sim import depchan
from ref import depmodel as ref

PROP = 'C04'

T_INI = 5.0          # caller timeout per Initiator.exchange (>= 8*RWT*(k+1))
T_TGT = 5.0          # caller timeout per Target.exchange
T_ACT = 3.0          # Target.activate (listen) timeout
RWT = 4096 / 13.56E6 * 2 ** 8
MAX_FRAMES = 150     # horizon of one execution (the longest one seen has 48)
# cap on the executions below one first-level branch of a fault tree, per k
# (the largest branch seen at k = 3 has about 2500 executions, see
# coverage.bounds.largest_branch); a cap that is hit is reported, never silent
CAP_PER_BRANCH = {0: 1, 1: 1, 2: 3000, 3: 100000}


# ----------------------------------------------------------------------------
# configurations
# ----------------------------------------------------------------------------
def make_cfg(framing, lri, lrt, did, nad, rot, rtox_at, k, n=6, kind='grid',
             t_ini=T_INI, sizes=None):
    return dict(framing=framing, lri=lri, lrt=lrt, did=did, nad=nad, rot=rot,
                rtox_at=rtox_at, k=k, n=n, kind=kind, t_ini=t_ini,
                sizes=sizes)


def cfg_key(cfg):
    return tuple(sorted((k, repr(v)) for k, v in cfg.items()))


def conversation(cfg):
    if cfg.get('sizes'):
        return [tuple(x) for x in cfg['sizes']]
    # reference MIU in each direction (receiver's LR minus header octets);
    # requests carry DID and NAD, responses of nfcpy's Target only the DID
    miu_it = ref.ref_miu(cfg['lrt'], cfg['did'], cfg['nad'])
    miu_ti = ref.ref_miu(cfg['lri'], cfg['did'], None)
    return ref.conversation(miu_it, miu_ti, cfg['rot'], cfg['n'])


VARIANTS = [
    # (did, nad, framing, rtox_at)   DID in a third of the variants: with a
    # DID every timeout recovery fails (known finding), so those
    # configurations mostly exercise framing and the LR bound
    (None, None, '106A', None),
    (1, None, '212F', None),
    (None, 1, '106A>212F', 3),
    (None, None, '212F', 1),
    (1, 1, '106A', 2),
    (None, 1, '106A', None),
    (None, None, '106A>212F', 4),
    (1, None, '106A>212F', None),
]


def grid(tier):
    """The real grid (stated in the evidence).  Every configuration runs one
    conversation of 6 exchanges (more than 4 DEP PDUs, so PNI wraps) in which
    each of the six size classes {1, MIU-1, MIU, MIU+1, 2MIU, 2MIU+1} occurs
    once per direction; the target sizes are rotated against the initiator
    sizes by `rot`."""
    cfgs = []
    pairs = [(lri, lrt) for lri in range(4) for lrt in range(4)]
    if tier == 'quick':
        # all 16 (LRi, LRt) pairs x 6 of the 8 variants (shifted per pair so
        # that every variant meets every LRi and every LRt), k = 2
        for i, (lri, lrt) in enumerate(pairs):
            for v in range(6):
                did, nad, framing, rtox_at = VARIANTS[(v + i + lri) % 8]
                cfgs.append(make_cfg(framing, lri, lrt, did, nad,
                                     rot=(i + v) % 6, rtox_at=rtox_at, k=2))
    else:
        # k = 2: all 16 pairs x all 8 variants
        for i, (lri, lrt) in enumerate(pairs):
            for v in range(8):
                did, nad, framing, rtox_at = VARIANTS[v]
                cfgs.append(make_cfg(framing, lri, lrt, did, nad,
                                     rot=(i + v) % 6, rtox_at=rtox_at, k=2))
        # k = 3: the LR diagonal plus the two extreme off-diagonal pairs x
        # all 8 variants
        j = 0
        for lri, lrt in ((0, 0), (1, 1), (2, 2), (3, 3), (0, 3), (3, 0)):
            for v in range(8):
                did, nad, framing, rtox_at = VARIANTS[v]
                cfgs.append(make_cfg(framing, lri, lrt, did, nad,
                                     rot=(j + 2) % 6, rtox_at=rtox_at, k=3))
                j += 1
    return cfgs


def side_cfgs(tier):
    """Small separate scenarios."""
    out = []
    k = 2 if tier == 'quick' else 3
    # RTOX by the target before the response of every exchange x every size
    # rotation (so that the RTOX meets every PNI value and chained as well as
    # unchained responses)
    for lri, lrt in ((0, 0), (3, 1)) if tier == 'quick' else (
            (0, 0), (3, 1), (1, 2), (2, 3)):
        for rot in range(6):
            for rtox_at in range(6):
                out.append(make_cfg('106A' if rot % 2 else '212F', lri, lrt,
                                    None, None, rot, rtox_at, k=1,
                                    kind='rtox'))
    # deadline expiry: the caller's timeout is too short for the recovery;
    # the only demands are safety and CommunicationError
    for t_ini in (0.5 * RWT, 1.5 * RWT, 2.5 * RWT):
        out.append(make_cfg('106A', 1, 1, None, None, 0, None, k=k, n=3,
                            kind='deadline', t_ini=t_ini))
    # active communication mode activation (ATR inside sense, then PSL)
    out.append(make_cfg('acm106A>212F', 2, 1, None, None, 1, None, k=k, n=3,
                        kind='acm'))
    out.append(make_cfg('acm106A', 1, 2, 1, None, 4, None, k=2, n=3,
                        kind='acm'))
    # every payload size 1..MIU in both directions at LR 254, fault free:
    # every value of the frame length octet occurs at both bit rates, with
    # and without DID (a frame is not to be told by the value of an octet)
    allsz = [(n, 252 - n) for n in range(1, 252)]
    for framing in ('106A', '212F'):
        for did in (None, 1):
            for i in range(0, len(allsz), 8):
                chunk = allsz[i:i + 8]
                out.append(make_cfg(framing, 3, 3, did, None, 0, None, k=0,
                                    n=len(chunk), kind='sweep', sizes=chunk))
    # empty payload from the initiator (an INF PDU without data is legal)
    out.append(make_cfg('106A', 3, 3, None, None, 0, None, k=0, n=2,
                        kind='empty', sizes=[(1, 1), (0, 1)]))
    return out


# ----------------------------------------------------------------------------
# one execution
# ----------------------------------------------------------------------------
class Obs(object):
    def __init__(self):
        self.got_i, self.got_t = [], []
        self.i_exc = self.t_exc = None
        self.i_exc_at = self.t_exc_at = None
        self.i_last = self.t_last = None     # receiver event before the exc
        self.i_ctx, self.t_ctx = [], []      # (log length, event) per delivery
        self.t_ok_ctx = None
        self.i_state = self.t_state = 'start'
        self.t_ok_calls = 0          # Target.exchange(data) returned a request
        self.t_none = False
        self.rtox = None
        self.chan = None
        self.verdict = None
        self.stuck = []
        self.t_end = None


def run_case(cfg, chooser):
    import nfc.dep
    import nfc.clf
    framing = cfg['framing']
    acm = framing.startswith('acm')
    if acm:
        framing = framing[3:]
    brty0 = framing.split('>')[0]
    brs = ('106A', '212F', '424F').index(framing.split('>')[-1])
    chan = depchan.Channel(chooser, brty=brty0, acm=acm)
    s = sched.Sched(chooser, max_steps=20 * MAX_FRAMES, timer_deviations=False,
                    until=lambda _s: len(chan.log) >= MAX_FRAMES)
    ini = nfc.dep.Initiator(chan.initiator)
    tgt = nfc.dep.Target(chan.target)
    conv = conversation(cfg)
    o = Obs()
    o.chan = chan

    def initiator():
        try:
            opts = dict(brs=brs, lri=cfg['lri'], acm=acm, gbi=b'Ffm')
            if cfg['did'] is not None:
                opts['did'] = cfg['did']
            if cfg['nad'] is not None:
                opts['nad'] = cfg['nad']
            o.i_state = 'activate'
            gb = ini.activate(None, **opts)
            if gb is None:
                o.i_state = 'noact'
                return
            o.i_state = 'exchange'
            for n, (a, b) in enumerate(conv):
                r = ini.exchange(ref.payload('I', n, a), cfg['t_ini'])
                o.got_i.append(b'<None>' if r is None else bytes(r))
                o.i_ctx.append((len(chan.log), chan.last['I']))
            o.i_state = 'release'
            ini.deactivate()
            o.i_state = 'done'
        except sched.HarnessError:
            raise
        except Exception as e:      # judged by the oracle
            o.i_exc, o.i_exc_at = e, len(chan.log)
            o.i_last = chan.last['I']

    def target():
        try:
            o.t_state = 'activate'
            gb = tgt.activate(timeout=T_ACT, lrt=cfg['lrt'], gbt=b'Ffm')
            if gb is None:
                o.t_state = 'noact'
                return
            o.t_state = 'exchange'
            r = tgt.exchange(None, T_TGT)
            n = 0
            while True:
                if r is None:
                    o.t_none = True
                    break
                o.got_t.append(bytes(r))
                o.t_ctx.append((len(chan.log), chan.last['T']))
                if n >= len(conv):
                    break
                if cfg['rtox_at'] == n:
                    o.rtox = tgt.send_timeout_extension(2)
                    if o.rtox is None:
                        o.t_state = 'rtox-none'
                        return
                r = tgt.exchange(ref.payload('T', n, conv[n][1]), T_TGT)
                if r is not None:
                    o.t_ok_calls += 1
                    o.t_ok_ctx = (len(chan.log), chan.last['T'])
                n += 1
            o.t_state = 'done'
        except sched.HarnessError:
            raise
        except Exception as e:      # judged by the oracle
            o.t_exc, o.t_exc_at = e, len(chan.log)
            o.t_last = chan.last['T']

    s.spawn(initiator, 'I')
    s.spawn(target, 'T')
    s.run()
    for vt in s.threads:
        if vt.exc is not None:       # harness bug, never a finding
            raise vt.exc
    o.verdict = s.verdict
    o.stuck = sched.format_stuck(s)
    o.t_end = s.now
    return o


# ----------------------------------------------------------------------------
# oracle
# ----------------------------------------------------------------------------
def xsig(exc):
    """sig_exc with the module of non-builtin, non-nfc exception classes."""
    mod = type(exc).__module__
    sig = sig_exc(exc)
    if mod not in ('builtins', 'nfc.clf'):
        sig = mod + '.' + sig
    return sig


def judge(cfg, o):
    """Returns (violations, info): violations = list of (signature, message);
    info = dict with the oracle branches taken (for counters/outcomes)."""
    import nfc.clf
    CE = nfc.clf.CommunicationError
    conv = conversation(cfg)
    exp_t = [ref.payload('I', n, a) for n, (a, b) in enumerate(conv)]
    exp_i = [ref.payload('T', n, b) for n, (a, b) in enumerate(conv)]
    log = o.chan.log
    faults = [f for f in log if f.fate != depchan.DELIVER]
    steps = ref.segment(log)
    step_of = {}
    for si, st in enumerate(steps):
        for f in st['frames']:
            step_of[f.idx] = si
    did = int(cfg['did'] is not None)
    vio = []
    info = {}

    def ctx(side, at, last):
        """Where in the protocol and on which receiver event did `side`
        fail: the step of the last frame on the channel, and what the side's
        receiver saw last (~ marks a byte-identical retransmission)."""
        if not log or not at:
            step = '-'
        else:
            step = steps[step_of[min(at, len(log)) - 1]]['name']
        if last is None:
            ev = 'nothing'
        elif last[0] == 'rx':
            f = last[1]
            retx = any(g.src == f.src and g.data == f.data
                       and step_of[g.idx] == step_of[f.idx]
                       for g in log[:f.idx])
            ev = 'rx:%s%s' % (f.p.pdu or f.p.kind, '~' if retx else '')
        else:
            ev = last[0]
        nf = '' if any(f.idx < (at or 0) for f in faults) else '|nofault'
        return 'step=%s|%s:%s%s' % (step, side, ev, nf)

    def first_failure():
        if o.i_exc is not None and (o.t_exc is None
                                    or o.i_exc_at <= o.t_exc_at):
            return ctx('I', o.i_exc_at, o.i_last)
        if o.t_exc is not None:
            return ctx('T', o.t_exc_at, o.t_last)
        return ctx('-', len(log), None)

    # 1. the execution must end
    if o.verdict != 'finished':
        vio.append(('C04|no-end:%s|did=%d|%s' % (o.verdict, did, first_failure()),
                    'execution did not finish (%s; horizon %d frames): %s'
                    % (o.verdict, MAX_FRAMES, o.stuck)))

    # 2. only CommunicationError subclasses
    for side, exc, at in (('I', o.i_exc, o.i_exc_at), ('T', o.t_exc, o.t_exc_at)):
        if exc is not None and cfg['kind'] == 'empty' and isinstance(
                exc, ValueError):
            # an empty payload is refused up front as an invalid argument on
            # both sides (nothing is sent): not a delivery failure
            info['empty_rejected'] = 1
            continue
        if exc is not None and not isinstance(exc, CE):
            vio.append(('C04|exception|%s|did=%d|%s' % (side, did, xsig(exc)),
                        '%s side raised %r, not a CommunicationError (%s)'
                        % (side, exc, ctx(side, at, o.i_last if side == 'I'
                                          else o.t_last))))
            info['foreign_exc'] = 1

    # 3. delivered payloads: exactly once, complete, in order, nothing else
    for side, got, exp, cx in (('T', o.got_t, exp_t, o.t_ctx),
                               ('I', o.got_i, exp_i, o.i_ctx)):
        bad = ref.check_delivery(got, exp)
        if bad is not None:
            i, cls = bad
            info['bad_data'] = 1
            vio.append(('C04|data|%s-got|%s|did=%d|%s' % (
                side, cls, did, ctx(side, cx[i][0], cx[i][1])),
                        '%s side: item %d delivered as %s: got %d bytes %s.., '
                        'expected %s' % (
                            side, i, cls, len(got[i]), got[i][:12].hex(),
                            ('%d bytes %s..' % (len(exp[i]), exp[i][:12].hex()))
                            if i < len(exp) else 'nothing')))
    # a normal return claims delivery
    if len(o.got_i) > len(o.got_t):
        info['bad_data'] = 1
        vio.append(('C04|claim|I|did=%d|%s' % (did, ctx('I', *o.i_ctx[-1])),
                    'Initiator.exchange returned %d times but only %d '
                    'payloads reached the target' % (len(o.got_i), len(o.got_t))))
    if o.t_ok_calls > len(o.got_i) and not info.get('bad_data'):
        vio.append(('C04|claim|T|did=%d|%s' % (did, ctx('T', *o.t_ok_ctx)),
                    'Target.exchange returned a next request %d times but only'
                    ' %d responses reached the initiator'
                    % (o.t_ok_calls, len(o.got_i))))

    # 4. no frame exceeds what the receiver announced
    for f in log:
        if f.p.kind in ('DEP_REQ', 'DEP_RES') and f.p.tdlen is not None:
            lr = ref.LR[cfg['lrt'] if f.dst == 'T' else cfg['lri']]
            size = max(f.p.tdlen, len(f.p.td))
            if size > lr:
                vio.append(('C04|LR|%s>%s|did=%d|nad=%d|+%d' % (
                    f.src, f.dst, int(f.p.did is not None),
                    int(f.p.nad is not None), size - lr),
                    'frame %d %s>%s %s: %d transport data bytes, receiver '
                    'announced LR=%d' % (f.idx, f.src, f.dst, f.p.name, size, lr)))
                info['lr_exceeded'] = 1
                break

    # 5. transparent recovery
    complete = (len(o.got_i) == len(conv) and len(o.got_t) == len(conv)
                and o.i_exc is None
                and (o.t_exc is None or isinstance(o.t_exc, CE))
                and o.i_state in ('done', 'release'))
    info['complete'] = int(complete)
    act_fault = any(f.listen or f.p.kind in ref.ACT for f in faults)
    per_step = {}
    for f in faults:
        per_step[step_of[f.idx]] = per_step.get(step_of[f.idx], 0) + 1
    multi = any(c > 1 and steps[si]['kind'] == 'dep'
                for si, c in per_step.items())
    if cfg['kind'] in ('deadline', 'empty'):
        required = not faults and cfg['kind'] == 'deadline' \
            and cfg['t_ini'] > RWT
        info['class'] = cfg['kind']
    elif act_fault:
        required = False
        info['class'] = 'activation-fault'
        clean = (o.i_state == 'noact' or o.i_exc is not None) and (
            o.t_state == 'noact' or o.t_exc is not None or o.t_none)
        info['act_clean'] = int(clean or complete)
    elif multi:
        required = False
        info['class'] = 'multi-fault-step'
    else:
        required = True
        info['class'] = 'single-fault-steps' if faults else 'fault-free'
    info['required'] = int(required)
    if required and not complete and not info.get('foreign_exc') \
            and not info.get('bad_data') and o.verdict == 'finished':
        if o.i_exc is not None and (o.t_exc is None
                                    or o.i_exc_at <= o.t_exc_at):
            who = xsig(o.i_exc)
        elif o.t_exc is not None:
            who = xsig(o.t_exc)
        else:
            who = 'I=%s,T=%s' % (o.i_state, o.t_state)
        vio.append(('C04|recover|did=%d|%s|%s' % (did, first_failure(), who),
                    'at most one fault per protocol step but the conversation '
                    'did not complete: initiator %d/%d %r, target %d/%d %r'
                    % (len(o.got_i), len(conv), o.i_exc, len(o.got_t),
                       len(conv), o.t_exc)))
    return vio, info


def outcome_class(cfg, o, info):
    return (info.get('class'), len(o.got_i), len(o.got_t),
            type(o.i_exc).__name__, type(o.t_exc).__name__, o.i_state,
            o.t_state, o.t_none)


def detail(cfg, chooser, o, vio):
    return dict(cfg=cfg, choices=chooser.choices,
                conversation=conversation(cfg),
                faults=[f.label + '=' + depchan.FATES[f.fate]
                        for f in o.chan.faults()],
                oracle=[m for s, m in vio],
                initiator=dict(state=o.i_state, exc=repr(o.i_exc),
                               delivered=len(o.got_i)),
                target=dict(state=o.t_state, exc=repr(o.t_exc),
                            delivered=len(o.got_t), none=o.t_none),
                frames=['%3d %s %-13s pni=%s len=%3d t=%.4f %-7s %s%s' % (
                    f.idx, f.src + '>' + f.dst, f.p.name, f.p.pni,
                    len(f.data), f.t - 1000.0, depchan.FATES[f.fate],
                    f.data[:10].hex(), '..' if len(f.data) > 10 else '')
                    for f in o.chan.log])


# ----------------------------------------------------------------------------
# exploration of one configuration (or of one slice of its fault tree)
# ----------------------------------------------------------------------------
def only_env(kind, label):
    return kind == 'env'


class _Pin(object):
    """Keep both OS threads of the virtual scheduler on one CPU while a
    worker explores: the baton hand-off is then a same-core context switch
    (measured 6x faster on a loaded machine; it changes nothing else)."""

    def __enter__(self):
        self.old = None
        try:
            import multiprocessing
            ident = multiprocessing.current_process()._identity
            if not ident:
                return self
            self.old = os.sched_getaffinity(0)
            cpus = sorted(self.old)
            os.sched_setaffinity(0, {cpus[(ident[0] - 1) % len(cpus)]})
        except (AttributeError, OSError):
            self.old = None
        return self

    def __exit__(self, *a):
        if self.old:
            try:
                os.sched_setaffinity(0, self.old)
            except OSError:
                pass


def explore_item(item):
    """item = (cfg, part, parts): slice `part` of the first-level branches
    of cfg's fault tree (one branch per env choice point of the fault-free
    execution and non-deliver fate; the fault-free execution itself belongs
    to slice 0).  mc.explore.explore() walks the tree below each branch with
    the remaining budget, which visits exactly the executions it would visit
    below that branch when started at the root, each once."""
    cfg, part, parts = item
    with _Pin():
        return _explore_item(cfg, part, parts)


def _explore_item(cfg, part, parts):
    run = Run(PROP)
    ck = cfg_key(cfg)
    t0 = _time.time()
    acc = dict(frames=0, max_frames=0, execs=0, by_cost={}, max_depth=0,
               skipped=0, capped=0, max_branch=0)

    def visit(ch, o):
        ch = o.chooser
        vio, info = judge(cfg, o)
        dev = ch.cost
        key = (ck, tuple(ch.choices))
        acc['execs'] += 1
        acc['by_cost'][dev] = acc['by_cost'].get(dev, 0) + 1
        acc['frames'] += len(o.chan.log)
        acc['max_frames'] = max(acc['max_frames'], len(o.chan.log))
        acc['max_depth'] = max(acc['max_depth'], len(ch.log))
        if vio:
            d = detail(cfg, ch, o, vio)
            for sig, msg in vio:
                run.fail(sig, d, key=key, deviations=dev)
            run.evaluations -= len(vio) - 1
        else:
            run.ok(key=key, nontrivial=dev > 0)
        run.count('class:%s' % info.get('class'))
        if info.get('required'):
            run.count('recovery_required')
            if dev:
                run.count('recovered_transparently' if info['complete']
                          else 'not_recovered')
        elif info.get('complete'):
            run.count('completed_though_not_required')
        else:
            run.count('failure_reported_where_allowed')
        if 'act_clean' in info:
            run.count('activation_fault_clean' if info['act_clean']
                      else 'activation_fault_one_side_continues')
        if info.get('lr_exceeded'):
            run.count('executions_with_frame_over_LR')
        if o.t_none:
            run.count('target_returned_None')
        if isinstance(o.i_exc, Exception):
            run.count('I_exc:%s' % type(o.i_exc).__name__)
        if isinstance(o.t_exc, Exception):
            run.count('T_exc:%s' % type(o.t_exc).__name__)
        if o.rtox is not None:
            run.count('rtox_granted')
        if o.chan.stale_dropped:
            run.count('stale_frames_dropped', o.chan.stale_dropped)
        run.outcome(outcome_class(cfg, o, info))
        if dev == cfg['k'] and dev > 0 and not run.samples and part == 0:
            run.sample(dict(
                cfg=cfg, conversation=conversation(cfg),
                faults=[f.label + '=' + depchan.FATES[f.fate]
                        for f in o.chan.faults()],
                frames=len(o.chan.log), virtual_seconds=round(o.t_end - 1000, 4),
                delivered=dict(initiator=len(o.got_i), target=len(o.got_t)),
                i_exc=repr(o.i_exc), t_exc=repr(o.t_exc),
                target_returned_None=o.t_none,
                verdict=[sg for sg, m in vio] or 'ok'))

    def below(root):
        def run_one(ch):
            inner = sched.Chooser(list(root) + list(ch.prefix))
            o = run_case(cfg, inner)
            if inner.i < len(inner.prefix):
                raise sched.HarnessError("replay divergence below %r" % (root,))
            ch.log = inner.log[len(root):]
            ch.i = inner.i - len(root)
            o.chooser = inner
            return o
        return run_one

    # the fault-free execution first (counted by slice 0 only)
    ch0 = sched.Chooser(())
    o0 = run_case(cfg, ch0)
    o0.chooser = ch0
    if part == 0:
        visit(ch0, o0)
    if not judge(cfg, o0)[1]['complete'] and cfg['k'] > 0:
        # a conversation that fails without any fault is reported as such;
        # enumerating faults on top of it says nothing more
        acc['skipped'] = 1
    elif cfg['k'] > 0:
        roots = [tuple([0] * i + [alt])
                 for i, (n, costs, c, kind, label) in enumerate(ch0.log)
                 if kind == 'env' for alt in range(1, n)]
        for j, root in enumerate(roots):
            if j % parts == part:
                st = explore.explore(below(root), cfg['k'] - 1, visit,
                                     cost_filter=only_env,
                                     max_execs=CAP_PER_BRANCH[cfg['k']])
                acc['max_branch'] = max(acc['max_branch'], st.executions)
                if st.capped:
                    acc['capped'] += 1
    out = run.export()
    out['stats'] = dict(cfg=cfg, part=part, parts=parts,
                        executions=acc['execs'], by_cost=acc['by_cost'],
                        max_depth=acc['max_depth'], frames=acc['frames'],
                        max_frames=acc['max_frames'], skipped=acc['skipped'],
                        capped=acc['capped'], max_branch=acc['max_branch'],
                        wall=_time.time() - t0)
    return out


def explore_cfg(cfg):
    return _explore_item(cfg, 0, 1)


# ----------------------------------------------------------------------------
def main(tier='quick', seed=0, part=None):
    run = Run(PROP, tier, seed, level='fault_enumeration')
    cfgs = []
    if part in (None, 'grid'):
        cfgs += grid(tier)
    if part in (None, 'side'):
        cfgs += side_cfgs(tier)
    # the seed permutes the walk order only; expensive items first
    items = []
    for cfg in par.shuffled(cfgs, seed):
        parts = 8 if cfg['k'] >= 3 else 1
        items += [(cfg, p, parts) for p in range(parts)]
    items.sort(key=lambda it: -it[0]['k'])
    per_cfg = {}
    execs = frames = max_frames = 0
    by_cost = {}
    for res in par.pmap(explore_item, items):
        st = res.pop('stats')
        run.merge(res)
        execs += st['executions']
        frames += st['frames']
        max_frames = max(max_frames, st['max_frames'])
        for k, v in st['by_cost'].items():
            by_cost[k] = by_cost.get(k, 0) + v
        e = per_cfg.setdefault(cfg_key(st['cfg']), dict(
            cfg=st['cfg'], executions=0, max_frames=0, wall=0.0,
            skipped=0, capped=0, max_branch=0))
        e['executions'] += st['executions']
        e['max_frames'] = max(e['max_frames'], st['max_frames'])
        e['max_branch'] = max(e['max_branch'], st['max_branch'])
        e['wall'] += st['wall']
        e['skipped'] |= st['skipped']
        e['capped'] += st['capped']
    capped = [e for e in per_cfg.values() if e['capped']]
    skipped = [e for e in per_cfg.values() if e['skipped']]
    for e in capped:
        # never silent: an execution cap means the stated space was not walked
        run.fail('C04|harness|execution-cap', dict(
            cfg=e['cfg'], branches_capped=e['capped'],
            cap=CAP_PER_BRANCH[e['cfg']['k']],
            note='fault tree much larger than on the reference tree'),
            key=('cap', cfg_key(e['cfg'])), deviations=99)
    run.rule = ("one case = (configuration, fate script): a complete "
                "conversation of the real nfc.dep.Initiator and Target over "
                "sim.depchan under that script; per configuration all "
                "scripts with <= k non-deliver fates are enumerated by "
                "mc.explore (env choice points only); distinct = distinct "
                "(configuration, choice list); non-trivial = at least one "
                "fault in the script")
    run.assumptions += [
        "sim.depchan is the trusted model of two chipsets and the air: a lost "
        "frame makes the waiting exchange() raise TimeoutError after its "
        "timeout of virtual time; a corrupted frame makes the receiver's "
        "exchange() raise TransmissionError and the sender time out; frames "
        "take no time and the target answers at once, so late responses and "
        "timer races are not modelled",
        "a fault on ATR/PSL or on the first DEP_REQ (consumed inside the "
        "fake listen(), which then returns None like a driver) is only "
        "required to fail without foreign exceptions or wrong data, not to "
        "be recovered",
        "protocol step = one initiator INF/ACK/RTOX PDU with its response, "
        "the ATN/NAK traffic and byte-identical retransmissions up to the "
        "next such PDU; transparent recovery is demanded when no step has "
        "more than one faulted frame, the caller timeouts being generous "
        "(initiator %.1f s per PDU, target %.1f s per exchange, RWT %.3f s)"
        % (T_INI, T_TGT, RWT),
        "default thread schedule only (half-duplex channel, strict "
        "alternation); no preemptions are explored",
        "payload sizes are the six boundary classes around the reference MIU "
        "(receiver LR - 3 - DID - NAD) per direction, one conversation of 6 "
        "exchanges per grid configuration; the grid is a covering selection "
        "from LRi x LRt x DID x NAD x framing x RTOX, not the full product "
        "(see coverage.grid)",
        "scripts with more than k faults per conversation are not explored "
        "(nothing is sampled beyond the bound)",
    ]
    ks = {}
    for c in cfgs:
        ks[c['k']] = ks.get(c['k'], 0) + 1
    run.extra['bounds'] = dict(
        configurations=len(cfgs), configurations_by_fault_bound_k=ks,
        executions=execs, executions_by_fault_count=by_cost,
        frames_total=frames, max_frames_in_one_execution=max_frames,
        fates=list(depchan.FATES),
        caps_hit=[dict(cfg=e['cfg'], branches=e['capped']) for e in capped],
        frame_horizon=MAX_FRAMES, cap_per_first_level_branch=CAP_PER_BRANCH,
        largest_branch=max([e['max_branch'] for e in per_cfg.values()] or [0]),
        fault_enumeration_skipped_because_fault_free_run_fails=[
            dict(framing=e['cfg']['framing'], lri=ref.LR[e['cfg']['lri']],
                 lrt=ref.LR[e['cfg']['lrt']], did=e['cfg']['did'],
                 nad=e['cfg']['nad'], k=e['cfg']['k']) for e in skipped],
        bound_completed="every configuration explored to its k"
        if not capped else "caps hit, see caps_hit")
    run.extra['grid'] = [
        dict(kind=e['cfg']['kind'], framing=e['cfg']['framing'],
             lri=ref.LR[e['cfg']['lri']], lrt=ref.LR[e['cfg']['lrt']],
             did=e['cfg']['did'], nad=e['cfg']['nad'],
             rtox_at=e['cfg']['rtox_at'], k=e['cfg']['k'],
             sizes=conversation(e['cfg']), executions=e['executions'],
             max_frames=e['max_frames'], cpu_wall_s=round(e['wall'], 2),
             fault_free_run_fails=bool(e['skipped']))
        for key, e in sorted(per_cfg.items())]
    run.extra['traces_validated_against_impl'] = execs
    print("C04 tier=%s configurations=%d executions=%d by_faults=%s "
          "max_frames=%d skipped(fault-free run fails)=%d capped=%d" % (
              tier, len(cfgs), execs, dict(sorted(by_cost.items())),
              max_frames, len(skipped), len(capped)))
    for k in sorted(run.counters):
        print("  %-44s %d" % (k, run.counters[k]))
    if len(run.outcomes) < 2:
        print("  WARNING vacuous: %d distinct outcomes" % len(run.outcomes))
    for sig, n in sorted(run.failure_counts.items()):
        print("  fail x%-6d %s" % (n, sig))
    return run.finish(exhaustive=not capped)


def replay(doc):
    d = doc['detail']
    cfg = d['cfg']
    ch, o = explore.replay(lambda c: run_case(cfg, c), d['choices'])
    ch2, o2 = explore.replay(lambda c: run_case(cfg, c), d['choices'])
    assert [f.dump() for f in o.chan.log] == [f.dump() for f in o2.chan.log], \
        "replay is not deterministic"
    vio, info = judge(cfg, o)
    dd = detail(cfg, ch, o, vio)
    print("configuration:", cfg)
    print("conversation (initiator size, target size):", dd['conversation'])
    for line in dd['frames']:
        print("  " + line)
    print("initiator:", dd['initiator'])
    print("target:   ", dd['target'])
    for sig, msg in vio:
        print("VERDICT %s\n        %s" % (sig, msg))
    if not vio:
        print("VERDICT ok")
    return 1 if any(s == doc['signature'] for s, m in vio) else 0
