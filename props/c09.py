"""C09 - When the LLCP link ends no application thread is left waiting.

Real ContactlessFrontend.connect(llcp=...) -> real LogicalLinkController.run
in a virtual thread over a scripted MAC/peer (sim/peer.py); application
threads perform one blocking socket call each; the link ends by one of the
causes at exchange j.  Every schedule with <= P preemptions/timer deviations
(scheduling points: lock/condition operations, I/O, sleeps, and the traced
unsynchronised fields of mc/trace.py) is executed; afterwards every thread
must have finished, application calls with a value or nfc.llcp.Error, and
connect() must have returned.
"""
import itertools

from mc.evidence import Run, sig_exc
from mc import par, sched, explore, trace
from sim import peer as simpeer

PROP = 'C09'

RAW, LDL, DLC = 0, 1, 2


# -- application operations -----------------------------------------------------
def _sock(llc, kind):
    import nfc.llcp
    return nfc.llcp.Socket(llc, kind)


def op_raw_recv(llc, st):
    s = _sock(llc, RAW)
    s.bind(40)
    return s.recv()


def op_ldl_recvfrom(llc, st):
    s = _sock(llc, LDL)
    s.bind(41)
    return s.recvfrom()


def op_ldl_poll_recv(llc, st):
    s = _sock(llc, LDL)
    s.bind(42)
    return s.poll('recv')


def op_ldl_sendto(llc, st):
    s = _sock(llc, LDL)
    return s.sendto(b'datagram', 16)


def op_ldl_poll_send(llc, st):
    import nfc.llcp
    s = _sock(llc, LDL)
    s.sendto(b'datagram', 16, nfc.llcp.MSG_DONTWAIT)
    return s.poll('send')


def op_connect_addr(llc, st):
    s = _sock(llc, DLC)
    return s.connect(17)            # the peer never answers for SAP 17


def op_connect_name(llc, st):
    s = _sock(llc, DLC)
    return s.connect('urn:nfc:sn:noanswer')


def op_resolve(llc, st):
    s = _sock(llc, LDL)
    return s.resolve('urn:nfc:sn:noanswer')


def op_accept(llc, st):
    s = _sock(llc, DLC)
    s.bind('urn:nfc:sn:x')
    s.listen(1)
    return s.accept()


def op_dlc_recv(llc, st):
    s = _sock(llc, DLC)
    s.connect(16)
    return s.recv()


def op_dlc_poll_recv(llc, st):
    s = _sock(llc, DLC)
    s.connect(16)
    return s.poll('recv')


def op_dlc_poll_acks(llc, st):
    s = _sock(llc, DLC)
    s.connect(16)
    s.send(b'one')
    return s.poll('acks')


def op_dlc_send_window(llc, st):
    s = _sock(llc, DLC)
    s.connect(16)
    s.send(b'one')
    return s.send(b'two')           # RW(remote)=1 and the peer does not ack


def op_dlc_close(llc, st):
    s = _sock(llc, DLC)
    s.connect(16)
    return s.close()                # the peer does not answer DISC


OPS = dict((f.__name__[3:], f) for f in [
    op_raw_recv, op_ldl_recvfrom, op_ldl_poll_recv, op_ldl_sendto,
    op_ldl_poll_send, op_connect_addr, op_connect_name, op_resolve, op_accept,
    op_dlc_recv, op_dlc_poll_recv, op_dlc_poll_acks, op_dlc_send_window,
    op_dlc_close])

# operations that need the peer to withhold acknowledgements
NOACK = ('dlc_poll_acks', 'dlc_send_window', 'dlc_close')

# operations repeated after the link has ended ("issued afterwards"), on a
# socket created before (old) and on one created after termination (new)
LATE = ('raw_recv', 'ldl_recvfrom', 'ldl_poll_recv', 'ldl_sendto',
        'connect_addr', 'connect_name', 'resolve', 'accept')


def late_old(kind):
    """Prepare a socket while the link is up; return the call made later."""
    def prep(llc):
        import nfc.llcp
        if kind == 'raw_recv':
            s = _sock(llc, RAW); s.bind(50); return s.recv
        if kind == 'ldl_recvfrom':
            s = _sock(llc, LDL); s.bind(51); return s.recvfrom
        if kind == 'ldl_poll_recv':
            s = _sock(llc, LDL); s.bind(52); return lambda: s.poll('recv')
        if kind == 'ldl_sendto':
            s = _sock(llc, LDL); s.bind(53)
            return lambda: s.sendto(b'late', 16)
        if kind == 'connect_addr':
            s = _sock(llc, DLC); s.bind(54); return lambda: s.connect(17)
        if kind == 'connect_name':
            s = _sock(llc, DLC); s.bind(55)
            return lambda: s.connect('urn:nfc:sn:noanswer')
        if kind == 'resolve':
            s = _sock(llc, LDL)
            return lambda: s.resolve('urn:nfc:sn:noanswer')
        if kind == 'accept':
            s = _sock(llc, DLC); s.bind('urn:nfc:sn:y'); s.listen(1)
            return s.accept
        raise KeyError(kind)
    return prep


# -- one execution --------------------------------------------------------------
class Dummy(object):
    """Stands for an opened device; the scripted MAC never calls it."""
    def close(self):
        pass


def execute(cfg, chooser, want_trace=False):
    import nfc.clf
    import nfc.dep
    import nfc.llcp
    import nfc.snep
    import nfc.handover
    role, cause, at, ops, late, server, bound_kind = (
        cfg['role'], cfg['cause'], cfg['at'], cfg['ops'], cfg.get('late'),
        cfg.get('server'), cfg.get('traced', ()))
    trace.install()
    s = sched.Sched(chooser, max_steps=6000, trace=want_trace)
    s.traced = frozenset(cfg.get('traced', ()))
    noack = any(o in NOACK for o in ops)
    script = {}
    if server == 'snep':
        script[1] = [simpeer.hdr(4, 4, 33)]            # CONNECT 33 -> 4
    if server == 'handover':
        script[1] = [simpeer.hdr(1, 4, 33) + bytes([6, 19])
                     + b'urn:nfc:sn:handover']
    if cfg.get('frmr') is not None:
        # the peer rejects the application's data link connection (local
        # address 32, peer 16) with FRMR at this exchange, before the link ends
        script[cfg['frmr']] = [simpeer.hdr(32, 8, 16) + bytes([0x8C, 0, 0, 0])]
    p = simpeer.Peer(ack=not noack, script=script)
    brk = simpeer.Break(cause, at)
    Ini, Tgt = simpeer.make_mac_classes()
    Ini.peer = Tgt.peer = p
    Ini.brk = Tgt.brk = brk
    out = {'threads': {}}
    real = nfc.dep.Initiator, nfc.dep.Target
    nfc.dep.Initiator, nfc.dep.Target = Ini, Tgt

    def guarded(name, fn):
        def body():
            try:
                out['threads'][name] = ('ret', fn())
            except nfc.llcp.Error as e:
                out['threads'][name] = ('llcp.Error', e.errno)
            except sched.Abort:
                raise
            except BaseException as e:     # judged by the oracle
                out['threads'][name] = ('exc', e)
        return body

    def on_startup(llc):
        if server == 'snep':
            out['server'] = nfc.snep.SnepServer(llc)
        if server == 'handover':
            out['server'] = nfc.handover.HandoverServer(llc)
        return llc

    def on_connect(llc):
        out['llc'] = llc
        if 'server' in out:
            out['server'].start()
        for i, o in enumerate(ops):
            fn = OPS[o]

            def body(fn=fn):
                if cfg.get('gate') == 'break':
                    # start the call while the link is breaking
                    sched.S.block(lambda: brk.gate_open, None, 'wait', 'gate')
                return fn(llc, out)
            sched.VThread(target=guarded('app%d:%s' % (i, o), body),
                          name='app%d:%s' % (i, o)).start()
        if late:
            kind, age = late
            call = late_old(kind)(llc) if age == 'old' else None

            def later():
                sched.S.block(lambda: 'connect' in out, None, 'wait',
                              'connect() returned')
                if age == 'old':
                    return call()
                return OPS[kind](llc, out)
            sched.VThread(target=guarded('late:%s:%s' % (kind, age), later),
                          name='late:%s:%s' % (kind, age)).start()
        return True

    def main():
        clf = nfc.clf.ContactlessFrontend()
        clf.device = Dummy()
        try:
            r = clf.connect(llcp={'role': role, 'on-startup': on_startup,
                                  'on-connect': on_connect, 'lto': 100,
                                  'miu': 128, 'sec': False,
                                  'agf': cfg.get('agf', True)},
                            terminate=brk.terminate)
            out['connect'] = ('ret', r)
        except sched.Abort:
            raise
        except BaseException as e:
            out['connect'] = ('exc', e)

    try:
        s.spawn(main, 'connect')
        s.run()
    finally:
        nfc.dep.Initiator, nfc.dep.Target = real
    return s, out


def judge(cfg, s, out):
    """Returns a list of (signature, detail)."""
    bad = []
    cause_class = 'loop-error' if cfg['cause'] == 'bug' else 'regular'
    phase = 'after' if cfg.get('late') else (
        'breaking' if cfg.get('gate') == 'break' else 'during')
    ctx = '%s|%s' % (phase, cause_class)
    c = out.get('connect')
    if c is None:
        pass                                   # reported as stuck below
    elif c[0] == 'exc' and not (cfg['cause'] == 'bug' and isinstance(
            c[1], simpeer.LinkBug)):
        # (the injected loop error itself may propagate to the caller of
        # connect(): control does return to the caller)
        bad.append(('connect-raises|%s|%s' % (cfg['cause'], sig_exc(c[1])),
                    dict(error=repr(c[1]))))
    for name, res in sorted(out['threads'].items()):
        if res[0] == 'exc':
            op = name.split(':', 1)[1]
            bad.append(('call-raises|%s|%s|%s' % (op, ctx, sig_exc(res[1])),
                        dict(thread=name, error=repr(res[1]))))
    if s.verdict in ('deadlock', 'horizon'):
        for name, st in s.stuck():
            what = name.split(':', 1)[1] if ':' in name else name
            if name.startswith('Thread-') or name.startswith('urn:'):
                what = 'server:%s' % cfg.get('server')
            where = st[3][0] if len(st) > 3 and st[3] else '?'
            bad.append(('blocked|%s|%s|%s|%s' % (what, ctx, s.verdict, where),
                        dict(thread=name, blocked_at=st,
                             all_stuck=s.stuck())))
    for t in s.threads:
        if t.exc is not None and not isinstance(t.exc, sched.Abort):
            # an exception that killed a library thread (server threads)
            bad.append(('thread-dies|%s|%s' % (
                'server:%s' % cfg.get('server'), sig_exc(t.exc)),
                dict(thread=t.name, error=repr(t.exc))))
    return bad


def outcome_of(s, out):
    return (s.verdict, out.get('connect', ('none',))[0],
            tuple(sorted((n.split(':')[0], r[0] if r[0] != 'ret' else 'ret')
                         for n, r in out['threads'].items())))


def run_cfg(arg):
    cfg, bound, cap = arg
    run = Run(PROP)
    stats = explore.Stats()

    def visit(ch, res):
        s, out = res
        bad = judge(cfg, s, out)
        key = (cfg_key(cfg), tuple(ch.choices))
        run.outcome(outcome_of(s, out))
        if not bad:
            run.ok(key, nontrivial=ch.cost > 0 or len(ch.log) > 0)
        for sig, detail in bad:
            detail = dict(detail, cfg=cfg, choices=ch.choices, cost=ch.cost)
            if not sig.startswith('connect-raises'):
                sig += '|dev0' if ch.cost == 0 else '|dev+'
            run.fail(sig, detail, key, deviations=ch.cost)
        if len(bad) > 1:
            run.evaluations -= len(bad) - 1

    explore.explore(lambda ch: execute(cfg, ch), bound, visit,
                    max_execs=cap, stats=stats)
    run.count('executions', stats.executions)
    run.count('choice_points', stats.choice_points)
    run.count('capped_configs', 1 if stats.capped else 0)
    run.count('max_depth_%03d' % (stats.max_depth // 50 * 50))
    if cfg['at'] == 2 and cfg['cause'] == 'disc':
        run.sample(dict(cfg=cfg, executions=stats.executions,
                        max_choice_points=stats.max_depth))
    return run.export()


def cfg_key(cfg):
    return repr(sorted(cfg.items()))


def configs(tier):
    thorough = tier == 'thorough'
    traced = sorted(trace.ALL)
    out = []
    causes = simpeer.Break.KINDS
    ats = (0, 1, 2, 3, 5) if thorough else (0, 2, 4)
    for role in ('initiator', 'target'):
        for cause in causes:
            for at in ats:
                for op in OPS:
                    for gate in ('start', 'break'):
                        out.append(dict(role=role, cause=cause, at=at,
                                        ops=[op], gate=gate, traced=traced))
    # the same calls issued after the link has ended
    for role in ('initiator', 'target'):
        for cause in ('disc', 'timeout', 'terminate', 'ioerror'):
            for kind in LATE:
                for age in ('old', 'new'):
                    out.append(dict(role=role, cause=cause, at=2, ops=[],
                                    late=(kind, age), traced=traced))
    # a connection the peer rejected with FRMR before the link ends: the
    # call blocked on it must return then or when the link ends
    for role in ('initiator', 'target'):
        for cause in ('disc', 'timeout', 'terminate'):
            for op in ('dlc_recv', 'dlc_poll_recv', 'dlc_send_window',
                       'dlc_poll_acks'):
                for frmr in ((3, 4, 5) if thorough else (4,)):
                    out.append(dict(role=role, cause=cause, at=frmr + 3,
                                    ops=[op], gate='start', frmr=frmr,
                                    traced=traced))
    # service threads
    for role in ('initiator', 'target'):
        for cause in causes:
            for at in ((1, 2, 3, 4, 6) if thorough else (2, 4)):
                for server in ('snep', 'handover'):
                    out.append(dict(role=role, cause=cause, at=at, ops=[],
                                    server=server, traced=traced))
    # two application threads at once (conflicting pairs)
    pairs = [('raw_recv', 'ldl_recvfrom'), ('dlc_recv', 'accept'),
             ('resolve', 'connect_name'), ('dlc_send_window', 'ldl_poll_recv'),
             # two waiters on one condition (service discovery answers)
             ('resolve', 'resolve')]
    for role in ('initiator',):
        for cause in ('disc', 'timeout', 'terminate'):
            for a, b in pairs:
                for gate in ('start', 'break'):
                    out.append(dict(role=role, cause=cause, at=3, ops=[a, b],
                                    gate=gate, traced=traced))
    return out


def main(tier='quick', seed=0, part=None):
    run = Run(PROP, tier, seed, level='model_checking')
    bound = 2 if tier == 'thorough' else 1
    cap = 60000 if tier == 'thorough' else 4000
    cfgs = configs(tier)
    if part:
        cfgs = [c for c in cfgs if part in cfg_key(c)]
    jobs = [(c, bound, cap) for c in par.shuffled(cfgs, seed)]
    deep = []
    if tier == 'quick' and not part:
        # a few scenarios at the thorough tier's bound: an application call
        # that looks a socket up while the link thread removes it needs two
        # preemptions (found by the thorough tier, see DESIGN 7.2)
        traced = sorted(trace.ALL)
        for role in ('initiator', 'target'):
            for op in ('dlc_close', 'dlc_send_window'):
                deep.append(dict(role=role, cause='disc', at=2, ops=[op],
                                 gate='start', traced=traced))
            deep.append(dict(role=role, cause='disc', at=2, ops=[],
                             server='snep', traced=traced))
        jobs = [(c, 2, 60000) for c in deep] + jobs
    for res in par.pmap(run_cfg, jobs):
        run.merge(res)
    execs = run.counters.get('executions', 0)
    capped = run.counters.get('capped_configs', 0)
    run.rule = (
        "scenario = role x cause of link end x exchange index x blocking "
        "socket call(s) [+ the same call after termination on an old/new "
        "socket, + SNEP/handover server threads]; per scenario every schedule "
        "with <= %d deviations (preemptions at lock/condition/IO/traced-field "
        "points, timers landing first); distinct = (scenario, choice list); "
        "non-trivial = at least one choice point" % bound)
    run.assumptions += [
        "the remote device is sim/peer.py (answers CONNECT/SDREQ/I/DISC or "
        "stays silent); MAC exchange takes 2 ms of virtual time",
        "interleavings are explored at synchronisation operations and the "
        "traced fields %s, not between arbitrary bytecodes" % sorted(trace.ALL),
        "participants: link loop + 1-2 application threads + optional late "
        "caller or server threads"]
    return run.finish(coverage=dict(
        states=run.counters.get('choice_points', 0),
        transitions=run.counters.get('choice_points', 0),
        traces_validated_against_impl=execs,
        scenarios=len(cfgs), deviation_bound_completed=bound,
        scenarios_with_bound_2=len(deep) if tier == 'quick' else len(cfgs),
        execution_cap_per_scenario=cap, scenarios_capped=capped,
        traced_fields=sorted(trace.ALL)),
        exhaustive=capped == 0)


def replay(doc):
    d = doc['detail']
    cfg = d['cfg']
    if cfg.get('late'):
        cfg['late'] = tuple(cfg['late'])
    verdicts = []
    for _ in range(2):
        ch = sched.Chooser(d['choices'])
        s, out = execute(cfg, ch, want_trace=True)
        sigs = []
        for b in judge(cfg, s, out):
            sig = b[0]
            if not sig.startswith('connect-raises'):
                sig += '|dev0' if ch.cost == 0 else '|dev+'
            sigs.append(sig)
        verdicts.append((sigs, s.trace))
    if verdicts[0] != verdicts[1]:
        print("replay: NOT deterministic")
        return 2
    print("replay:", verdicts[0][0])
    for t in verdicts[0][1][-25:]:
        print("   ", t)
    return 1 if doc['signature'] in verdicts[0][0] else 0
