"""C05, explicit-state part: every history of non-blocking socket calls and link
exchange events on one data link connection between two real
LogicalLinkControllers (no threads), states deduplicated by mc.bfs.canon.

Alphabet: send on A/B (message = its index), recv on A/B, poll acks on A/B,
receiver-busy on/off on A/B, exchange A->B, exchange B->A.  (close() of an
established connection blocks until the peer's DM arrives, so it is exercised
in the threaded part.)
"""
from mc import bfs, par, sched
from mc.evidence import Run, sig_exc
from sim import llcpump

DLC = 2


def msg(side, i, size):
    if isinstance(size, (list, tuple)):     # sizes cycle per message index
        size = size[i % len(size)]
    head = ('%s%03d:' % (side, i)).encode()
    return (head + bytes((i * 29 + k) & 0xFF for k in range(size)))[:max(
        size, len(head))]


class World(object):
    pass


class Spec(object):
    skip = frozenset()

    def __init__(self, cfg):
        self.cfg = cfg

    # -- initial state: an established connection --------------------------------
    def init(self):
        import nfc.llcp
        cfg = self.cfg
        opts = dict(miu=cfg['miu'], lto=500, agf=cfg['agf'], sec=False)
        A, B = llcpump.make_pair(dict(opts), dict(opts))
        rw_a, rw_b = cfg['rw']
        srv = B.socket(DLC)
        B.setsockopt(srv, nfc.llcp.SO_RCVBUF, rw_b)
        B.setsockopt(srv, nfc.llcp.SO_RCVMIU, cfg['miu'])
        B.bind(srv, b'urn:nfc:sn:svc')
        B.listen(srv, 1)
        cli = A.socket(DLC)
        A.setsockopt(cli, nfc.llcp.SO_RCVBUF, rw_a)
        A.setsockopt(cli, nfc.llcp.SO_RCVMIU, cfg['miu'])
        box = {}
        s = sched.Sched(sched.Chooser(), timer_deviations=False)

        def t_connect():
            A.connect(cli, b'urn:nfc:sn:svc')
            box['a'] = cli

        def t_accept():
            box['b'] = B.accept(srv)

        def t_pump():
            for _ in range(12):
                sched.vsleep(0.001)
                llcpump.xfer(A, B)
                llcpump.xfer(B, A)
                if 'a' in box and 'b' in box:
                    return
        s.spawn(t_connect, 'connect')
        s.spawn(t_accept, 'accept')
        s.spawn(t_pump, 'pump')
        s.run()
        for t in s.threads:
            if t.exc is not None:
                raise t.exc
        if 'a' not in box or 'b' not in box:
            raise sched.HarnessError("connection set-up failed")
        w = World()
        w.A, w.B = A, B
        w.sock = {'a': box['a'], 'b': box['b']}
        w.sent = {'a': 0, 'b': 0}
        w.rcvd = {'a': 0, 'b': 0}
        # wire model: per direction next N(S) and the last N(R) the sender got
        w.next_ns = {'a': 0, 'b': 0}
        w.acked = {'a': 0, 'b': 0}
        return w

    def view(self, w):
        return (w.A, w.B, w.sock, w.sent, w.rcvd, w.next_ns, w.acked)

    # -- enabled actions --------------------------------------------------------
    def actions(self, w):
        n = self.cfg['n']
        acts = [('xfer', 'a'), ('xfer', 'b')]
        for i, side in enumerate('ab'):
            if w.sent[side] < n[i]:
                acts.append(('send', side))
            acts.append(('recv', side))
            if self.cfg.get('acks'):
                acts.append(('acks', side))
            if self.cfg.get('busy'):
                acts.append(('busy', side, not w.sock[side].mode.RECV_BUSY))
        return acts

    # -- transitions --------------------------------------------------------------
    def apply(self, w, act):
        import nfc.llcp
        import errno
        cfg = self.cfg
        llc = {'a': w.A, 'b': w.B}
        other = {'a': 'b', 'b': 'a'}
        bad = []
        kind, side = act[0], act[1]
        sock = w.sock[side]
        try:
            if kind == 'send':
                m = msg(side, w.sent[side], cfg['size'])
                try:
                    ok = llc[side].send(sock, m, nfc.llcp.MSG_DONTWAIT)
                except nfc.llcp.Error as e:
                    if e.errno != errno.EWOULDBLOCK:
                        bad.append(('bfs|send|errno=%s' % errno.errorcode.get(
                            e.errno, e.errno), dict(act=act)))
                else:
                    if ok is not True:
                        bad.append(('bfs|send|returned-false', dict(act=act)))
                    w.sent[side] += 1
            elif kind == 'recv':
                if sock.recv_queue:             # non-blocking recv
                    data = llc[side].recv(sock)
                    want = msg(other[side], w.rcvd[side], cfg['size'])
                    if data != want:
                        bad.append(('bfs|recv|%s' % (
                            'none' if data is None else
                            'wrong-message'), dict(
                            act=act, got=data, want=want)))
                    w.rcvd[side] += 1
            elif kind == 'acks':
                llc[side].poll(sock, 'acks', 0)
            elif kind == 'busy':
                llc[side].setsockopt(sock, nfc.llcp.SO_RCVBSY, act[2])
            elif kind == 'xfer':
                fr = llcpump.xfer(llc[side], llc[other[side]])
                if fr is not None:
                    if fr.error is not None:
                        bad.append(('bfs|frame-error|%s' % sig_exc(fr.error),
                                    dict(act=act)))
                    else:
                        bad += self.wire(w, side, fr)
        except sched.HarnessError:
            raise
        except Exception as e:
            bad.append(('bfs|%s|%s' % (kind, sig_exc(e)),
                        dict(act=act, error=repr(e))))
        return bad

    def wire(self, w, side, fr):
        """Window and sequence oracle on one frame sent by `side`."""
        other = 'b' if side == 'a' else 'a'
        rw = {'a': self.cfg['rw'][1], 'b': self.cfg['rw'][0]}   # receiver's RW
        bad = []
        for p in llcpump.flatten(fr.rcvd):
            if p.name == 'FRMR':
                bad.append(('bfs|wire|frmr', dict(pdu=str(p))))
            if p.name == 'I':
                if p.ns != w.next_ns[side]:
                    bad.append(('bfs|wire|wrong-ns', dict(
                        ns=p.ns, want=w.next_ns[side])))
                w.next_ns[side] = (p.ns + 1) % 16
                out = (w.next_ns[side] - w.acked[side]) % 16
                if out > rw[side]:
                    bad.append(('bfs|wire|window-exceeded', dict(
                        outstanding=out, rw=rw[side])))
            if p.name in ('I', 'RR', 'RNR'):
                sent = (w.next_ns[other] - w.acked[other]) % 16
                adv = (p.nr - w.acked[other]) % 16
                if adv > sent:
                    bad.append(('bfs|wire|ack-beyond-sent', dict(
                        nr=p.nr, acked=w.acked[other],
                        next_ns=w.next_ns[other])))
                else:
                    w.acked[other] = p.nr
        return bad

    def check_state(self, w):
        bad = []
        for side, o in (('a', 'b'), ('b', 'a')):
            if w.rcvd[side] > w.sent[o]:
                bad.append(('bfs|received-more-than-sent', dict(side=side)))
        return bad


def miu_refusal(cfg):
    """send() of MIU+1 octets is refused with EMSGSIZE, MIU octets accepted."""
    import nfc.llcp
    import errno
    spec = Spec(cfg)
    w = spec.init()
    bad = []
    for side, llc in (('a', w.A), ('b', w.B)):
        sock = w.sock[side]
        n = sock.send_miu
        try:
            llc.send(sock, b'x' * (n + 1), nfc.llcp.MSG_DONTWAIT)
            bad.append(('bfs|miu|oversize-accepted', dict(side=side, miu=n)))
        except nfc.llcp.Error as e:
            if e.errno != errno.EMSGSIZE:
                bad.append(('bfs|miu|errno=%s' % e.errno, dict(side=side)))
        try:
            llc.send(sock, b'x' * n, nfc.llcp.MSG_DONTWAIT)
        except nfc.llcp.Error as e:
            bad.append(('bfs|miu|full-size-refused', dict(side=side, miu=n,
                                                          errno=e.errno)))
        if n != cfg['miu']:
            bad.append(('bfs|miu|negotiated', dict(send_miu=n, want=cfg['miu'])))
    return bad


def configs(tier):
    out = []
    thorough = tier == 'thorough'
    # one direction at a time, sequence numbers wrap past 16
    rws = range(1, 16) if thorough else (1, 2, 3, 15)
    for rw in rws:
        if thorough:
            n = 2 * 16 + rw if rw <= 3 else 17 + rw
        else:
            n = 17 + min(rw, 3) if rw <= 3 else 17
        out.append(dict(rw=(1, rw), n=(n, 0), miu=128, size=4,
                        agf=rw % 2 == 0, acks=rw <= 3, busy=False))
        if thorough or rw < 15:
            out.append(dict(rw=(rw, 1), n=(0, n), miu=128, size=4,
                            agf=rw % 2 == 1, acks=False, busy=False))
    # both directions at once
    pairs = [(a, b) for a in (1, 2, 3) for b in (1, 2, 3)] if thorough \
        else [(1, 1), (2, 1), (2, 2)]
    for rw in pairs:
        n = (20, 20) if thorough else ((4, 4) if max(rw) == 1 else (3, 3))
        # (window product >= 4 with 6 messages the other way is 0.5-2 M states
        # per configuration, two hours in total: 2 the other way there)
        out.append(dict(rw=rw, n=n if max(rw) == 1 or not thorough
                        else ((18, 6) if rw[0] * rw[1] < 4 else (18, 2)),
                        miu=129, size=129,
                        agf=True, acks=False, busy=False))
    # messages of different sizes (a large I PDU that does not fit into the
    # aggregate followed by a small one), windows >= 2, aggregation on
    for rw in ((1, 3), (3, 3)) if thorough else ((1, 3),):
        out.append(dict(rw=rw, n=(6 if thorough else 5, 0), miu=128,
                        size=(100, 100, 10), agf=True, acks=False,
                        busy=False))
        out.append(dict(rw=rw, n=(4, 2) if thorough else (3, 1), miu=128,
                        size=(120, 7, 100), agf=True, acks=False, busy=False))
    # receiver busy toggles
    for rw in ((1, 1), (2, 2)):
        out.append(dict(rw=rw, n=(5 if thorough else 3, 0), miu=128, size=2,
                        agf=False, acks=True, busy=True))
        out.append(dict(rw=rw, n=(3, 2) if thorough else (2, 1), miu=128,
                        size=2, agf=True, acks=False, busy=True))
    return out


def run_cfg(arg, parallel=False):
    cfg, seed, max_states = arg
    run = Run('C05')
    spec = Spec(cfg)
    for sig, detail in miu_refusal(cfg):
        run.fail(sig, dict(detail, cfg=cfg, engine='bfs'), ('miu', repr(cfg)))

    def on_violation(hist, sig, detail):
        run.fail(sig, dict(detail, cfg=cfg, engine='bfs', history=list(hist)),
                 (repr(cfg), tuple(hist)), deviations=len(hist))
    depth = 100000
    if parallel:
        res = bfs.psearch(spec, depth, seed=seed, on_violation=on_violation)
    else:
        res = bfs.search(spec, depth, seed=seed, on_violation=on_violation,
                         max_states=max_states)
    for dg in res.digests:
        run.nontrivial.add(dg if isinstance(dg, bytes) else repr(dg).encode())
    out = run.export()
    out['bfs'] = dict(cfg=cfg, states=res.states, transitions=res.transitions,
                      depth=res.depth_completed, exhausted=res.exhausted,
                      sound_checks=res.sound_checks)
    return out


def is_big(cfg):
    """Configurations whose state space is large enough to be worth a
    level-parallel search (run one after the other in the parent)."""
    return max(cfg['rw']) >= 7 or (cfg['busy'] and sum(cfg['n']) >= 4) or \
        (min(cfg['n']) >= 4) or (min(cfg['n']) >= 2 and cfg['rw'] == (2, 2))


def run_into(run, tier, seed):
    cfgs = configs(tier)
    max_states = 400000 if tier == 'thorough' else 60000
    tot = dict(states=0, transitions=0, sound_checks=0, configs=len(cfgs),
               not_exhausted=[], max_depth=0, per_config=[])

    def take(res):
        b = res.pop('bfs')
        run.merge(res)
        run.evaluations += b['transitions']
        tot['states'] += b['states']
        tot['transitions'] += b['transitions']
        tot['sound_checks'] += b['sound_checks']
        tot['max_depth'] = max(tot['max_depth'], b['depth'])
        tot['per_config'].append(dict(rw=b['cfg']['rw'], n=b['cfg']['n'],
                                      busy=b['cfg']['busy'],
                                      states=b['states'], depth=b['depth'],
                                      exhausted=b['exhausted']))
        if not b['exhausted']:
            tot['not_exhausted'].append(b['cfg'])
    small = [c for c in cfgs if not is_big(c)]
    big = [c for c in cfgs if is_big(c)]
    for res in par.pmap(run_cfg, [(c, seed, max_states)
                                  for c in par.shuffled(small, seed)]):
        take(res)
    for c in big:
        take(run_cfg((c, seed, max_states), parallel=True))
    tot['per_config'].sort(key=lambda d: (d['rw'], d['n'], d['busy']))
    run.sample(dict(engine='bfs', example=tot['per_config'][:3]))
    return dict(states=tot['states'], transitions=tot['transitions'],
                bfs_configs=tot['configs'], bfs_max_depth=tot['max_depth'],
                bfs_snapshot_vs_replay_checks=tot['sound_checks'],
                bfs_not_exhausted=tot['not_exhausted'],
                frontier_exhausted=not tot['not_exhausted'],
                bfs_per_config=tot['per_config'])


def replay(doc):
    d = doc['detail']
    cfg = d['cfg']
    cfg['rw'], cfg['n'] = tuple(cfg['rw']), tuple(cfg['n'])
    spec = Spec(cfg)
    if 'history' not in d:
        bad = miu_refusal(cfg)
        print('replay:', [b[0] for b in bad])
        return 1 if bad else 0
    w = spec.init()
    sigs = []
    for act in d['history']:
        act = tuple(act)
        sigs += [b[0] for b in (spec.apply(w, act) or [])]
        sigs += [b[0] for b in spec.check_state(w)]
    print('replay:', sigs)
    return 1 if doc['signature'] in sigs else 0
