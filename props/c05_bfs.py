"""placeholder until the BFS engine is wired in"""


def run_into(run, tier, seed):
    return {}


def replay(doc):
    return 0
