"""C01 - NDEF write then read round-trips on every tag type and layout.

Real tag objects from nfc.tag.activate() over the stateful simulators (and a
real Type3Tag reader over the library's own Type3TagEmulation); for every
well-formed layout of props/tagcases.py and every message length of the grid:
(a) assignment of a length <= capacity returns, (b) a fresh activation reads
exactly those octets, (c) capacity <= the independent layout model and the
message physically fits, (d) capacity+1 raises ValueError with no command sent.
"""
import time

from mc.evidence import Run
from mc import par
from props import tagcases as tc

PROP = 'C01'
CASES = {}


def items_for(tier, cases, chunk=48):
    items = []
    for ci, case in enumerate(cases):
        ls, combos = tc.plan(case, tier)
        for (pat, prev) in combos:
            for i in range(0, len(ls), chunk):
                items.append((ci, prev, pat, tuple(ls[i:i + chunk])))
    return items


HISTORY = []       # layouts this worker process has handled before (specs)


def work(item, prop=PROP):
    ci, prev, pat, ls = item
    case = CASES['list'][ci]
    run = Run(prop)
    t0 = time.process_time()
    for n in ls:
        f = tc.check_write(case, prev, pat, n)
        key = (case.name, prev, pat, n)
        fails = f.items[prop]
        if not fails:
            run.ok(key=key)
        else:
            for sig, detail in fails:
                # a failure may depend on what the library remembers from
                # other tag objects of this process: the layouts handled
                # before are part of the replayable artefact
                detail['process_history'] = [list(x) for x in HISTORY[-60:]]
                run.fail(sig, detail, key=key)
    spec = list(case.spec)
    if spec not in HISTORY:
        HISTORY.append(spec)
        for o in f.obs:
            run.count(o)
            run.outcome((case.kind, o))
        run.count('cases:' + case.kind)
    run.count('cpu_ms', int((time.process_time() - t0) * 1000))
    if ls:
        run.sample(dict(case=case.name, prev=prev, pattern=pat, n=ls[0],
                        verdict='ok' if not fails else fails[0][0]))
    return run.export()


def main(tier='quick', seed=0, part=None):
    run = Run(PROP, tier, seed, level='exploration')
    kinds = None if part is None else set(part.split(','))
    cases = tc.all_cases(tier, kinds)
    CASES['list'] = cases
    items = items_for(tier, cases)
    for res in par.pmap(work, par.shuffled(items, seed), chunksize=4):
        run.merge(res)
    run.rule = ("one case = (layout, previous content, content pattern, message "
                "length); layouts are constructed by props/tagcases.py "
                "(Appendix A well-formed), lengths by tagcases.lengths(): all "
                "0..cap+1 for cap<=300, else 0..3, 252..258, cap-3..cap+1 and "
                "m-1,m,m+1 for multiples m of a step (see coverage.bounds.grid); "
                "all cases are distinct and non-trivial (each executes a write "
                "and a fresh read-back on the real code)")
    run.assumptions += [
        "tag simulators sim/t1t,t2t,t3t,t4t behave like real tags for the "
        "command subset nfcpy uses (trusted base)",
        "layouts restricted to DESIGN Appendix A; Type 3 Nbw limited so that "
        "the largest write command fits a FeliCa frame (Nbw<=12 when "
        "Nmaxb>255)",
        "reserved ranges on NDEF T/L bytes excluded; on the 2 bytes after L "
        "only for layouts whose capacity is below 255",
    ]
    by_kind = {}
    for c in cases:
        by_kind[c.kind] = by_kind.get(c.kind, 0) + 1
    run.extra['bounds'] = dict(
        layouts=by_kind, grid=tc.GRID_DOC[tier],
        t1_sizes=[list(x) for x in tc.T1_SIZES], t2_sizes=sorted(tc.T2_SIZES),
        reserved_classes=list(tc.RSV_CLASSES) + ['afterL', 'NDEF TLV 2/3/6 and 254..260 bytes before the end'],
        t3_nmaxb=list(tc.T3_NMAXB), t4=dict(mle=tc.T4_MLE, mlc=tc.T4_MLC,
                                           mfs=tc.T4_MFS, fsci='0..8', tech='A,B'),
        items=len(items), part=part)
    return run.finish(exhaustive=(part is None))


def replay(doc):
    d = doc['detail']
    case = tc.from_spec(d['spec'])
    f = tc.check_write(case, d['prev'], d['pattern'], d['n'])
    if not f.items[PROP] and d.get('process_history'):
        # not reproduced on its own: the layouts the worker had handled
        # before (one short write each), then the case again
        for spec in d['process_history']:
            c = tc.from_spec(spec)
            tc.check_write(c, 'empty', 'count', min(1, c.ref_capacity()))
        f = tc.check_write(case, d['prev'], d['pattern'], d['n'])
        if f.items[PROP]:
            print('reproduced only after %d other layouts were handled in '
                  'the same process (state shared between tag objects)'
                  % len(d['process_history']))
            for sig, det in f.items[PROP]:
                print('VIOLATION %s' % sig)
            return 1        # (the class of the failure depends on the history)
    for sig, det in f.items[PROP]:
        print('VIOLATION %s' % sig)
        print('  %r' % (det,))
    if not f.items[PROP]:
        print('no violation for this case')
        return 0
    return _verdict(doc, [sig for sig, det in f.items[PROP]])


def _verdict(doc, sigs):
    """1 iff the violation of the replay file shows again (another
    signature of the same case, e.g. a recorded known finding, is printed
    but is not this violation)."""
    want = doc.get('signature')
    return 1 if (want is None and sigs) or want in sigs else 0
