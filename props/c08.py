"""C08 - Activating and reading arbitrary tags terminates safely.

Harness: `nfc.tag.activate(clf, target)` on a stateful tag simulator in
hostile mode (sim/hostile.py), then `tag.ndef` and, if that is an object,
`.length`, `.capacity`, `.octets`, `.has_changed` (which reads the tag again)
and once more `tag.ndef` / `.length` / `.capacity` / `.octets`.  The fake
frontend has a command budget of 4 x (memory units of the tag) + 64 for each
of activate(), tag.ndef, has_changed and the second tag.ndef; the
(budget+1)-th exchange or sense raises a BaseException subclass.

Enumerated (deviation bounded from valid images, nothing is sampled; the
measured grid is written to `bounds` in the evidence):
  mut1   every single-byte substitution (256 values) of every management byte
         of every base layout: CC bytes, T and L bytes (1- and 3-byte lengths)
         of every TLV, value bytes of control TLVs, the terminator; Type 3
         attribute block bytes raw and with a re-computed checksum; Type 4
         CC-file bytes and NLEN bytes
  mut2   every pair of such bytes over the boundary alphabet 00 01 02 03 0E 0F
         10 7F 80 FD FE FF (thorough: also over a 41-value alphabet)
  mut3   thorough: every triple over 00 01 03 0F FE FF
  mutw   all 65536 values of the 16-bit words inside multi-byte fields
  act    activation response variants: ATS (subset of TA/TB/TC x historical
         bytes x TL ok/short/long x FSCI x FWI, ATS of one or two bytes),
         SENSB_RES 12/13 bytes x FSCI x FWI, ATTRIB answers, all HR0/HR1
         pairs, SENSF_RES with/without system code x IC code x system codes,
         GET_VERSION / AUTHENTICATE answers
  stop   the tag leaves after command k, for every k of the fault-free run;
         one timeout / transmission / protocol error at command k
  host   hostile but well-framed answers: ISO-DEP block alphabet at command k
         once and from k on for ever (R(ACK), S(WTX), chaining I-blocks ...),
         READ BINARY policies (empty, short, more than Le), status words per
         APDU, MLe = 0..3, Type 3 answers cut short / with status flags /
         wrong IDm / wrong block count, Type 2 ACK/NAK nibbles instead of data

Oracle (exactly the statement): activate() returns a tag or None; tag.ndef is
None or an object with length <= capacity whose octets are a subsequence of
the bytes of the data area that the (mutated) image itself declares, cut to
the memory the tag answers for (model: `area_bytes`, from the specifications, not
from the library); no exception of any kind leaves activate(), tag.ndef or
the attributes; the budget holds.

Signatures: tag type | operation (activate / ndef) | class of the deviation
(mutated field classes, activation variant, script and the command it hits) |
exception@function or oracle clause;model=<what the independent layout model
says about the image>.
"""
import time

from mc.evidence import Run, sig_exc
from mc import par
from props import tagcases as tc
from ref import tlv
from sim import tagsim, hostile, t2t

PROP = 'C08'
STRICT_LAYOUT = True
ALPHA2 = (0x00, 0x01, 0x02, 0x03, 0x0E, 0x0F, 0x10, 0x7F, 0x80, 0xFD, 0xFE, 0xFF)
ALPHA_WIDE = tuple(sorted(set(ALPHA2) | {
    0x04, 0x05, 0x06, 0x07, 0x08, 0x0C, 0x0D, 0x11, 0x12, 0x1F, 0x20, 0x21,
    0x3F, 0x40, 0x41, 0x77, 0x78, 0x79, 0x7E, 0x81, 0xBF, 0xC0, 0xE0, 0xE1,
    0xF0, 0xF1, 0xFA, 0xFB, 0xFC}))
ALPHA3 = (0x00, 0x01, 0x03, 0x0F, 0xFE, 0xFF)
ALPHAS = {'a12': ALPHA2, 'wide': ALPHA_WIDE}
TLV_NAMES = {tlv.NULL: 'null', tlv.LOCK: 'lock', tlv.MEM: 'mem',
             tlv.NDEF: 'ndef', tlv.PROP: 'prop', tlv.TERM: 'term'}
T3_FIELDS = ('ver', 'nbr', 'nbw', 'nmaxb', 'nmaxb', 'rfu', 'rfu', 'rfu', 'rfu',
             'writef', 'rwflag', 'ln', 'ln', 'ln', 'cks', 'cks')
OTHER_FILE = bytes(0xD0 | (i & 15) for i in range(32))


def fill_byte(a):
    return 0x40 | (a * 5 + 1) & 0x3F


# ---------------------------------------------------------------------------
# base layouts
# ---------------------------------------------------------------------------
class Base(object):
    """One valid tag image (layout of props/tagcases.py + a message) and the
    list of its management bytes."""

    def __init__(self, case, nmsg, label=None, **simopts):
        self.case = case
        self.kind = case.kind
        self.simopts = simopts
        sim = case.new_sim()
        self.msg = tc.content('count', nmsg, 0x10)
        assert nmsg <= case.ref_capacity(), (case.name, nmsg)
        case.preload(sim, self.msg)
        self.name = '%s|msg=%d%s' % (case.name, nmsg, label or '')
        if self.kind in ('T1', 'T2'):
            mem = bytearray(sim.mem)
            lay = case.layout(mem)
            assert lay.error is None and lay.value(mem) == self.msg
            used = set(lay.value_addrs) | {lay.ndef_off + i
                                           for i in range(1 + lay.len_size)}
            term = None
            for a in lay.free:
                if a not in used:
                    if term is None:
                        term = a
                        assert mem[a] == tlv.TERM, (self.name, a)
                    else:
                        mem[a] = fill_byte(a)
            self.image0 = {'mem': bytes(mem)}
            self.fields = self._tlv_fields(mem, lay, term)
            self.units = len(mem) // (8 if self.kind == 'T1' else 4)
        elif self.kind == 'T3':
            mem = bytearray(sim.mem)
            for a in range(16 + nmsg, 16 * (1 + case.nmaxb)):
                mem[a] = fill_byte(a)
            self.image0 = {'mem': bytes(mem)}
            self.fields = [('mem', a, 'attr.' + T3_FIELDS[a], False)
                           for a in range(16)]
            self.fields += [('mem', a, 'attr.' + T3_FIELDS[a] + '+cks', True)
                            for a in range(14)]
            self.units = len(mem) // 16
        else:
            f = bytearray(sim.files[sim.fid])
            nl = case.c.nlen_size
            for a in range(nl + nmsg, len(f)):
                f[a] = fill_byte(a)
            cc = bytes(case.cc)
            self.image0 = {'cc': cc, 'ndef': bytes(f)}
            names = ['cclen', 'cclen', 'ver', 'mle', 'mle', 'mlc', 'mlc',
                     'tlvT', 'tlvL', 'fid', 'fid']
            names += ['mfs'] * (2 if nl == 2 else 4) + ['rf', 'wf']
            assert len(names) == len(cc)
            self.fields = [('cc', a, 'cc.' + names[a], False)
                           for a in range(len(cc))]
            self.fields += [('ndef', a, 'nlen', False) for a in range(nl)]
            self.units = len(cc) + len(f)
        self.budget = 4 * self.units + 64
        # fields used for pairs / triples: for Type 3 the checksum-consistent
        # variants and the raw checksum bytes (a raw substitution of another
        # byte only breaks the checksum; pairs of those are walked by the
        # raw byte + checksum byte pairs)
        self.multi = [i for i, f in enumerate(self.fields)
                      if self.kind != 'T3' or f[3] or f[2] == 'attr.cks']
        # 16-bit words: adjacent bytes of one multi-byte field
        self.words = [(i, j) for i in self.multi for j in self.multi
                      if self.fields[i][0] == self.fields[j][0]
                      and self.fields[j][1] == self.fields[i][1] + 1
                      and self.fields[i][2] == self.fields[j][2]]
        assert is_subsequence(self.msg, self.area_bytes(self.image0))

    def _tlv_fields(self, mem, lay, term):
        cc0 = 8 if self.kind == 'T1' else 12
        out = [('mem', cc0 + i, 'cc.' + n, False)
               for i, n in enumerate(('magic', 'ver', 'size', 'access'))]
        nulls = [a for (a, t, n) in lay.tlvs if t == tlv.NULL]
        skip = set(nulls[2:-2])         # long NULL fillers: first/last two
        for (a, t, n) in lay.tlvs:
            if a in skip:
                continue
            nm = TLV_NAMES.get(t, 'other')
            out.append(('mem', a, 'T(%s)' % nm, False))
            if t in (tlv.NULL, tlv.TERM):
                continue
            out.append(('mem', a + 1, 'L(%s)' % nm, False))
            ls = 1
            if mem[a + 1] == 0xFF:
                ls = 3
                out.append(('mem', a + 2, 'L3(%s)' % nm, False))
                out.append(('mem', a + 3, 'L3(%s)' % nm, False))
            if t in (tlv.LOCK, tlv.MEM) and n == 3:
                for i in range(3):
                    out.append(('mem', a + 1 + ls + i, 'V%d(%s)' % (i, nm),
                                False))
        if term is not None:
            out.append(('mem', term, 'T(term)', False))
        assert len({f[1] for f in out}) == len(out)
        return out

    # -- images -------------------------------------------------------------
    def image(self, muts=()):
        """Image with substitutions [(field index, value)] applied; a field
        with the checksum flag re-computes the Type 3 checksum afterwards."""
        img = {k: bytearray(v) for k, v in self.image0.items()}
        fix = False
        for (fi, val) in muts:
            key, addr, _, cks = self.fields[fi]
            img[key][addr] = val
            fix = fix or cks
        if fix:
            s = sum(img['mem'][0:14])
            img['mem'][14:16] = bytes([s >> 8 & 255, s & 255])
        return img

    def field_class(self, muts, img=None):
        if img is not None and all(bytes(v) == self.image0[k]
                                   for k, v in img.items()):
            return 'valid'
        return '+'.join(sorted({self.fields[fi][2] for fi, _ in muts})) \
            or 'valid'

    def diagnose(self, img):
        """What the independent layout model says about the image (only used
        to name the failing input class, never to judge)."""
        short = {None: 'ok', 'terminator before NDEF TLV': 'term-first',
                 'TLV without length at end of data area': 'tlv-cut',
                 'truncated 3-byte length': 'tlv-cut',
                 'NDEF value exceeds data area': 'ndef-exceeds-area',
                 'no NDEF TLV': 'no-ndef'}
        if self.kind in ('T1', 'T2'):
            m = img['mem']
            if self.kind == 'T1':
                cc, start, end = m[8:12], 12, (m[10] + 1) * 8
                fixed = range(104, 128)
            else:
                cc, start, end = m[12:16], 16, 16 + m[14] * 8
                fixed = ()
            if cc[0] != 0xE1:
                return 'cc-magic'
            if cc[1] >> 4 != 1:
                return 'cc-version'
            lay = tlv.walk(m, start, min(end, len(m)), fixed)
            d = short[lay.error]
            if d == 'ok' and not tlv.fits(lay.length, lay.avail):
                d = 'ndef-exceeds-area'     # T, L and value do not fit
            elif d == 'ok' and lay.avail == 257:
                d = 'ok,avail=257'          # 254 octets fit, 255 do not
            if any(t in (tlv.LOCK, tlv.MEM) and n != 3
                   for (a, t, n) in lay.tlvs):
                d += ',ctl-L!=3'            # control TLV the model ignores
            return d + (',area>phys' if end > len(m) else '')
        if self.kind == 'T3':
            from ref import t3 as r3
            m = img['mem']
            a = r3.Attr(m[0:16])
            if not a.checksum_ok:
                return 'bad-cks'
            if a.ver >> 4 != 1:
                return 'bad-ver'
            if a.nbr == 0:
                return 'nbr=0'
            d = 'ln>area' if a.ln > 16 * a.nmaxb else 'ok'
            return d + (',area>phys' if 16 * (1 + a.nmaxb) > len(m) else '')
        cc = img['cc']
        t, v = cc[7], cc[9:]
        if t == 4 and len(v) >= 4:          # like area_bytes: L is not judged
            mfs, nl = int.from_bytes(v[2:4], 'big'), 2
        elif t == 6 and len(v) >= 6:
            mfs, nl = int.from_bytes(v[2:6], 'big'), 4
        else:
            return 'no-ndef-file-tlv'
        f = {b'\xE1\x03': cc, b'\xE1\x04': img['ndef'],
             b'\xE1\x05': OTHER_FILE}.get(bytes(v[0:2]))
        if f is None:
            return 'no-such-file'
        if mfs < nl:
            return 'mfs<nlen-size'
        nlen = int.from_bytes(f[0:nl], 'big')
        d = 'nlen>area' if nlen > mfs - nl else 'ok'
        return d + (',area>phys' if mfs > len(f) else '')

    def new_sim(self, img, **opts):
        o = dict(self.simopts)
        o.update(opts)
        case = self.case
        if self.kind == 'T1':
            return hostile.HostileT1(bytearray(img['mem']),
                                     hr=o.get('hr', case.simargs['hr']))
        if self.kind == 'T2':
            args = dict(case.simargs)
            for k in ('version', 'unsupported', 'ulc'):
                if k in o:
                    args[k] = o[k]
            mem = bytearray(img['mem'])
            if 'uid0' in o:
                mem[0] = o['uid0']
            return t2t.Type2TagSim(mem, **args)
        if self.kind == 'T3':
            kw = {}
            if 'ic' in o or 'idm01' in o or 'realsys' in o:
                pmm = bytearray.fromhex('00FF4B024F4993FF')
                pmm[1] = o.get('ic', 0xFF)
                idm = bytearray.fromhex('02FE010203040506')
                idm[0:2] = o.get('idm01', b'\x02\xFE')
                kw = dict(pmm=bytes(pmm), idm=bytes(idm),
                          sys=o.get('realsys', 0x12FC))
            tail = o.get('poll_tail')
            if isinstance(tail, str):
                tail = bytes.fromhex(tail)
            return hostile.HostileT3(bytearray(img['mem']), case.nbr,
                                     case.nbw, sensf=o.get('sensf'),
                                     poll_tail=tail, **kw)
        kw = {k: o[k] for k in ('ats_bytes', 'sensb', 'attrib_res',
                                'le_policy', 'case1', 'wide_offset')
              if k in o}
        # the limits the tag enforces stay those of the product, whatever
        # the (mutated) CC announces
        return hostile.HostileT4(
            bytes(img['cc']), bytearray(img['ndef']), tech=case.tech,
            fsci=case.fsci, mle=case.mle, mlc=case.mlc,
            extra_files={b'\xE1\x05': OTHER_FILE}, **kw)

    # -- the independent model of "the tag's data area" ----------------------
    def declared_value(self, img):
        """The NDEF value as the image itself declares it, when the layout is
        unambiguous by the Type 1/2 Tag specifications: capability container
        valid, every control TLV well formed and pointing inside the
        physical memory but not at a TLV header, the NDEF value inside the
        data area.  Then the lock and reserved bytes are not part of the
        data area and must not show up in the message.  None otherwise."""
        m = img['mem']
        if self.kind == 'T1':
            cc, start, end = m[8:12], 12, (m[10] + 1) * 8
            fixed = range(104, 128)
        else:
            cc, start, end = m[12:16], 16, 16 + m[14] * 8
            fixed = ()
        if cc[0] != 0xE1 or cc[1] >> 4 != 1 or end > len(m):
            return None
        lay = tlv.walk(m, start, end, fixed)
        if lay.error is not None or not tlv.fits(lay.length, lay.avail):
            return None
        heads = set()
        for (a, t, n) in lay.tlvs:
            if t in (tlv.LOCK, tlv.MEM) and n != 3:
                return None
            if t not in (tlv.NULL, tlv.TERM) and m[a + 1] == 0xFF and n < 255:
                return None     # three-octet length format for a short value
            if t not in (tlv.NULL, tlv.TERM, tlv.LOCK, tlv.MEM, tlv.NDEF,
                         tlv.PROP):
                return None     # TLV types the specifications do not define
            heads.update(range(a, a + (1 if t == tlv.NULL else (
                2 if n < 255 else 4))))
            if t in (tlv.LOCK, tlv.MEM):
                heads.update(range(a + 2, a + 5))
        if (lay.tlv_reserved & heads) or any(
                not start <= a < len(m) for a in lay.tlv_reserved):
            return None
        return lay.value(m)

    def area_bytes(self, img):
        """Bytes (in address order) of the data area that the image itself
        declares, cut to the memory the tag answers for.
        T1: bytes 12 .. (CC2+1)*8 without blocks 0Dh-0Fh (bytes 104..127);
        T2: bytes 16 .. 16+CC2*8; T3: blocks 1..Nmaxb; T4: bytes behind NLEN
        up to the maximum file size of the file named by the NDEF File
        Control TLV.  Bytes reserved by control TLVs are NOT removed (lenient:
        whatever the control TLVs are taken to mean, a reader may only skip
        bytes, and a subsequence stays a subsequence)."""
        if self.kind == 'T1':
            m = img['mem']
            end = (m[10] + 1) * 8
            # a data area declared larger than the memory: what the tag
            # answers for those addresses is its memory as far as any reader
            # can tell - a tag with the segment commands answers zeros up to
            # address 2047, a static one nothing
            virt = bytes(m) + (bytes(2048 - len(m)) if len(m) > 120 else b'')
            return bytes(virt[a] for a in range(12, min(end, len(virt)))
                         if not 104 <= a < 128)
        if self.kind == 'T2':
            m = img['mem']
            # READ rolls over to page 0: a READ of the last pages of a
            # tag also delivers up to three pages from the start of the (last)
            # sector, i.e. addresses len(m) .. len(m)+11 show the first 12
            # bytes of that sector
            sb = (len(m) - 1) // 1024 * 1024        # start of last sector
            virt = bytes(m) + bytes(m[sb:sb + 12])
            return bytes(virt[16:min(16 + m[14] * 8, len(virt))])
        if self.kind == 'T3':
            m = img['mem']
            return bytes(m[16:16 * (1 + (m[3] << 8 | m[4]))])
        cc = img['cc']
        t, v = cc[7], cc[9:]
        if t == 4 and len(v) >= 4:
            mfs, nl = int.from_bytes(v[2:4], 'big'), 2
        elif t == 6 and len(v) >= 6:
            mfs, nl = int.from_bytes(v[2:6], 'big'), 4
        else:
            return b''
        f = {b'\xE1\x03': cc, b'\xE1\x04': img['ndef'],
             b'\xE1\x05': OTHER_FILE}.get(bytes(v[0:2]))
        if f is None:
            return b''
        return bytes(f[nl:min(mfs, len(f))])


def is_subsequence(needle, hay):
    i = 0
    n = len(hay)
    for b in needle:
        i = hay.find(b, i) + 1
        if i == 0:
            return False
    return i <= n


_BASES = {}


def bases():
    """name -> Base, deterministic; 'tier' attribute: quick bases are used by
    both tiers, thorough-only bases by the thorough tier."""
    if _BASES:
        return _BASES
    q, t = [], []
    # Type 1: Topaz static with NULL / memory control / lock control TLV,
    # generic static, Topaz-512 (lock + memory control TLV, 1- and 3-byte
    # length, length format switch), NDEF TLV at the very end
    q.append(Base(tc.t1_case(120, 0x48, 1, 'none'), 7))
    q.append(Base(tc.t1_case(120, 0x48, 0, 'none'), 0))
    q.append(Base(tc.t1_case(120, 0x48, 0, 'early', 2), 7))
    q.append(Base(tc.t1_case(120, 0x00, 0, 'mid', 2), 60))
    q.append(Base(tc.t1_case(512, 0x4C, 1, 'none'), 7))
    q.append(Base(tc.t1_case(512, 0x4C, 0, 'none'), 300))
    q.append(Base(tc.t1_case(256, 0x00, 0, 'beyond', 2), 7))
    q.append(Base(tc.t1_case(512, 0x4C, fill=6), 2))
    q.append(Base(tc.t1_case(120, 0x48, 2, 'before', 1), 20))
    q.append(Base(tc.t1_case(512, 0x4C, fill=257), 254))
    t.append(Base(tc.t1_case(512, 0x4C, 0, 'none'), 254))
    t.append(Base(tc.t1_case(512, 0x4C, 0, 'none'), 255))
    # (reserved range ending exactly at / across the end of the memory: also
    # in the quick tier, a seeded change needed exactly this layout)
    q.append(Base(tc.t1_case(120, 0x00, 1, 'tail2', 2), 30))
    q.append(Base(tc.t1_case(256, 0x00, 0, 'endx', 2), 100))
    # Type 2: every product class, static / dynamic, control TLV classes,
    # proprietary TLV with 1- and 3-byte length, 3-byte NDEF length, 2 sectors
    q.append(Base(tc.t2_case(48, 'ul', 1, 'none'), 7))
    q.append(Base(tc.t2_case(48, 'ul', 0, 'none'), 0))
    q.append(Base(tc.t2_case(48, 'ntag210', 0, 'early', 2), 7))
    q.append(Base(tc.t2_case(64, 'generic', 0, 'none'), 7))
    q.append(Base(tc.t2_case(144, 'ntag203', 0, 'mid', 2), 60))
    q.append(Base(tc.t2_case(144, 'ulc', 1, 'beyond', 2), 7))
    q.append(Base(tc.t2_case(64, 'generic', fill=6), 3))
    q.append(Base(tc.t2_case(504, 'ntag215', 0, 'none'), 300))
    q.append(Base(tc.t2_case(1016, 'generic', fill=6), 2))
    q.append(Base(tc.t2_case(2040, 'generic', 0, 'sector', 8), 1100))
    q.append(Base(tc.t2_case(128, 'ntag212', 0, 'tail2', 2), 40))
    q.append(Base(tc.t2_case(144, 'ntag213', 2, 'before', 1), 20))
    q.append(Base(tc.t2_case(504, 'ntag215', fill=257), 254))
    t.append(Base(tc.t2_case(504, 'ntag215', 0, 'none'), 254))
    t.append(Base(tc.t2_case(504, 'ntag215', 0, 'none'), 255))
    t.append(Base(tc.t2_case(888, 'ntag216', 1, 'endx', 2), 500))
    t.append(Base(tc.t2_case(2040, 'generic', 0, 'mid', 5), 1100))
    # Type 3: smallest, small, FeliCa Lite limits (IC code F0h), 13 blocks
    q.append(Base(tc.T3Case(1, 1, 1, spare=1), 7))
    q.append(Base(tc.T3Case(1, 1, 1, spare=1), 0))
    q.append(Base(tc.T3Case(4, 3, 3, spare=1), 40))
    q.append(Base(tc.T3Case(4, 1, 13, spare=1), 100, '|lite', ic=0xF0))
    q.append(Base(tc.T3Case(15, 13, 13, spare=1), 200))
    q.append(Base(tc.T3Case(12, 8, 17, spare=0), 16, '|std', ic=0x01))
    t.append(Base(tc.T3Case(2, 2, 2, spare=0), 32))
    t.append(Base(tc.T3Case(15, 12, 256, spare=1), 4081))
    # Type 4: mapping 2.0 / 3.0, Type A / B, smallest limits, 256+ files
    q.append(Base(tc.T4Case(0x20, 15, 1, 64, 8, 'A'), 7))
    q.append(Base(tc.T4Case(0x20, 15, 1, 64, 8, 'A'), 0))
    q.append(Base(tc.T4Case(0x20, 255, 255, 300, 8, 'B'), 280))
    q.append(Base(tc.T4Case(0x30, 59, 13, 64, 2, 'A'), 40))
    q.append(Base(tc.T4Case(0x30, 256, 255, 600, 0, 'B'), 300))
    t.append(Base(tc.T4Case(0x20, 16, 2, 5, 0, 'A'), 3))
    t.append(Base(tc.T4Case(0x20, 1024, 1024, 2048, 5, 'B'), 2046))
    t.append(Base(tc.T4Case(0x30, 257, 256, 257, 8, 'A'), 253))
    # a mapping 3.0 file of more than 64 KiB (only used by the 'wide' cases
    # of host_cases: NLEN around 8000h / 10000h, card with 15 / 16 bit
    # READ BINARY offsets)
    w = [Base(tc.T4Case(0x30, 255, 255, 70000, 8, 'A'), 66000)]
    for b in q:
        b.tier = 'quick'
    for b in t:
        b.tier = 'thorough'
    for b in w:
        b.tier = 'wide'
    for b in q + t + w:
        assert b.name not in _BASES, b.name
        _BASES[b.name] = b
    return _BASES


def tier_bases(tier):
    return [b for b in bases().values()
            if (tier == 'thorough' and b.tier != 'wide') or b.tier == 'quick']


# ---------------------------------------------------------------------------
# scripts: what the tag does beyond its memory image
# ---------------------------------------------------------------------------
def t4_block(name, cmd):
    """Syntactically valid ISO-DEP block named `name`, numbered relative to
    the block number of the PCD block `cmd` it answers."""
    bn = cmd[0] & 1 if cmd else 0
    kind, _, arg = name.partition(':')
    inf = bytes.fromhex(arg) if arg else b''
    if kind == 'rack-other':
        return bytes([0xA2 | bn ^ 1])
    if kind == 'rack-same':
        return bytes([0xA2 | bn])
    if kind == 'rnak-other':
        return bytes([0xB2 | bn ^ 1])
    if kind == 'rnak-same':
        return bytes([0xB2 | bn])
    if kind == 'wtx':
        return b'\xF2' + inf
    if kind == 'deselect':
        return b'\xC2'
    if kind == 'i':
        return bytes([0x02 | bn]) + inf
    if kind == 'i-other':
        return bytes([0x02 | bn ^ 1]) + inf
    if kind == 'i-chain':
        return bytes([0x12 | bn]) + inf
    if kind == 'ichainbig':
        # a chaining I-block filled to the frame size: a chain that never
        # ends passes the largest legal response after some 260 blocks
        return bytes([0x12 | bn]) + bytes([0xAA]) * 250
    if kind == 'i-chain-other':
        return bytes([0x12 | bn ^ 1]) + inf
    if kind == 'i-cid':
        return bytes([0x0A | bn, 0x00]) + inf
    if kind == 'i-nad':
        return bytes([0x06 | bn, 0x00]) + inf
    if kind == 'r-cid':
        return bytes([0xAA | bn, 0x00])
    if kind == 'wtx-cid':
        return b'\xFA\x00' + inf
    raise ValueError(name)


T4_BLOCKS = ('rack-other', 'rack-same', 'rnak-other', 'rnak-same',
             'wtx:00', 'wtx:01', 'wtx:3b', 'wtx:3c', 'wtx:ff', 'deselect',
             'i', 'i:9000', 'i:6a82', 'i:00', 'i:aabbccddee9000',
             'i-other:9000', 'i-chain', 'i-chain:aa', 'i-chain-other:aa',
             'ichainbig',
             'i-cid:9000', 'i-nad:9000', 'r-cid', 'wtx-cid:01', 'wtx-mute:01')
T4_APDU_RSP = ('', '00', '9000', '6a82', '6700', '6282', '6300', '9100',
               'ffff')
T2_NIBBLES = (0x00, 0x01, 0x04, 0x05, 0x0A, 0x02, 0x0F)
T3_FLAGS = ((0x01, 0xA1), (0xFF, 0xFF), (0x00, 0x01), (0x80, 0x00))


def install(sim, script):
    """script: None or a tuple
      ('gone', k)                 commands k+1, k+2, ... are not answered
      ('fault', k, kind)          command k is executed, its answer is lost
                                  (timeout) or garbled (transmission,
                                  protocol); a command lost on its way to the
                                  tag is not modelled: for SECTOR SELECT
                                  packet 2, which is acknowledged by silence,
                                  no reader can tell the difference
      ('nibble', k, v)            T2: command k answered by the 4-bit value v
      ('block', k, name, ever)    T4: command k (ever: and all later ones)
                                  answered by t4_block(name)
      ('apdu', j, hex, ever)      T4: j-th APDU (ever: and later) answered hex
      ('t3cut', k, n)             T3: answer of command k cut to n bytes (LEN
                                  byte adjusted)
      ('t3flags', k, f1, f2)      T3: answer of command k = status flags only
      ('t3idm', k)                T3: answer of command k from another IDm
      ('t3nblk', k, d)            T3: READ answer with d blocks more / less
                                  than requested (LEN and count consistent)
    """
    if script is None:
        return
    op = script[0]
    if op == 'gone':
        k = script[1]

        def hook(s, phase, ctx):
            if phase == 'before' and ctx.index > k:
                s.leave_field()
                return tagsim.TIMEOUT
    elif op == 'fault':
        k, kind = script[1], script[2]

        def hook(s, phase, ctx):
            if phase == 'after' and ctx.index == k:
                return kind
    elif op == 'nibble':
        k, v = script[1], script[2]

        def hook(s, phase, ctx):
            if phase == 'before' and ctx.index == k:
                return bytes([v])
    elif op == 'block' and script[2].startswith('wtx') and not script[3] \
            and not script[2].startswith('wtx-mute'):
        # one waiting time extension, carried out properly: the command is
        # executed, its answer is held back until the S(WTX) response arrives
        k, name = script[1], script[2]
        held = []

        def hook(s, phase, ctx):
            if phase == 'after' and ctx.index == k:
                held.append(ctx.rsp)
                return t4_block(name, ctx.cmd)
            if phase == 'before' and ctx.index == k + 1 and held:
                rsp = held.pop()
                if ctx.cmd[0] & 0xF7 != 0xF2 or rsp is None:
                    return tagsim.TIMEOUT
                return rsp
    elif op == 'block':
        k, name, ever = script[1], script[2], script[3]
        if name.startswith('wtx-mute'):     # S(WTX), then the card is gone
            name = 'wtx' + name[8:]

        def hook(s, phase, ctx):
            if phase == 'before' and (ctx.index == k or
                                      (ever and ctx.index > k)):
                return t4_block(name, ctx.cmd)
    elif op == 'apdu':
        j, rsp, ever = script[1], bytes.fromhex(script[2]), script[3]

        def apdu_hook(s, apdu):
            n = len(s.apdus) + 1
            if n == j or (ever and n > j):
                return rsp
        sim.apdu_hook = apdu_hook
        return
    elif op == 't3cut':
        k, n = script[1], script[2]

        def hook(s, phase, ctx):
            if phase == 'after' and ctx.index == k and ctx.rsp is not None:
                return bytes([n]) + ctx.rsp[1:n]
    elif op == 't3flags':
        k, f1, f2 = script[1], script[2], script[3]

        def hook(s, phase, ctx):
            if phase == 'after' and ctx.index == k and ctx.rsp is not None \
                    and len(ctx.rsp) >= 12:
                return bytes([12]) + ctx.rsp[1:10] + bytes([f1, f2])
    elif op == 't3idm':
        k = script[1]

        def hook(s, phase, ctx):
            if phase == 'after' and ctx.index == k and ctx.rsp is not None \
                    and len(ctx.rsp) >= 10:
                r = bytearray(ctx.rsp)
                r[9] ^= 0x01
                return bytes(r)
    elif op == 't3nblk':
        k, d = script[1], script[2]

        def hook(s, phase, ctx):
            if phase == 'after' and ctx.index == k and ctx.rsp is not None \
                    and ctx.rsp[1] == 0x07 and len(ctx.rsp) >= 29:
                nb = ctx.rsp[12] + d
                body = (ctx.rsp[13:] + ctx.rsp[13:29])[:16 * nb]
                r = ctx.rsp[1:12] + bytes([nb]) + body
                if len(r) + 1 <= 255:
                    return bytes([len(r) + 1]) + r
    else:
        raise ValueError(script)
    sim.hook = hook


# ---------------------------------------------------------------------------
# one execution + oracle
# ---------------------------------------------------------------------------
def observe(sim, budget):
    """Run the harness; returns a dict with what was seen."""
    o = dict(stage='activate', exc=None, unbounded=False, tag=None, reads=[])
    sim.keep_log = True
    clf = None
    try:
        clf, tag = hostile.activate(sim, budget)
        o['tag'] = type(tag).__name__ if tag is not None else None
        if tag is not None:
            o['stage'] = 'ndef'
            clf.used = 0                # the budget is per evaluation
            nd = tag.ndef
            if nd is None:
                o['reads'].append(None)
            else:
                o['stage'] = 'attr'
                o['reads'].append((nd.length, nd.capacity, nd.octets))
                o['stage'] = 'has_changed'
                clf.used = 0
                o['changed'] = nd.has_changed
                o['stage'] = 'ndef2'
                clf.used = 0
                nd2 = tag.ndef
                if nd2 is None:
                    o['reads'].append(None)
                else:
                    o['stage'] = 'attr2'
                    o['reads'].append((nd2.length, nd2.capacity, nd2.octets))
        o['stage'] = 'done'
    except hostile.Unbounded:
        o['unbounded'] = True
    except BaseException as e:          # noqa: the oracle is "no exception"
        if isinstance(e, (KeyboardInterrupt, SystemExit, MemoryError)):
            raise
        tb = e.__traceback__
        while tb.tb_next is not None:
            tb = tb.tb_next
        import nfc.clf
        if '/src/nfc/' not in tb.tb_frame.f_code.co_filename.replace(
                '\\', '/') and not isinstance(e, nfc.clf.CommunicationError):
            raise               # raised by the harness / simulator: a bug here
        o['exc'] = e
    o['cmds'] = sim.n_cmds
    return o


def judge(base, img, o, content=True):
    """List of (what, extra detail): the oracle of the statement.  Oracle
    names carry the diagnosis of the independent model (`Base.diagnose`), so
    that one signature stands for one cause."""
    if o['unbounded']:
        return [('unbounded', {})]
    if o['exc'] is not None:
        return [(sig_exc(o['exc']), dict(exc=repr(o['exc']),
                                         stage=o['stage']))]
    out, seen = [], set()
    area = diag = None

    def add(what, **extra):
        nonlocal diag
        if diag is None:
            diag = base.diagnose(img)
        what = '%s;model=%s' % (what, diag)
        if what not in seen:
            seen.add(what)
            out.append((what, extra))

    for i, r in enumerate(o['reads']):
        if r is None:
            continue
        length, cap, octets = r
        if not isinstance(octets, bytes) or length != len(octets):
            add('length!=len(octets)', length=length, read=i,
                octets=octets[:64])
        if length > cap:
            add('length>capacity' if cap >= 0 else 'capacity<0',
                length=length, capacity=cap, read=i)
        if content:
            if area is None:
                area = base.area_bytes(img)
            if not is_subsequence(octets, area):
                add('octets-outside-data-area', length=length, capacity=cap,
                    read=i, octets=octets[:80], area_len=len(area))
            elif base.kind in ('T1', 'T2') and STRICT_LAYOUT:
                want = base.declared_value(img)
                if want is not None and octets != want:
                    add('octets-include-reserved-bytes', length=length,
                        read=i, octets=octets[:80], declared=want[:80])
    return out


def outcome_of(o):
    if o['unbounded']:
        return 'unbounded'
    if o['exc'] is not None:
        return 'exc:' + type(o['exc']).__name__
    if o['tag'] is None:
        return 'activate:None'
    s = o['tag']
    for r in o['reads']:
        s += ':None' if r is None else (':empty' if r[0] == 0 else ':msg')
    if 'changed' in o:
        s += ':changed' if o['changed'] else ''
    return s


def run_case(d):
    """d = dict(base=name, muts=[(field, value)...], opts={...}, script=...,
    content=bool).  Returns (signature or None, detail, observation)."""
    base = bases()[d['base']]
    muts = [tuple(m) for m in d.get('muts', ())]
    img = base.image(muts)
    opts = dict(d.get('opts') or {})
    for k in ('ats_bytes', 'attrib_res', 'version'):
        if isinstance(opts.get(k), str):
            opts[k] = bytes.fromhex(opts[k])
    if isinstance(opts.get('idm01'), str):
        opts['idm01'] = bytes.fromhex(opts['idm01'])
    for k in ('hr', 'sensf', 'sensb'):
        if isinstance(opts.get(k), list):
            opts[k] = tuple(opts[k])
    sim = base.new_sim(img, **opts)
    script = d.get('script')
    install(sim, tuple(script) if script else None)
    budget = base.budget
    if script and script[0] == 'block' and script[2] == 'ichainbig':
        # a chain of full blocks is legal up to the largest response (65538
        # octets / 250 = 263 blocks): the bound for this card is that chain
        # once plus the ordinary budget
        budget += 270
    o = observe(sim, budget)
    vs = judge(base, img, o, d.get('content', True))
    if not vs:
        return [], o
    cls = d.get('cls') or base.field_class(muts, img)
    out = []
    for what, extra in vs:
        sig = '%s|%s|%s|%s' % (base.kind, STAGE_OP.get(o['stage'], 'ndef'),
                               cls, what)
        detail = dict(d)
        detail.update(extra)
        detail['stage'] = o['stage']
        detail['muts_at'] = [(base.fields[fi][0], base.fields[fi][1],
                              base.fields[fi][2], val) for fi, val in muts]
        detail['image'] = {k: bytes(v) for k, v in img.items()}
        detail['commands'] = o['cmds']
        detail['budget'] = budget
        detail['log_tail'] = [(i, n, bytes(c)[:24],
                               r if isinstance(r, str) or r is None
                               else bytes(r)[:24])
                              for (i, n, c, r) in sim.log[-6:]]
        out.append((sig, detail))
    return out, o


# operation part of the signature: activate() or the NDEF evaluation (tag.ndef
# and its attributes; the exact stage is in the detail)
STAGE_OP = {'activate': 'activate'}


# ---------------------------------------------------------------------------
# enumeration
# ---------------------------------------------------------------------------
def fault_free(base, opts=None):
    """(number of commands, names) of the fault-free harness run."""
    sim = base.new_sim(base.image(), **(opts or {}))
    o = observe(sim, base.budget)
    return o['cmds'], [n for (_, n, _, _) in sim.log], len(
        getattr(sim, 'apdus', ()))


def items_mut1(tier):
    out = []
    for b in tier_bases(tier):
        for fi in range(len(b.fields)):
            out.append(('mut1', b.name, fi))
    return out


def pairs_of(b):
    m = b.multi
    return [(i, j) for x, i in enumerate(m) for j in m[x + 1:]
            if (b.fields[i][0], b.fields[i][1]) !=
            (b.fields[j][0], b.fields[j][1])]


def items_mut2(tier):
    """all pairs x boundary alphabet; thorough: also x the wide alphabet"""
    out = []
    for b in tier_bases(tier):
        for (i, j) in pairs_of(b):
            out.append(('mut2', b.name, i, j, 'a12'))
            if tier == 'thorough' and b.tier == 'quick':
                out.append(('mut2', b.name, i, j, 'wide'))
            elif tier == 'quick' and b.kind in ('T1', 'T2') and all(
                    b.fields[x][2][:1] in 'VL' and '(' in b.fields[x][2]
                    for x in (i, j)):
                # TLV length / control TLV value octets of Type 1 and 2:
                # the reserved ranges they describe interact (DESIGN 7.2)
                out.append(('mut2', b.name, i, j, 'wide'))
    return out


def items_mut3(tier):
    """thorough: all triples of the bases of the quick list x ALPHA3"""
    out = []
    if tier != 'thorough':
        return out
    for b in tier_bases('quick'):
        m = b.multi
        for x, i in enumerate(m):
            for y in range(x + 1, len(m)):
                out.append(('mut3', b.name, i, m[y]))
    return out


def items_mutw(tier):
    """all 65536 values of every 16-bit word of a multi-byte field (3-byte
    TLV lengths, Nmaxb, Ln, checksum, CCLEN, MLe, MLc, file id, file size,
    NLEN; not the RFU bytes of the attribute block); quick: the bases
    named in WORD_QUICK, without the checksum word"""
    out = []
    for b in tier_bases(tier):
        if tier != 'thorough' and b.tier != 'quick':
            continue
        for (i, j) in b.words:
            if 'rfu' in b.fields[i][2]:
                continue
            if tier != 'thorough' and (
                    b.name not in WORD_QUICK or 'cks' in b.fields[i][2][:8]):
                continue
            for hi in range(256):
                out.append(('mutw', b.name, i, j, hi))
    return out


WORD_QUICK = ('T1|size=512|hr1=4C|nulls=0|rsv=none/2|msg=300',
              'T2|D=504|ntag215|nulls=0|rsv=none/2|msg=300',
              'T3|nbr=4|nbw=3|nmaxb=3|msg=40',
              'T4|v20|mle=15|mlc=1|mfs=64|fsci=8|A|msg=7')


def first_base(kind, sub):
    for b in bases().values():
        if b.kind == kind and sub in b.name:
            return b
    raise KeyError((kind, sub))


def act_cases(tier):
    """Activation response variants; list of case dicts."""
    from sim import hostile as h
    out = []
    th = tier == 'thorough'
    # -- Type 1: every HR0/HR1 pair on static memory, (thorough) on 512 bytes
    b = first_base('T1', 'size=120|hr1=48|nulls=1')
    for hr0 in range(256):
        for hr1 in range(256):
            out.append(dict(base=b.name, opts=dict(hr=(hr0, hr1)),
                            cls='hr0=%Xx' % (hr0 >> 4)))
    b = first_base('T1', 'size=512|hr1=4C|nulls=1')
    for hr0 in range(256):
        for hr1 in (range(256) if th else (0x00, 0x48, 0x4C, 0xFF)):
            out.append(dict(base=b.name, opts=dict(hr=(hr0, hr1)),
                            cls='hr0=%Xx' % (hr0 >> 4)))
    # -- Type 2: GET_VERSION x AUTHENTICATE answers x manufacturer byte
    versions = ['0004030101000B03', '0004030201000B03', '0004030101000E03',
                '0004030201000E03', '0004040101000B03', '0004040101000E03',
                '0004040201000F03', '0004040201001103', '0004040201001303',
                '0004040502011303', '0004040502011503',
                '0004040502021303', '00FF000000000000', None]
    known = set(versions[:11])
    for bn in ('D=48|ul|', 'D=144|ntag203', 'D=144|ulc', 'D=504|ntag215'):
        b = first_base('T2', bn)
        for uid0 in (0x04, 0x05):
            for ulc in (False, True):
                for uns in ('mute', 'nak'):
                    for v in versions:
                        o = dict(uid0=uid0, ulc=ulc, unsupported=uns,
                                 version=v)
                        out.append(dict(
                            base=b.name, opts=o,
                            cls='version=%s' % ('none' if v is None else
                                                'known' if v in known
                                                else 'unknown')))
    # answers to the two probe commands that are neither data nor silence
    for bn in ('D=48|ul|', 'D=144|ntag203'):
        b = first_base('T2', bn)
        for k in (1, 2, 3):
            for v in T2_NIBBLES:
                out.append(dict(base=b.name, opts=dict(uid0=0x04),
                                script=('nibble', k, v), cls='probe-nibble'))
            for kind in tagsim.FAULTS:
                out.append(dict(base=b.name, opts=dict(uid0=0x04),
                                script=('fault', k, kind),
                                cls='probe-' + kind))
    # -- Type 3: SENSF_RES with / without system code x IC code x systems
    for bn in ('nbr=1|nbw=1|nmaxb=1', 'nbr=4|nbw=1|nmaxb=13'):
        b = first_base('T3', bn)
        for ic in range(256):
            for with_sys in (False, True):
                for sysc in (0x12FC, 0xFFFF, 0x0003, 0x88B4):
                    if not with_sys and sysc != 0x12FC:
                        continue
                    for realsys in (0x12FC, 0x0003):
                        for idm01 in ('02fe', '01fe', '03fe'):
                            if idm01 != '02fe' and not (th or ic % 16 == 0):
                                continue
                            out.append(dict(
                                base=b.name,
                                opts=dict(ic=ic, idm01=idm01, realsys=realsys,
                                          sensf=(with_sys, sysc)),
                                cls='sensf:%s' % ('sys' if with_sys
                                                  else 'nosys')))
    # -- Type 3: Polling responses of other sizes than the request code asks
    #    for (the NDEF read polls for system 12FCh when discovery saw another
    #    or no system code)
    for bn in ('nbr=1|nbw=1|nmaxb=1', 'nbr=4|nbw=1|nmaxb=13'):
        b = first_base('T3', bn)
        for with_sys, sysc in ((False, 0x12FC), (True, 0x0003),
                               (True, 0xFFFF), (True, 0x12FC)):
            for realsys in (0x12FC, 0x0003):
                for tail in ('00', '12fc', '0083', '000000', '00000000',
                             -1, -2, -8, -16, -17):
                    out.append(dict(
                        base=b.name,
                        opts=dict(realsys=realsys, sensf=(with_sys, sysc),
                                  poll_tail=tail),
                        cls='polling-response:%s' % (
                            'longer' if isinstance(tail, str) else 'shorter')))
    # -- Type 4A: ATS variants
    subsets = ('', 'A', 'B', 'C', 'AB', 'AC', 'BC', 'ABC')
    for bn in ('v20|mle=15', 'v30|mle=59'):
        b = first_base('T4', bn)
        for ss in subsets:
            for hist in (0, 1, 2):
                for tl in ('ok', 'short', 'long'):
                    if th:
                        grid = [(f, w) for f in range(16) for w in range(16)]
                    else:
                        grid = [(f, 4) for f in range(16)] + \
                               [(8, w) for w in range(16) if w != 4]
                    for (fsci, fwi) in grid:
                        a = h.ats(ss, hist, tl, fsci, fwi)
                        out.append(dict(
                            base=b.name, opts=dict(ats_bytes=a.hex()),
                            cls='ats:len<4' if len(a) < 4 else
                            'ats:%s,hist=%d,tl=%s' % (ss or '-', hist, tl)))
        for a in ('01', '02', '0200', '0270', '00', '05'):
            out.append(dict(base=b.name, opts=dict(ats_bytes=a),
                            cls='ats:len<4'))
    # -- Type 4B: SENSB_RES 12/13 bytes x FSCI x FWI, protocol type / FO
    # nibbles rotated; ATTRIB answers
    for bn in ('v20|mle=255', 'v30|mle=256'):
        b = first_base('T4', bn)
        i = 0
        for n in (12, 13):
            for fsci in range(16):
                for fwi in range(16):
                    i += 1
                    rot = ((1, 0), (0, 1), (9, 5), (1, 3))
                    for (pt, fo) in (rot if th else rot[i % 4:][:1]):
                        out.append(dict(
                            base=b.name,
                            opts=dict(sensb=(n, fsci, fwi, pt, fo)),
                            cls='sensb:%d' % n))
        for ar in ('00', '10', '0f', '00a1b2', 'f0'):
            out.append(dict(base=b.name, opts=dict(attrib_res=ar),
                            cls='attrib:' + ar))
    return out


def stop_cases(tier):
    out = []
    for b in tier_bases('thorough'):
        # big layouts of the thorough list are walked by both tiers here:
        # the fault-free run is short compared with the mutation parts
        n, names, _ = fault_free(b)
        for k in range(0, n + 1):
            nm = names[k] if k < n else 'end'
            out.append(dict(base=b.name, script=('gone', k),
                            cls='gone@' + nm))
        for k in range(1, n + 1):
            for kind in tagsim.FAULTS:
                out.append(dict(base=b.name, script=('fault', k, kind),
                                cls='%s@%s' % (kind, names[k - 1])))
    return out


def host_cases(tier):
    out = []
    th = tier == 'thorough'
    for b in bases().values():
        if b.tier != 'wide':
            continue
        nl = [i for i, f in enumerate(b.fields) if f[2] == 'nlen']
        cap = b.case.ref_capacity()
        for wide in (False, True):
            for nlen in (None, 0x7FFB, 0x7FFC, 0x7FFD, 0xFFFB, 0xFFFC, 0xFFFD,
                         0x10000, 0x10001, cap - 1, cap, cap + 1):
                muts = [] if nlen is None else [
                    (fi, nlen >> (8 * (len(nl) - 1 - k)) & 255)
                    for k, fi in enumerate(nl)]
                out.append(dict(base=b.name, muts=muts,
                                opts=dict(wide_offset=wide),
                                cls='nlen%s,offsets=%dbit' % (
                                    '=valid' if nlen is None else (
                                        '<8000h' if nlen < 0x7FFC else (
                                            '<10000h' if nlen < 0xFFFC
                                            else '>=10000h')),
                                    16 if wide else 15)))
    for b in tier_bases('thorough'):
        n, names, napdu = fault_free(b)
        if b.kind == 'T2':
            for k in range(1, n + 1):
                for v in T2_NIBBLES:
                    out.append(dict(base=b.name, script=('nibble', k, v),
                                    cls='nibble@' + names[k - 1]))
        elif b.kind == 'T3':
            sim = b.new_sim(b.image())
            observe(sim, b.budget)
            for k in range(1, n + 1):
                rsp = sim.log[k - 1][3]
                for cut in range(2, len(rsp)):
                    if not th and not (cut <= 13 or cut % 16 in (12, 13, 14)
                                       or cut >= len(rsp) - 2):
                        continue
                    out.append(dict(base=b.name, script=('t3cut', k, cut),
                                    cls='cut@%s:%s' % (
                                        names[k - 1],
                                        cut if cut < 13 else 'data')))
                for (f1, f2) in T3_FLAGS:
                    out.append(dict(base=b.name,
                                    script=('t3flags', k, f1, f2),
                                    cls='flags@' + names[k - 1]))
                out.append(dict(base=b.name, script=('t3idm', k),
                                cls='idm@' + names[k - 1]))
                for dlt in (-1, 1):
                    out.append(dict(base=b.name, script=('t3nblk', k, dlt),
                                    content=False,
                                    cls='nblk@' + names[k - 1]))
        elif b.kind == 'T4':
            for k in range(2, n + 1):
                for name in T4_BLOCKS:
                    for ever in (False, True):
                        if ever and name.startswith('wtx-mute'):
                            continue
                        out.append(dict(
                            base=b.name, script=('block', k, name, ever),
                            content=False,
                            cls='%s%s@%s' % (
                                name if name[:3] != 'wtx' or 'mute' in name
                                else name.partition(':')[0],
                                '*' if ever else '', names[k - 1])))
            for j in range(1, napdu + 1):
                for rsp in T4_APDU_RSP:
                    for ever in (False, True):
                        out.append(dict(
                            base=b.name, script=('apdu', j, rsp, ever),
                            content=False,
                            cls='apdu%d%s=%s' % (j, '*' if ever else '',
                                                 rsp or 'empty')))
            for pol in ('zero', 'half', 'plus', 'dup'):
                out.append(dict(base=b.name, opts=dict(le_policy=pol),
                                content=pol != 'dup',
                                cls='read-binary:' + pol))
            # MLe (CC bytes 3,4) = 0..3 with both answers to READ BINARY
            # without Le
            for c1 in ('6700', '9000'):
                for mle in (0, 1, 2, 3):
                    out.append(dict(base=b.name, muts=[(3, 0), (4, mle)],
                                    opts=dict(case1=c1, le_policy='exact'),
                                    cls='mle=%d,case1=%s' % (mle, c1)))
                    out.append(dict(base=b.name, muts=[(3, 0), (4, mle)],
                                    opts=dict(case1=c1, le_policy='zero'),
                                    cls='mle=%d,case1=%s,zero' % (mle, c1)))
    return out


# ---------------------------------------------------------------------------
def work(item):
    run = Run(PROP)
    t0 = time.process_time()
    part = item[0]
    if part == 'mut1':
        _, bname, fi = item
        cases = [dict(base=bname, muts=[(fi, v)]) for v in range(256)]
    elif part == 'mut2':
        _, bname, i, j, alpha = item
        al = ALPHAS[alpha]
        cases = [dict(base=bname, muts=[(i, a), (j, b)])
                 for a in al for b in al
                 if alpha == 'a12' or not (a in ALPHA2 and b in ALPHA2)]
    elif part == 'mut3':
        _, bname, i, j = item
        m = bases()[bname].multi
        cases = [dict(base=bname, muts=[(i, a), (j, b), (k, c)])
                 for k in m[m.index(j) + 1:]
                 for a in ALPHA3 for b in ALPHA3 for c in ALPHA3]
    elif part == 'mutw':
        _, bname, i, j, hi = item
        cases = [dict(base=bname, muts=[(i, hi), (j, lo)])
                 for lo in range(256)]
    else:
        cases = item[1]
    last = None
    for d in cases:
        base = bases()[d['base']]
        fails, o = run_case(d)
        key = (d['base'], tuple(map(tuple, d.get('muts', ()))),
               repr(sorted((d.get('opts') or {}).items())),
               repr(d.get('script')))
        ndev = len(d.get('muts', ())) + bool(d.get('script')) + \
            bool(d.get('opts'))
        if not fails:
            run.ok(key=key)
        for (sig, detail) in fails:
            run.fail(sig, detail, key=key, deviations=ndev)
        if len(fails) > 1:              # one case, several oracle clauses
            run.evaluations -= len(fails) - 1
        sig = fails[0][0] if fails else None
        oc = outcome_of(o)
        run.outcome((base.kind, oc))
        run.count('%s:%s' % (part, base.kind))
        run.count('outcome:' + (oc if oc[:3] in ('exc', 'unb', 'act')
                                else 'tag'))
        for r in o['reads']:
            if r is None:
                run.count('ndef:None')
            else:
                run.count('ndef:object')
                if r[0]:
                    run.count('ndef:object-nonempty(content oracle %s)' % (
                        'on' if d.get('content', True) else 'off'))
        last = dict(case=d, outcome=oc, commands=o['cmds'],
                    verdict=sig or 'ok')
    run.count('cpu_ms', int((time.process_time() - t0) * 1000))
    if last:
        run.sample(last)
    return run.export()


PARTS = ('mut1', 'mut2', 'mut3', 'mutw', 'act', 'stop', 'host')


def build_items(tier, parts):
    items, sizes = [], {}
    if 'mut1' in parts:
        it = items_mut1(tier)
        sizes['mut1'] = len(it) * 256
        items += it
    if 'mut2' in parts:
        it = items_mut2(tier)
        n12, nw = len(ALPHA2) ** 2, len(ALPHA_WIDE) ** 2 - len(ALPHA2) ** 2
        sizes['mut2'] = sum(n12 if x[4] == 'a12' else nw for x in it)
        items += it
    if 'mut3' in parts:
        it = items_mut3(tier)
        sizes['mut3'] = sum(
            (len(bases()[x[1]].multi) - bases()[x[1]].multi.index(x[3]) - 1)
            * len(ALPHA3) ** 3 for x in it)
        items += it
    if 'mutw' in parts:
        it = items_mutw(tier)
        sizes['mutw'] = len(it) * 256
        items += it
    for p, fn in (('act', act_cases), ('stop', stop_cases),
                  ('host', host_cases)):
        if p in parts:
            cs = fn(tier)
            sizes[p] = len(cs)
            items += [(p, cs[i:i + 64]) for i in range(0, len(cs), 64)]
    return items, sizes


def main(tier='quick', seed=0, part=None):
    run = Run(PROP, tier, seed, level='exploration')
    parts = PARTS if part is None else tuple(part.split(','))
    bases()
    items, sizes = build_items(tier, parts)
    for res in par.pmap(work, par.shuffled(items, seed), chunksize=2):
        run.merge(res)
    run.rule = (
        "one case = (base layout with message, byte substitutions, activation "
        "response variant, answer script); every case is one execution of "
        "nfc.tag.activate + tag.ndef + length/capacity/octets/has_changed + "
        "tag.ndef on the real code; distinct = distinct (base, substitutions, "
        "variant, script); every case counts as non-trivial (the image, the "
        "activation response or the answer script deviates from the valid "
        "tag, except the 256th value of each byte which restores it)")
    run.assumptions += [
        "tag simulators sim/t1t,t2t,t3t,t4t (+ sim/hostile.py) are the "
        "trusted base; hostile answers are well framed: Type 1 answers keep "
        "their fixed length, Type 2 READ answers are 16 bytes or a 4-bit "
        "ACK/NAK, Type 3 answers have a correct LEN byte and response code "
        "(but may be cut short behind the response code), ISO-DEP answers "
        "are syntactically valid blocks (S(WTX) always with its WTXM byte); "
        "RF-level malformed frames (wrong LEN byte, 1-byte S(WTX), Type 1/2 "
        "answers of other lengths) are outside the property and not sent",
        "data area = what the mutated image itself declares, cut to the "
        "physical memory (Base.area_bytes); octets must be a subsequence of "
        "its bytes; bytes reserved by control TLVs are not removed from the "
        "area (lenient); the content oracle is switched off where the script "
        "injects payload bytes that are not tag memory (ISO-DEP block / APDU "
        "answers, Type 3 block count changes)",
        "budget = 4 x memory units + 64 exchanges/senses for each evaluation "
        "(activate, tag.ndef, has_changed, second tag.ndef); units: T1 "
        "8-byte blocks, T2 pages, T3 blocks, T4 bytes of CC + NDEF file (an "
        "ISO-DEP card may legally deliver a response in one-byte blocks)",
        "a data area declared larger than the memory: the bytes the tag "
        "answers for the missing addresses (zeros from a Type 1 Tag with "
        "segment commands, the first pages of the sector by READ roll-over "
        "on Type 2) count as its data area - no reader can tell the "
        "difference",
        "no random images: every image is a valid layout with 1 or 2 "
        "management bytes substituted; the library's Type3TagEmulation is "
        "not used as a tag here",
    ]
    bl = tier_bases(tier)
    run.extra['bounds'] = dict(
        parts=list(parts), cases_per_part=sizes,
        bases={b.name: dict(fields=len(b.fields), budget=b.budget,
                            tier=b.tier) for b in bl},
        mut1='every management byte x 256 values',
        mut2='all pairs of management bytes (Type 3: checksum-consistent '
             'variants + raw checksum bytes) x %d x %d boundary values %s; '
             'thorough: for the bases of the quick list also x the %d-value '
             'alphabet %s' % (
                 len(ALPHA2), len(ALPHA2),
                 ' '.join('%02X' % a for a in ALPHA2), len(ALPHA_WIDE),
                 ' '.join('%02X' % a for a in ALPHA_WIDE)),
        mut3='thorough: all triples of management bytes of the bases of the '
             'quick list x %s' % ' '.join('%02X' % a for a in ALPHA3),
        mutw='all 65536 values of every 16-bit word inside a multi-byte '
             'field; quick: only for the bases %s' % (WORD_QUICK,),
        t4_blocks=list(T4_BLOCKS), t4_apdu_answers=list(T4_APDU_RSP),
        t2_nibbles=list(T2_NIBBLES), items=len(items))
    return run.finish(exhaustive=(part is None))


def replay(doc):
    d = doc['detail']
    case = {k: d[k] for k in ('base', 'muts', 'opts', 'script', 'content',
                              'cls') if k in d}
    fails, o = run_case(case)
    print('case: %r' % (case,))
    print('outcome: %s after %d commands' % (outcome_of(o), o['cmds']))
    if not fails:
        print('no violation for this case')
        return 0
    for sig, detail in fails:
        print('VIOLATION %s' % sig)
        for k in ('exc', 'stage', 'length', 'capacity', 'octets',
                  'log_tail'):
            if k in detail:
                print('  %s: %r' % (k, detail[k]))
    return 1
