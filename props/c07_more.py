"""C07 parts 'snep' (malformed SNEP / handover fragments and responses inside
correctly numbered I PDUs) and 'card' (commands to the Type 3 Tag emulation)."""
import itertools
import struct

from mc.evidence import Run, sig_exc
from mc import par, sched
from sim import peer as simpeer


# -- fragments to the servers --------------------------------------------------------
def snep_messages(tier):
    ndef3 = bytes.fromhex('d00000')
    body = {'empty': b'', 'ndef': ndef3, 'junk': b'\x01\x02\x03\x04\x05',
            'get': struct.pack('>L', 1024) + ndef3}
    out = [('short', bytes(range(n))) for n in range(0, 6)]
    vers = (0x00, 0x01, 0x10, 0x11, 0x1F, 0x20, 0xFF)
    codes = (0x00, 0x01, 0x02, 0x03, 0x7F, 0x80, 0x81, 0xFF)
    for v in vers:
        for c in codes:
            for bname, b in sorted(body.items()):
                size = len(b)
                for ln in (0, 1, size - 1, size, size + 1, 0x7FFFFFFF,
                           0xFFFFFFFF):
                    if ln < 0:
                        continue
                    if tier != 'thorough' and v not in (0x10, 0x20, 0x00) \
                            and c not in (1, 2):
                        continue
                    out.append(('hdr', struct.pack('>BBL', v, c, ln) + b))
    # NDEF content variants behind a valid put header
    for nd in (b'\xd0', b'\xd0\x00', b'\xd1\x01\xff', b'\x10\x00\x00',
               b'\xd0\x00\x00\xd0\x00\x00', b'\xc0\x00\x00\x00\x10\x00',
               b'\xd1\x02\x05Hr\x12', b'\xff' * 7):
        out.append(('ndef', struct.pack('>BBL', 0x10, 2, len(nd)) + nd))
        out.append(('ndef', struct.pack('>BBLL', 0x10, 1, 4 + len(nd), 64)
                    + nd))
    uniq, seen = [], set()
    for k, m in out:
        if m not in seen:
            seen.add(m)
            uniq.append((k, m))
    return uniq


def handover_messages(tier):
    import ndef
    hr = b''.join(ndef.message_encoder([ndef.HandoverRequestRecord('1.2', 7)]))
    txt = b''.join(ndef.message_encoder([ndef.TextRecord('hi')]))
    out = [('empty', b''), ('hr', hr), ('not-hr', txt),
           ('hr-cut', hr[:len(hr) // 2]), ('hr+junk', hr + b'\x00\x01'),
           ('junk', b'\xff' * 5), ('empty-record', b'\xd0\x00\x00'),
           ('long-payload', b'\xc1\x01\x7f\xff\xff\xffT'),
           ('chunk-start', b'\xb1\x01\x01Tx'), ('one', b'\xd1'),
           ('hr-wrong-version', hr[:5] + b'\x20' + hr[6:]),
           ('hr-bad-cr', hr[:8] + b'\xff' + hr[9:])]
    for i in range(len(hr)):
        out.append(('hr-sub', hr[:i] + bytes([hr[i] ^ 0xFF]) + hr[i + 1:]))
    return out


def i_pdu(dsap, ssap, ns, nr, data):
    return simpeer.hdr(dsap, 12, ssap) + bytes([ns << 4 | nr]) + data


def server_case(role, service, first, second):
    """The peer connects to the SNEP (SAP 4) or handover service and sends
    one or two I PDUs."""
    from props import c07
    if service == 'snep':
        connect = simpeer.hdr(4, 4, 33)
        dsap = 4
    else:
        connect = simpeer.hdr(1, 4, 33) + bytes([6, 19]) + b'urn:nfc:sn:handover'
        dsap = 16           # first name bound after sdp/snep
    script = {1: [connect], 4: [i_pdu(dsap, 33, 0, 0, first)]}
    if second is not None and second[:4] == b'PDU:':
        script[7] = [second[4:]]            # a complete PDU, not an I PDU
    elif second is not None:
        script[7] = [i_pdu(dsap, 33, 1, 0, second)]
    s, out, p = c07.peer_run(role, script, brk_at=12)
    return c07.judge_peer(s, out), s


def client_case(role, kind, response):
    """A local SNEP / handover client talks to a scripted server that answers
    the first request fragment with `response`."""
    import nfc.snep
    import nfc.handover
    from props import c07

    def client(llc, out):
        if kind == 'put':
            return nfc.snep.SnepClient(llc).put_octets(b'\xd0\x00\x00')
        if kind == 'get':
            return nfc.snep.SnepClient(llc).get_octets(b'\xd0\x00\x00')
        if kind == 'get_records':
            return nfc.snep.SnepClient(llc).get_records()
        h = nfc.handover.HandoverClient(llc)
        h.connect()
        import ndef
        h.send_records([ndef.HandoverRequestRecord('1.2', 7)])
        r = h.recv_records(timeout=0.5)
        h.close()
        return r
    peer_kw = {}
    s, out, p = _client_run(role, client, response, kind)
    return c07.judge_peer(s, out), s


def _client_run(role, client, response, kind):
    from props import c07
    real_init = simpeer.Peer.__init__

    def patched(self, *a, **kw):
        real_init(self, *a, **kw)
        self.known_addrs = (4, 16)
        self.known_names = {b'urn:nfc:sn:snep': 4,
                            b'urn:nfc:sn:handover': 16}
        self.responses = [response]
    simpeer.Peer.__init__ = patched
    try:
        return c07.peer_run(role, {}, client=client, brk_at=14)
    finally:
        simpeer.Peer.__init__ = real_init


def response_messages(tier):
    out = [('short', bytes(range(n))) for n in range(0, 6)]
    for v in (0x00, 0x10, 0x11, 0x20, 0xFF):
        for c in (0x00, 0x80, 0x81, 0xC0, 0xC2, 0xE0, 0xFF):
            for ln in (0, 1, 3, 4, 1025, 0xFFFFFFFF):
                for b in (b'', b'\xd0\x00\x00', b'\xff\xff\xff\xff'):
                    if tier != 'thorough' and v not in (0x10, 0x20) and \
                            c != 0x81:
                        continue
                    out.append(('hdr', struct.pack('>BBL', v, c, ln) + b))
    return out


def snep_work(arg):
    kind, items = arg
    run = Run('C07')
    for item in items:
        if kind == 'server':
            role, service, cls, first, second = item
            bad, s = server_case(role, service, bytes.fromhex(first),
                                 None if second is None
                                 else bytes.fromhex(second))
            ctx = 'snep|%s-server|%s' % (service, cls)
        else:
            role, ckind, cls, resp = item
            bad, s = client_case(role, ckind, bytes.fromhex(resp))
            ctx = 'snep|%s-client|%s' % (ckind, cls)
        key = ('snep', kind, repr(item))
        run.outcome((ctx, s.verdict))
        if not bad:
            run.ok(key)
        seen = set()
        for sig, detail in bad:
            sig = '%s|%s' % (ctx, sig)
            if sig not in seen:
                seen.add(sig)
                run.fail(sig, dict(detail, part='snep', kind=kind, item=item),
                         key)
        if len(seen) > 1:
            run.evaluations -= len(seen) - 1
    run.count('snep:' + kind, len(items))
    run.sample(dict(part='snep', kind=kind, item=items[0]))
    return run.export()


def snep_units(tier):
    roles = ('initiator', 'target') if tier == 'thorough' else ('initiator',)
    server = []
    for role in roles:
        for cls, m in snep_messages(tier):
            for second in (None, b'', b'\x01\x02', m[6:] if len(m) > 6 else b'x'):
                if tier != 'thorough' and second not in (None, b'\x01\x02'):
                    continue
                server.append((role, 'snep', cls, m.hex(),
                               None if second is None else second.hex()))
        for cls, m in handover_messages(tier):
            for second in (None, b'', m[len(m) // 2:], b'\xd0\x00\x00'):
                server.append((role, 'handover', cls, m.hex(),
                               None if second is None else second.hex()))
        # a complete Get request whose response is sent in fragments: what
        # the client does instead of (or as) the Continue request
        get = struct.pack('>BBLL', 0x10, 1, 7, 1024) + b'\xd0\x00\x00'
        nxt = [('continue', b'\x10\x00\x00\x00\x00\x00'),
               ('reject', b'\x10\x7f\x00\x00\x00\x00'),
               ('continue-cut', b'\x10\x00\x00'), ('empty', b''),
               ('junk', b'\xff' * 7), ('other-version', b'\x20\x00\0\0\0\0'),
               ('get-again', get)]
        for p_name, ptype in (('disc', 5), ('dm', 7), ('frmr', 8), ('rr', 13),
                              ('rnr', 14), ('cc', 6), ('connect', 4)):
            body = {7: b'\x00', 8: b'\x00' * 4, 13: b'\x01',
                    14: b'\x01'}.get(ptype, b'')
            nxt.append((p_name, b'PDU:' + simpeer.hdr(4, ptype, 33) + body))
        for cls, second in nxt:
            server.append((role, 'snep', 'get-fragmented|' + cls, get.hex(),
                           second.hex()))
    client = []
    for role in roles:
        for cls, m in response_messages(tier):
            for ckind in ('put', 'get', 'get_records'):
                client.append((role, ckind, cls, m.hex()))
        for cls, m in handover_messages(tier):
            client.append((role, 'handover', cls, m.hex()))
    return [('snep', ('server', c)) for c in par.chunks(server, 48)] + \
        [('snep', ('client', c)) for c in par.chunks(client, 48)]


# -- card emulation ------------------------------------------------------------------
SENSF_RES = "0102fe010203040506ffffffffffffffff12fc"


def card_commands(tier):
    idm = bytes.fromhex("02fe010203040506")
    out = []
    valid = {
        'poll': bytes.fromhex("00ffff0100"),
        'read': bytes([0x06]) + idm + bytes.fromhex("010b00018000"),
        'read2': bytes([0x06]) + idm + bytes.fromhex("010b0002800080 01".replace(' ', '')),
        'write': bytes([0x08]) + idm + bytes.fromhex("0109000180 00".replace(' ', '')) + bytes(16),
        'reqrsp': bytes([0x04]) + idm,
        'reqsys': bytes([0x0c]) + idm,
    }
    for name, body in sorted(valid.items()):
        full = bytes([len(body) + 1]) + body
        out.append((name, full))
        for k in range(len(full)):
            out.append((name + '-trunc', full[:k]))
            cut = full[:k]
            if k >= 1:
                out.append((name + '-cut', bytes([k]) + cut[1:]))
        for i in range(1, len(full)):
            for v in (0x00, 0x0F, 0x10, 0x7F, 0x80, 0xFF):
                if v != full[i]:
                    out.append((name + '-sub', full[:i] + bytes([v])
                                + full[i + 1:]))
    for code in range(256):
        for tail in (b'', b'\x00', b'\x01\x0b\x00\x01\x80\x00', bytes(20)):
            body = bytes([code]) + idm + tail
            out.append(('code', bytes([len(body) + 1]) + body))
    for n in (0, 1, 2):
        for t in itertools.product((0, 1, 2, 6, 8, 0x10, 0xFF), repeat=n):
            out.append(('short', bytes(t)))
    uniq, seen = [], set()
    for k, c in out:
        if c not in seen:
            seen.add(c)
            uniq.append((k, c))
    return uniq


def make_emulation():
    import nfc.clf
    import nfc.tag.tt3
    target = nfc.clf.LocalTarget("212F")
    target.sensf_res = bytearray.fromhex(SENSF_RES)
    target.tt3_cmd = bytearray.fromhex("0602fe010203040506010b00018000")
    mem = bytearray(16 * 8)
    mem[0:16] = bytearray.fromhex("10040100 07000000 00000100 00000000")
    mem[14:16] = struct.pack('>H', sum(mem[0:14]))

    def rd(block, rb, re):
        if block < 8:
            return mem[block * 16:(block + 1) * 16]

    def wr(block, data, wb, we):
        if block < 8 and len(data) == 16:
            mem[block * 16:(block + 1) * 16] = data
            return True
        return False
    tag = nfc.tag.tt3.Type3TagEmulation(None, target)
    tag.add_service(0x0009, rd, wr)
    tag.add_service(0x000B, rd, lambda *a: False)
    return tag, rd, wr


def card_work(arg):
    import nfc.clf
    import nfc.clf.device
    from props import c18
    mode, items = arg
    run = Run('C07')
    for cls, hexcmd in items:
        cmd = bytes.fromhex(hexcmd)
        key = ('card', mode, hexcmd)
        bad = []
        if mode == 'direct':
            tag, rd, wr = make_emulation()
            try:
                rsp = tag.process_command(bytearray(cmd))
                if rsp is not None and not isinstance(rsp, (bytes, bytearray)):
                    bad.append(('returned-%s' % type(rsp).__name__, {}))
                outcome = 'none' if rsp is None else 'rsp'
            except Exception as e:
                bad.append((sig_exc(e), dict(error=repr(e))))
                outcome = 'exc'
        else:
            log = []
            dev = c18.Dev(dict(found={}, reader=True, reader_cmds=2), log)
            dev._read_cmd = lambda target, c=cmd: bytearray(c)
            real = nfc.clf.device.connect
            nfc.clf.device.connect = lambda path: dev
            services = {}

            def on_startup(target):
                target.brty = '212F'
                target.sensf_res = bytearray.fromhex(SENSF_RES)
                return target

            def on_connect(tag):
                t2, rd, wr = make_emulation()
                tag.add_service(0x0009, rd, wr)
                tag.add_service(0x000B, rd, lambda *a: False)
                return True
            calls = [0]

            def terminate():
                calls[0] += 1
                return calls[0] > 4
            try:
                clf = nfc.clf.ContactlessFrontend('script')
                try:
                    r = clf.connect(card={'on-startup': on_startup,
                                          'on-connect': on_connect,
                                          'timeout': 0.05},
                                    terminate=terminate)
                    outcome = 'ret:%s' % type(r).__name__
                except Exception as e:
                    bad.append(('connect-raises|%s' % sig_exc(e),
                                dict(error=repr(e))))
                    outcome = 'exc'
            finally:
                nfc.clf.device.connect = real
        run.outcome(('card', mode, outcome))
        if not bad:
            run.ok(key)
        seen = set()
        for sig, detail in bad:
            sig = 'card|%s|%s|%s' % (mode, cls, sig)
            if sig not in seen:
                seen.add(sig)
                run.fail(sig, dict(detail, part='card', mode=mode,
                                   cmd=hexcmd), key)
    run.count('card:' + mode, len(items))
    run.sample(dict(part='card', mode=mode, cmd=items[0][1]))
    return run.export()


def card_units(tier):
    cmds = [(k, c.hex()) for k, c in card_commands(tier)]
    return [('card', ('direct', c)) for c in par.chunks(cmds, 32)] + \
        [('card', ('connect', c)) for c in par.chunks(cmds, 32)]


WORKERS = {'snep': snep_work, 'card': card_work}
UNITS = {'snep': snep_units, 'card': card_units}


def replay(doc):
    d = doc['detail']
    if d.get('part') == 'dep':
        res = dep_work((d['side'], d['brty'], d['did'], d['op'],
                        [('replay', d['first'], d['second'])]))
    elif d.get('part') == 'card':
        res = card_work((d['mode'], [('replay', d['cmd'])]))
    elif d.get('part') == 'snep':
        res = snep_work((d['kind'], [tuple(d['item'])]))
    else:
        print('replay: unknown part')
        return 0
    sigs = sorted(res['failures'])
    print('replay:', sigs)
    return 1 if sigs else 0


# -- NFC-DEP data exchange against a scripted frame source ---------------------------
class DepClf(object):
    """clf stand-in: answers exchange() with scripted frames, then times out.
    A call with timeout 0 only sends (as the drivers do)."""

    def __init__(self, frames):
        self.frames = list(frames)
        self.sent = []

    def exchange(self, data, timeout):
        import nfc.clf
        self.sent.append(None if data is None else bytes(data))
        if timeout is not None and timeout <= 0 and data is not None:
            return None
        if self.frames:
            f = self.frames.pop(0)
            if f is None:
                raise nfc.clf.TimeoutError("scripted silence")
            return bytearray(f)
        raise nfc.clf.TimeoutError("peer is gone")

    def sense(self, *a, **k):
        return None

    def listen(self, *a, **k):
        return None


def dep_frames(tier, side):
    """Crafted peer frames (without framing): every PFB value with several
    tails for DEP, and the other PDU types in data exchange context."""
    code = b'\xd5\x07' if side == 'initiator' else b'\xd4\x06'
    tails = [b'', b'\x00', b'\x01', b'\x01\x02', b'\x00\x00\x00', b'\xff' * 4]
    out = []
    for pfb in range(256):
        for t in tails:
            out.append(('dep-pfb', code + bytes([pfb]) + t))
    base = 0xD5 if side == 'initiator' else 0xD4
    for c in range(0, 12):
        for t in (b'', b'\x00', b'\x00\x00', b'\x01\x02\x03', bytes(15),
                  bytes(17)):
            out.append(('other-pdu', bytes([base, c]) + t))
    for b in (b'', b'\x00', b'\xd5', b'\xd4', b'\xd5\x07', b'\xd4\x06'):
        out.append(('short', b))
    return out


def dep_case(side, brty, did, first, second, op):
    import nfc.dep
    import nfc.clf

    def frame(body):
        if body is None:
            return None
        f = bytes([len(body) + 1]) + body
        return (b'\xf0' + f) if brty == '106A' else f
    clf = DepClf([frame(first), frame(second)])
    if side == 'initiator':
        dep = nfc.dep.Initiator(clf)
        dep.target = nfc.clf.RemoteTarget(brty)
        dep.miu, dep.pni, dep.rwt, dep.did, dep.nad = 61, 0, 0.01, did, None
        dep.gbt = b''
        if op == 'exchange':
            return dep.exchange(b'p' * 5, 0.5)
        if op == 'exchange-chained':
            return dep.exchange(b'p' * 100, 0.5)
        return dep.deactivate(release=op == 'release')
    dep = nfc.dep.Target(clf)
    dep.target = nfc.clf.LocalTarget(brty)
    dep.miu, dep.pni, dep.rwt, dep.did, dep.nad = 61, 0, 0.01, did, None
    dep.cmd = None
    dep.gbi = b''
    dep.acm = False
    if op == 'exchange':
        return dep.exchange(b'r' * 5, 0.5)
    if op == 'exchange-chained':
        return dep.exchange(b'r' * 100, 0.5)
    if op == 'rtox':
        return dep.send_timeout_extension(2)
    return dep.deactivate(b'bye')


def dep_work(arg):
    import nfc.clf
    side, brty, did, op, items = arg
    run = Run('C07')
    for cls, first, second in items:
        first = bytes.fromhex(first)
        second = None if second is None else bytes.fromhex(second)
        key = ('dep', side, brty, did, op, first, second)
        try:
            dep_case(side, brty, did, first, second, op)
            out = 'returned'
            bad = None
        except nfc.clf.CommunicationError as e:
            out, bad = type(e).__name__, None
        except Exception as e:
            out = 'exc'
            bad = ('dep|%s|%s|%s|%s' % (side, op, cls, sig_exc(e)),
                   dict(part='dep', side=side, brty=brty, did=did, op=op,
                        first=first, second=second, error=repr(e)))
        run.outcome(('dep', side, op, out))
        if bad is None:
            run.ok(key, nontrivial=out == 'returned')
        else:
            run.fail(bad[0], bad[1], key)
    run.count('dep', len(items))
    run.sample(dict(part='dep', side=side, op=op, first=items[0][1]))
    return run.export()


def dep_units(tier):
    units = []
    for side in ('initiator', 'target'):
        frames = dep_frames(tier, side)
        ops = ('exchange', 'exchange-chained', 'deactivate', 'release') \
            if side == 'initiator' else ('exchange', 'exchange-chained',
                                         'rtox', 'deactivate')
        # second frame: silence, or one of each kind of data exchange PDU
        # (information with / without more-information, ACK, NACK, attention,
        # timeout extension; packet number 0 / 1; with / without the DID
        # bit) with no, one or two octets behind the PFB - so that every
        # crafted first frame is also followed by a well-formed or a
        # truncated PDU of every kind, and vice versa
        code = b'\xd5\x07' if side == 'initiator' else b'\xd4\x06'
        seconds = [None]
        for pfb in (0x00, 0x01, 0x10, 0x11, 0x40, 0x41, 0x50, 0x80, 0x90):
            for d in (0, 0x04):
                for t in ((b'', b'\x01', b'\x01\x02') if tier == 'thorough'
                          else (b'', b'\x01')):
                    seconds.append(code + bytes([pfb | d]) + t)
        if tier == 'thorough':
            seconds += [f for k, f in frames[::97]]
        for brty in ('106A', '212F'):
            for did in (None, 1):
                for op in ops:
                    items = [(k, f.hex(), None if s2 is None else s2.hex())
                             for k, f in frames for s2 in seconds]
                    for chunk in par.chunks(items, 8):
                        units.append(('dep', (side, brty, did, op, chunk)))
    return units


WORKERS['dep'] = dep_work
UNITS['dep'] = dep_units
